//! BOUNDED probe (C15): metamorphic check of the RTT estimator. Transactions whose individual response times are
//! r1, r2, r3 feed the estimator the same samples whether they overlap in time or run one after the other, so the initial
//! RTO of the next request must be the same in both schedules (response times from {20, 60, 150, 400} ms, all triples;
//! no retransmission occurs because every response arrives before the first RTO).
use std::time::{Duration, Instant};
use stun_agent::{RttConfig, StunAttributes, StunClient, StunClientEvent, StunClienteBuilder, TransportReliability};
use stun_rs::methods::BINDING;
use stun_rs::{MessageClass, MessageEncoderBuilder, StunMessageBuilder, TransactionId};

fn ms(v: u64) -> Duration { Duration::from_millis(v) }
fn client() -> StunClient { StunClienteBuilder::new(TransportReliability::Unreliable(RttConfig::default())).build().expect("build") }

fn send(c: &mut StunClient, at: Instant) -> (TransactionId, Option<Duration>) {
    let id = c.send_request(BINDING, StunAttributes::default(), vec![0; 256], at).expect("send");
    let mut rto = None;
    for e in c.events() { if let StunClientEvent::RestransmissionTimeOut((tid, d)) = e { if tid == id { rto = Some(d); } } }
    (id, rto)
}
fn respond(c: &mut StunClient, id: TransactionId, at: Instant) {
    let msg = StunMessageBuilder::new(BINDING, MessageClass::SuccessResponse).with_transaction_id(id).build();
    let mut buf = vec![0u8; 256];
    let n = MessageEncoderBuilder::default().build().encode(&mut buf, &msg).expect("encode");
    c.on_buffer_recv(&buf[..n], at).expect("response accepted");
    let _ = c.events();
}

// RTO offered to a fresh request after the three samples, when the three transactions do not overlap
fn sequential(r: [u64; 3]) -> Option<Duration> {
    let mut c = client();
    let t0 = Instant::now();
    let mut t = 0u64;
    for x in r { let (id, _) = send(&mut c, t0 + ms(t)); respond(&mut c, id, t0 + ms(t + x)); t += x + 5; }
    send(&mut c, t0 + ms(t + 10)).1
}
// the same three transactions, all started within 2 ms and answered in the order given by their response times
fn overlapped(r: [u64; 3]) -> Option<Duration> {
    let mut c = client();
    let t0 = Instant::now();
    let mut pending: Vec<(u64, TransactionId)> = Vec::new();
    for (k, x) in r.iter().enumerate() { let s = k as u64; let (id, _) = send(&mut c, t0 + ms(s)); pending.push((s + x, id)); }
    // the estimator is updated in the order the responses arrive: use the order of the sequential run (r1, r2, r3)
    // by delaying later responses so that arrival order == start order
    let mut last = 0u64;
    let mut shift = 0u64;
    let mut arrivals: Vec<(u64, TransactionId, u64)> = Vec::new();
    for (k, (at, id)) in pending.iter().enumerate() {
        let _ = k;
        let a = *at + shift;
        if a <= last { shift += last + 1 - a; }
        let a = *at + shift;
        last = a;
        arrivals.push((a, *id, shift));
    }
    if arrivals.iter().any(|x| x.2 != 0) { return None; } // only patterns that need no delay keep the samples equal
    for (a, id, _) in arrivals { respond(&mut c, id, t0 + ms(a)); }
    send(&mut c, t0 + ms(last + 10)).1
}

fn main() {
    let vals = [20u64, 60, 150, 400];
    let mut n = 0; let mut bad = 0;
    for a in vals { for b in vals { for cc in vals {
        let r = [a, b, cc];
        // sample k of the overlapped run is r[k] + 0 only if started at offset k and measured from its own start
        let s = sequential(r);
        if let Some(o) = overlapped(r) {
            n += 1;
            if s != Some(o) { println!("WITNESS: response times {:?} ms: next initial RTO {:?} when sequential, {:?} when overlapping", r, s, o); bad += 1; }
        }
        if bad > 3 { break; }
    } } }
    if bad == 0 { println!("ok: {} overlapping schedules give the RTO of the sequential ones", n); } else { std::process::exit(1); }
}
