//! BOUNDED probe (C05 / C12 / C11): exhaustive exploration of the real client over short action sequences.
//! Configurations: transport {unreliable, reliable} x mechanism {none, short-term(MESSAGE-INTEGRITY), long-term}
//! x max_transactions {1, 3}. Actions (sequences of length <= 5): S = send a request; G / F / C on the first or on the latest
//! request = genuine response / response with a broken MAC / 401 challenge; T0, T1, T2 = on_timeout now, +600 ms, +70 s.
//! Checked after every action: each request gets at most one final outcome (message delivered, TransactionFailed, Retry) and
//! nothing after it (no event, no timer naming it; a later response for it is refused without events); send_request fails
//! with MaxOutstandingRequestsReached exactly when the number of requests without final outcome equals the limit.
use std::collections::HashMap;
use std::time::{Duration, Instant};
use stun_agent::{CredentialMechanism, Integrity, RttConfig, StunAgentError, StunAttributes, StunClient, StunClientEvent, StunClienteBuilder, TransportReliability};
use stun_rs::attributes::stun::{ErrorCode, MessageIntegrity, Nonce, Realm, Software};
use stun_rs::methods::BINDING;
use stun_rs::{HMACKey, MessageClass, MessageEncoderBuilder, StunAttribute, StunMessageBuilder, TransactionId};

const USER: &str = "user";
const PASS: &str = "password";
fn ms(v: u64) -> Duration { Duration::from_millis(v) }
fn encode(class: MessageClass, id: TransactionId, attrs: Vec<StunAttribute>) -> Vec<u8> {
    let mut b = StunMessageBuilder::new(BINDING, class).with_transaction_id(id);
    for a in attrs { b = b.with_attribute(a); }
    let mut buf = vec![0u8; 512];
    let n = MessageEncoderBuilder::default().build().encode(&mut buf, &b.build()).expect("encode");
    buf.truncate(n);
    buf
}
#[derive(Clone, Copy, PartialEq, Debug)]
enum Mech { None, Short, Long }
#[derive(Clone, Copy, PartialEq, Debug)]
enum Act { S, G(bool), F(bool), C(bool), T(u64) }

fn client(reliable: bool, mech: Mech, max: usize) -> StunClient {
    let rel = if reliable { TransportReliability::Reliable(ms(39_500)) } else { TransportReliability::Unreliable(RttConfig::default()) };
    let mut b = StunClienteBuilder::new(rel).with_max_transactions(max);
    match mech {
        Mech::None => {}
        Mech::Short => b = b.with_mechanism(USER, PASS, CredentialMechanism::ShortTerm(Some(Integrity::MessageIntegrity))),
        Mech::Long => b = b.with_mechanism(USER, PASS, CredentialMechanism::LongTerm),
    }
    b.build().expect("build")
}

fn run(reliable: bool, mech: Mech, max: usize, acts: &[Act]) -> Result<(), String> {
    let mut c = client(reliable, mech, max);
    let t0 = Instant::now();
    let mut now = 0u64;
    let mut ids: Vec<TransactionId> = Vec::new();
    let mut finals: HashMap<TransactionId, usize> = HashMap::new();
    let key = HMACKey::new_short_term(PASS).unwrap();
    for (step, a) in acts.iter().enumerate() {
        now += 10;
        let mut answered: Option<TransactionId> = None;
        let mut res: Result<(), StunAgentError> = Ok(());
        let outstanding = ids.iter().filter(|i| !finals.contains_key(*i)).count();
        match *a {
            Act::S => match c.send_request(BINDING, StunAttributes::default(), vec![0; 512], t0 + ms(now)) {
                Ok(id) => { if outstanding >= max { return Err(format!("step {}: send_request accepted with {} requests outstanding (limit {})", step, outstanding, max)); } ids.push(id); }
                Err(StunAgentError::MaxOutstandingRequestsReached) => { if outstanding < max { return Err(format!("step {}: send_request refused with only {} requests outstanding (limit {})", step, outstanding, max)); } }
                Err(e) => return Err(format!("step {}: send_request: {:?}", step, e)),
            },
            Act::G(first) | Act::F(first) | Act::C(first) => {
                let Some(&id) = (if first { ids.first() } else { ids.last() }) else { continue };
                let buf = match *a {
                    Act::G(_) => { let mut v: Vec<StunAttribute> = vec![Software::new("s").unwrap().into()]; if mech == Mech::Short { v.push(MessageIntegrity::new(key.clone()).into()); } encode(MessageClass::SuccessResponse, id, v) }
                    Act::F(_) => { let mut b = encode(MessageClass::SuccessResponse, id, vec![Software::new("s").unwrap().into(), MessageIntegrity::new(key.clone()).into()]); let n = b.len() - 1; b[n] ^= 0x40; b }
                    _ => encode(MessageClass::ErrorResponse, id, vec![Realm::new("realm").unwrap().into(), Nonce::new("nonce").unwrap().into(), ErrorCode::from(stun_rs::ErrorCode::new(401, "Unauthenticated").unwrap()).into()]),
                };
                answered = Some(id);
                res = c.on_buffer_recv(&buf, t0 + ms(now));
            }
            Act::T(dt) => { now += dt; c.on_timeout(t0 + ms(now)); }
        }
        let events = c.events();
        if let Some(id) = answered {
            if finals.contains_key(&id) && (res.is_ok() || !events.is_empty()) {
                return Err(format!("step {}: a response for an already finished request was not refused silently: result {:?}, {} event(s)", step, res, events.len()));
            }
        }
        for e in events {
            let (fin, id) = match &e {
                StunClientEvent::StunMessageReceived(m) => (true, *m.transaction_id()),
                StunClientEvent::TransactionFailed((id, _)) => (true, *id),
                StunClientEvent::Retry(id) => (true, *id),
                StunClientEvent::RestransmissionTimeOut((id, _)) => (false, *id),
                StunClientEvent::OutputPacket(p) => { let mut t = [0u8; 12]; t.copy_from_slice(&p[8..20]); (false, TransactionId::from(t)) }
            };
            if !ids.contains(&id) { return Err(format!("step {}: event for an unknown request: {:?}", step, e)); }
            if finals.contains_key(&id) {
                return Err(format!("step {}: event after the final outcome of a request (final outcome at step {}): {}", step, finals[&id], format!("{:?}", e).chars().take(90).collect::<String>()));
            }
            if fin { finals.insert(id, step); }
        }
    }
    Ok(())
}

fn main() {
    let alphabet = [Act::S, Act::G(true), Act::G(false), Act::F(true), Act::F(false), Act::C(true), Act::C(false), Act::T(0), Act::T(600), Act::T(70_000)];
    let mut n = 0usize; let mut bad = 0usize;
    'all: for reliable in [false, true] { for mech in [Mech::None, Mech::Short, Mech::Long] { for max in [1usize, 3] {
        let mut idx: Vec<usize> = vec![0];            // every sequence starts with S
        loop {
            let acts: Vec<Act> = std::iter::once(Act::S).chain(idx.iter().map(|&i| alphabet[i])).collect();
            n += 1;
            if let Err(e) = run(reliable, mech, max, &acts) {
                println!("WITNESS: reliable={} mechanism={:?} max_transactions={} actions {:?}: {}", reliable, mech, max, acts, e);
                bad += 1; if bad > 3 { break 'all; }
            }
            let mut j = 0;
            while j < idx.len() { idx[j] += 1; if idx[j] < alphabet.len() { break; } idx[j] = 0; j += 1; }
            if j == idx.len() { if idx.len() == 4 { break; } idx.push(0); }
        }
    } } }
    if bad == 0 { println!("ok: {} action sequences, every request has at most one final outcome and nothing after it", n); } else { std::process::exit(1); }
}
