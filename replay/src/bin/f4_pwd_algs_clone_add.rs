//! F4 / C19: PasswordAlgorithms: add; clone; add must not panic and must not affect the clone.
use stun_rs::attributes::stun::{PasswordAlgorithm, PasswordAlgorithms};
use stun_rs::{Algorithm, AlgorithmId};

fn main() {
    let r = std::panic::catch_unwind(|| {
        let mut a = PasswordAlgorithms::default();
        a.add(PasswordAlgorithm::new(Algorithm::from(AlgorithmId::MD5)));
        let b = a.clone();
        a.add(PasswordAlgorithm::new(Algorithm::from(AlgorithmId::SHA256)));
        (a.iter().count(), b.iter().count())
    });
    match r {
        Err(_) => { println!("WITNESS: PasswordAlgorithms::add panicked after clone"); std::process::exit(1) }
        Ok((2, 1)) => println!("ok: clone independent (2, 1)"),
        Ok(x) => { println!("WITNESS: clone not independent: {:?}", x); std::process::exit(1) }
    }
}
