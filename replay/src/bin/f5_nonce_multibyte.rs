//! F5 / C03, C19: a nonce-cookie-prefixed NONCE with a multi-byte character straddling byte 13.
use stun_rs::attributes::stun::Nonce;

fn main() {
    let n = Nonce::new("obMatJos2a\u{c3}\u{a9}zz").expect("accepted by Nonce::new");
    assert!(n.is_nonce_cookie());
    let r = std::panic::catch_unwind(move || n.security_features().is_ok());
    match r {
        Err(_) => { println!("WITNESS: Nonce::security_features panicked on a multi-byte nonce"); std::process::exit(1) }
        Ok(v) => println!("ok: security_features returned (is_ok = {})", v),
    }
}
