//! BOUNDED probe (C04): MESSAGE-INTEGRITY / MESSAGE-INTEGRITY-SHA256 through the real public API.
//!  (1) the MAC in the encoder's output equals HMAC(key, prefix with the length field pointing at the end of the attribute),
//!      computed here from the RFC 8489 14.5/14.6 description with the digest crates directly;
//!  (2) the genuine message validates, with every legal tail (MI; SHA256; MI+SHA256; each with or without FINGERPRINT);
//!  (3) every single-bit fault in the protected prefix (other than the two length bytes) and in the MAC, every pair of equal
//!      bit flips in two MAC bytes, the reversed and the rotated MAC are rejected;
//!      a shortened integrity value (0-12 bytes) is rejected;
//!  (4) 256 wrong passwords are rejected;
//!  (5) long-term keys: equal for OpaqueString-equivalent spellings of realm / password, and equal to MD5 / SHA-256 of
//!      user:realm:password for plain ASCII.
use std::convert::TryFrom;
use stun_rs::attributes::stun::{Fingerprint, MessageIntegrity, MessageIntegritySha256, Software, UserName};
use stun_rs::methods::BINDING;
use stun_rs::{Algorithm, AlgorithmId, DecoderContextBuilder, HMACKey, MessageClass, MessageDecoderBuilder, MessageEncoderBuilder, StunAttribute, StunMessageBuilder, TransactionId};

fn encode(attrs: Vec<StunAttribute>) -> Vec<u8> {
    let mut b = StunMessageBuilder::new(BINDING, MessageClass::Request).with_transaction_id(TransactionId::from([7u8; 12]));
    for a in attrs { b = b.with_attribute(a); }
    let mut buf = vec![0u8; 512];
    let n = MessageEncoderBuilder::default().build().encode(&mut buf, &b.build()).expect("encode");
    buf.truncate(n);
    buf
}
fn accepted(buf: &[u8], key: &HMACKey) -> bool {
    let ctx = DecoderContextBuilder::default().with_key(key.clone()).with_validation().build();
    MessageDecoderBuilder::default().with_context(ctx).build().decode(buf).is_ok()
}
// offset of the first attribute of type t
fn find(buf: &[u8], t: u16) -> Option<usize> {
    let mut pos = 20;
    while pos + 4 <= buf.len() {
        let ty = u16::from_be_bytes([buf[pos], buf[pos + 1]]);
        let l = u16::from_be_bytes([buf[pos + 2], buf[pos + 3]]) as usize;
        if ty == t { return Some(pos); }
        pos += 4 + l + (4 - l % 4) % 4;
    }
    None
}
fn reference_mac(buf: &[u8], pos: usize, sha256: bool, key: &[u8]) -> Vec<u8> {
    let maclen = if sha256 { 32 } else { 20 };
    let mut text = buf[..pos].to_vec();
    let l = (pos + 4 + maclen - 20) as u16;
    text[2] = (l >> 8) as u8; text[3] = l as u8;
    if sha256 { hmac_sha256::HMAC::mac(&text, key).to_vec() } else { hmac_sha1::hmac_sha1(key, &text).to_vec() }
}

fn main() {
    let mut bad = 0;
    let pass = "the-password";
    let key = HMACKey::new_short_term(pass).unwrap();
    let base: Vec<StunAttribute> = vec![UserName::new("alice").unwrap().into(), Software::new("probe sw").unwrap().into()];
    let tails: Vec<(&str, Vec<StunAttribute>)> = vec![
        ("MI", vec![MessageIntegrity::new(key.clone()).into()]),
        ("SHA256", vec![MessageIntegritySha256::new(key.clone()).into()]),
        ("MI+SHA256", vec![MessageIntegrity::new(key.clone()).into(), MessageIntegritySha256::new(key.clone()).into()]),
        ("MI+FP", vec![MessageIntegrity::new(key.clone()).into(), Fingerprint::default().into()]),
        ("SHA256+FP", vec![MessageIntegritySha256::new(key.clone()).into(), Fingerprint::default().into()]),
        ("MI+SHA256+FP", vec![MessageIntegrity::new(key.clone()).into(), MessageIntegritySha256::new(key.clone()).into(), Fingerprint::default().into()]),
    ];
    for (name, tail) in &tails {
        let mut attrs = base.clone(); attrs.extend(tail.clone());
        let buf = encode(attrs);
        if !accepted(&buf, &key) { println!("WITNESS: tail {}: the genuine message is not accepted under its own key", name); bad += 1; continue; }
        for (t, sha256) in [(0x0008u16, false), (0x001Cu16, true)] {
            let Some(pos) = find(&buf, t) else { continue };
            let maclen = if sha256 { 32 } else { 20 };
            let mac = &buf[pos + 4..pos + 4 + maclen];
            if mac != reference_mac(&buf, pos, sha256, key.as_bytes()).as_slice() {
                println!("WITNESS: tail {}: the MAC of attribute {:#06x} is not HMAC(key, prefix with adjusted length)", name, t); bad += 1;
            }
            // faults: only meaningful for the *first* integrity attribute present? both are validated: every fault must be rejected
            let mut tampered: Vec<(String, Vec<u8>)> = Vec::new();
            for i in 0..pos { if i == 2 || i == 3 { continue; } for bit in [0u8, 7] { let mut b = buf.clone(); b[i] ^= 1 << bit; tampered.push((format!("bit {} of prefix byte {}", bit, i), b)); } }
            for i in 0..maclen { for bit in 0..8u8 { let mut b = buf.clone(); b[pos + 4 + i] ^= 1 << bit; tampered.push((format!("bit {} of MAC byte {}", bit, i), b)); } }
            for i in 0..maclen { for j in (i + 1)..maclen { if (i + j) % 5 == 0 { let mut b = buf.clone(); b[pos + 4 + i] ^= 0x10; b[pos + 4 + j] ^= 0x10; tampered.push((format!("the same bit of MAC bytes {} and {}", i, j), b)); } } }
            { let mut b = buf.clone(); b[pos + 4..pos + 4 + maclen].reverse(); if b != buf { tampered.push(("reversed MAC".into(), b)); } }
            { let mut b = buf.clone(); b[pos + 4..pos + 4 + maclen].rotate_left(1); if b != buf { tampered.push(("rotated MAC".into(), b)); } }
            // a shortened integrity value (0, 4, 8, 12 bytes of the genuine MAC, RFC 8489 allows nothing below 16) in place of the
            // attribute, everything after it dropped, header length fixed: must never count as authenticated, under any key
            for keep in [0usize, 4, 8, 12] {
                let mut b = buf[..pos + 4 + keep].to_vec();
                b[pos + 2] = 0; b[pos + 3] = keep as u8;
                let l = (b.len() - 20) as u16;
                b[2..4].copy_from_slice(&l.to_be_bytes());
                tampered.push((format!("the value for its first {} bytes", keep), b.clone()));
                // ... and with a changed prefix byte as well (a forgery that needs no key at all when keep == 0)
                if pos > 24 { b[24] ^= 0x01; tampered.push((format!("the value for its first {} bytes and prefix byte 24", keep), b)); }
            }
            for (what, b) in tampered {
                // a FINGERPRINT after the change would fail first; that is also a rejection, which is what matters here
                if accepted(&b, &key) { println!("WITNESS: tail {}: message accepted after changing {} (attribute {:#06x})", name, what, t); bad += 1; break; }
            }
        }
        for k in 0..256u32 {
            let wrong = HMACKey::new_short_term(format!("{}{}", pass, k)).unwrap();
            if accepted(&buf, &wrong) { println!("WITNESS: tail {}: accepted under the wrong password '{}{}'", name, pass, k); bad += 1; break; }
        }
        if bad > 4 { break; }
    }
    // every message class and a few methods: the same acceptance rule (genuine accepted; one flipped bit of the prefix, one of the
    // MAC, and a wrong key rejected)
    for class in [MessageClass::Request, MessageClass::Indication, MessageClass::SuccessResponse, MessageClass::ErrorResponse] {
        for method in [0x001u16, 0x003, 0x0FFF] {
            for sha256 in [false, true] {
                let mut b = StunMessageBuilder::new(stun_rs::MessageMethod::try_from(method).unwrap(), class).with_transaction_id(TransactionId::from([9u8; 12]))
                    .with_attribute(Software::new("class probe").unwrap());
                b = if sha256 { b.with_attribute(MessageIntegritySha256::new(key.clone())) } else { b.with_attribute(MessageIntegrity::new(key.clone())) };
                let mut buf = vec![0u8; 256];
                let n = MessageEncoderBuilder::default().build().encode(&mut buf, &b.build()).expect("encode");
                buf.truncate(n);
                let what = format!("{:?} method {:#05x} {}", class, method, if sha256 { "MESSAGE-INTEGRITY-SHA256" } else { "MESSAGE-INTEGRITY" });
                if !accepted(&buf, &key) { println!("WITNESS: {}: the genuine message is not accepted", what); bad += 1; continue; }
                let mut t1 = buf.clone(); t1[25] ^= 0x04;
                let mut t2 = buf.clone(); let l = t2.len(); t2[l - 1] ^= 0x80;
                if accepted(&t1, &key) { println!("WITNESS: {}: accepted after a bit of the protected text was flipped", what); bad += 1; }
                if accepted(&t2, &key) { println!("WITNESS: {}: accepted after a bit of the MAC was flipped", what); bad += 1; }
                if accepted(&buf, &HMACKey::new_short_term("the-passwore").unwrap()) { println!("WITNESS: {}: accepted under a key differing in one character", what); bad += 1; }
            }
        }
        if bad > 4 { break; }
    }
    // keys longer than the hash block (64 bytes): RFC 2104 reduces them with the MAC's own hash; the reference does it
    for plen in [64usize, 65, 100] {
        let long: String = (0..plen).map(|i| (b'a' + (i % 26) as u8) as char).collect();
        let k = HMACKey::new_short_term(long.as_str()).unwrap();
        for (tail, t, sha256) in [(vec![StunAttribute::from(MessageIntegrity::new(k.clone()))], 0x0008u16, false), (vec![StunAttribute::from(MessageIntegritySha256::new(k.clone()))], 0x001Cu16, true)] {
            let mut attrs = base.clone(); attrs.extend(tail);
            let buf = encode(attrs);
            let pos = find(&buf, t).unwrap();
            let maclen = if sha256 { 32 } else { 20 };
            if &buf[pos + 4..pos + 4 + maclen] != reference_mac(&buf, pos, sha256, k.as_bytes()).as_slice() {
                println!("WITNESS: attribute {:#06x} under a password of {} bytes is not the RFC 2104 HMAC of the text", t, plen); bad += 1;
            }
            if !accepted(&buf, &k) { println!("WITNESS: attribute {:#06x} under a password of {} bytes does not validate under its own key", t, plen); bad += 1; }
        }
    }
    // short-term key = OpaqueString(password), UTF-8: spaces are kept (non-ASCII spaces become U+0020), nothing is trimmed
    for (pw, want) in [(" secret ", &b" secret "[..]), ("secret\u{3000}", &b"secret "[..]), ("a  b", &b"a  b"[..]), ("caf\u{e9}", "caf\u{e9}".as_bytes()), ("cafe\u{301}", "caf\u{e9}".as_bytes())] {
        match HMACKey::new_short_term(pw) {
            Ok(k) => if k.as_bytes() != want { println!("WITNESS: short-term key for {:?} is {:?}, expected the OpaqueString-processed password {:?}", pw, k.as_bytes(), want); bad += 1; },
            Err(e) => { println!("WITNESS: short-term key for {:?} refused: {:?}", pw, e); bad += 1; }
        }
    }
    // long-term keys
    for alg in [AlgorithmId::MD5, AlgorithmId::SHA256] {
        let a = Algorithm::from(alg);
        let k = HMACKey::new_long_term("user", "realm", "pass", &a).unwrap();
        let expect: Vec<u8> = if alg == AlgorithmId::MD5 { md5::compute("user:realm:pass").0.to_vec() } else { hmac_sha256::Hash::hash(b"user:realm:pass").to_vec() };
        if k.as_bytes() != expect.as_slice() { println!("WITNESS: long-term key ({:?}) is not the digest of user:realm:password", alg); bad += 1; }
        // OpaqueString (RFC 8265): non-ASCII spaces map to U+0020, NFC normalisation
        for (x, y) in [("caf\u{e9}", "cafe\u{301}"), ("a b", "a\u{a0}b"), ("a b", "a\u{3000}b")] {
            let k1 = HMACKey::new_long_term("user", x, "pw", &a).unwrap();
            let k2 = HMACKey::new_long_term("user", y, "pw", &a).unwrap();
            if k1.as_bytes() != k2.as_bytes() { println!("WITNESS: long-term key ({:?}) differs for two OpaqueString-equivalent spellings of the realm {:?} / {:?}", alg, x, y); bad += 1; }
            let k1 = HMACKey::new_long_term("user", "realm", x, &a).unwrap();
            let k2 = HMACKey::new_long_term("user", "realm", y, &a).unwrap();
            if k1.as_bytes() != k2.as_bytes() { println!("WITNESS: long-term key ({:?}) differs for two OpaqueString-equivalent spellings of the password {:?} / {:?}", alg, x, y); bad += 1; }
        }
    }
    if bad == 0 { println!("ok: MACs match the reference, faults and wrong keys rejected, long-term keys canonical"); } else { std::process::exit(1); }
}
