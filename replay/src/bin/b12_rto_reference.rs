//! BOUNDED probe (C15): the initial retransmission interval offered to each new request over unreliable transport is compared
//! with a double-precision reference of RFC 6298 (alpha = 1/8, beta = 1/4, K = 4, RTO = SRTT + max(G, 4 * RTTVAR), first
//! sample SRTT = R, RTTVAR = R / 2), tolerance 1e-5 relative + 1 microsecond as the property states.
//! Bound: 6 configurations (RTO 500 / 250.75 / 1000 ms x granularity 1 / 100 / 0.25 ms) x 9 delay patterns of up to 40
//! transactions (constant, alternating, ramp, sub-millisecond parts, delays beyond the first retransmission, idle gaps of
//! 599 / 600 / 601 s between consecutive requests). Reliable transport (C06): three configured time-outs, five answered
//! transactions then one unanswered: every request gets the configured time-out and fails exactly at it.
use std::time::{Duration, Instant};
use stun_agent::{RttConfig, StunAttributes, StunClient, StunClientEvent, StunClienteBuilder, TransportReliability};
use stun_rs::methods::BINDING;
use stun_rs::{MessageClass, MessageEncoderBuilder, StunMessageBuilder, TransactionId};

fn us(v: u64) -> Duration { Duration::from_micros(v) }

struct Reference { srtt: f64, rttvar: f64, rto: f64, g: f64, configured: f64, first: bool }
impl Reference {
    fn new(configured: Duration, g: Duration) -> Self {
        Reference { srtt: 0.0, rttvar: 0.0, rto: configured.as_secs_f64(), g: g.as_secs_f64(), configured: configured.as_secs_f64(), first: true }
    }
    fn sample(&mut self, r: f64) {
        if self.first {
            self.srtt = r; self.rttvar = r / 2.0; self.first = false;
        } else {
            self.rttvar = 0.75 * self.rttvar + 0.25 * (self.srtt - r).abs();
            self.srtt = 0.875 * self.srtt + 0.125 * r;
        }
        self.rto = self.srtt + self.g.max(4.0 * self.rttvar);
    }
    fn reset(&mut self) { self.srtt = 0.0; self.rttvar = 0.0; self.rto = self.configured; self.first = true; }
}

fn send(c: &mut StunClient, at: Instant) -> (TransactionId, Option<Duration>) {
    let id = c.send_request(BINDING, StunAttributes::default(), vec![0; 256], at).expect("send");
    let mut rto = None;
    for e in c.events() { if let StunClientEvent::RestransmissionTimeOut((tid, d)) = e { if tid == id { rto = Some(d); } } }
    (id, rto)
}
fn respond(c: &mut StunClient, id: TransactionId, at: Instant) {
    let msg = StunMessageBuilder::new(BINDING, MessageClass::SuccessResponse).with_transaction_id(id).build();
    let mut buf = vec![0u8; 256];
    let n = MessageEncoderBuilder::default().build().encode(&mut buf, &msg).expect("encode");
    c.on_buffer_recv(&buf[..n], at).expect("response accepted");
    let _ = c.events();
}

// one transaction: (response delay in microseconds, idle gap in microseconds before the next request)
fn run(cfg_rto: Duration, g: Duration, pattern: &[(u64, u64)], name: &str) -> bool {
    let cfg = RttConfig { rto: cfg_rto, granularity: g, ..RttConfig::default() };
    let mut c = StunClienteBuilder::new(TransportReliability::Unreliable(cfg)).build().expect("build");
    let mut reference = Reference::new(cfg_rto, g);
    let t0 = Instant::now();
    let mut now = us(0);
    let mut last_request: Option<Duration> = None;
    for (k, (delay, gap)) in pattern.iter().enumerate() {
        if let Some(l) = last_request { if now - l > Duration::from_secs(600) { reference.reset(); } }
        let (id, got) = send(&mut c, t0 + now);
        last_request = Some(now);
        let want = reference.rto;
        let got_s = match got { Some(d) => d.as_secs_f64(), None => { println!("WITNESS: {}: request {} got no timer notification", name, k); return false; } };
        if (got_s - want).abs() > want * 1e-5 + 1e-6 {
            println!("WITNESS: configured RTO {:?}, granularity {:?}, pattern {} : request {} is offered an initial interval of {:.6} s, RFC 6298 reference {:.6} s (delays/gaps in us so far: {:?})",
                cfg_rto, g, name, k, got_s, want, &pattern[..k]);
            return false;
        }
        // serve retransmissions that fall before the response (Karn: such a transaction gives no sample)
        let answer_at = now + us(*delay);
        let mut retransmitted = false;
        let mut next = got.map(|d| now + d);
        while let Some(due) = next {
            if due > answer_at { break; }
            c.on_timeout(t0 + due);
            next = None;
            for e in c.events() {
                match e {
                    StunClientEvent::OutputPacket(_) => retransmitted = true,
                    StunClientEvent::RestransmissionTimeOut((tid, d)) if tid == id => next = Some(due + d),
                    _ => {}
                }
            }
        }
        respond(&mut c, id, t0 + answer_at);
        if !retransmitted { reference.sample(us(*delay).as_secs_f64()); }
        now = answer_at + us(*gap);
    }
    true
}

fn main() {
    let configs = [
        (Duration::from_millis(500), Duration::from_millis(1)),
        (Duration::from_millis(500), Duration::from_millis(100)),
        (Duration::from_micros(250_750), Duration::from_millis(1)),
        (Duration::from_micros(250_750), Duration::from_micros(250)),
        (Duration::from_millis(1000), Duration::from_millis(100)),
        (Duration::from_millis(1000), Duration::from_millis(1)),
    ];
    let s = 1_000_000u64;
    let mut patterns: Vec<(&str, Vec<(u64, u64)>)> = Vec::new();
    patterns.push(("constant 100 ms", (0..40).map(|_| (100_000, 5_000)).collect()));
    patterns.push(("constant 20 ms", (0..40).map(|_| (20_000, 1_000)).collect()));
    patterns.push(("alternating 10/200 ms", (0..40).map(|k| (if k % 2 == 0 { 10_000 } else { 200_000 }, 3_000)).collect()));
    patterns.push(("ramp 1..40 ms", (1..=40).map(|k| (k * 1_000, 2_000)).collect()));
    patterns.push(("sub-millisecond parts", (0..30).map(|k| (101_500 + 333 * k, 1_250)).collect()));
    patterns.push(("one slow answer (retransmitted) among fast ones", (0..12).map(|k| (if k == 4 || k == 9 { 2_000_000 } else { 50_000 }, 10_000)).collect()));
    patterns.push(("idle 599 s then 601 s", vec![(80_000, 1_000), (90_000, 599 * s), (70_000, 601 * s), (60_000, 1_000), (60_000, 1_000)]));
    patterns.push(("idle exactly 600 s after the request", vec![(80_000, 1_000), (90_000, 600 * s - 90_000), (70_000, 600 * s - 70_000 + 1), (60_000, 1_000), (60_000, 1_000)]));
    patterns.push(("retransmitted request then long idle", vec![(60_000, 1_000), (1_200_000, 599 * s), (60_000, 1_000), (1_200_000, 600 * s + s), (60_000, 1_000)]));
    let mut n = 0;
    let mut bad = 0;
    for (rto, g) in configs {
        for (name, p) in &patterns {
            n += 1;
            if !run(rto, g, p, name) { bad += 1; }
            if bad >= 3 { break; }
        }
        if bad >= 3 { break; }
    }
    // reliable transport (C06): one transmission, the configured time-out for every request, whatever earlier transactions did
    for timeout_ms in [5_000u64, 39_500, 250] {
        n += 1;
        let timeout = Duration::from_millis(timeout_ms);
        let mut c = StunClienteBuilder::new(TransportReliability::Reliable(timeout)).build().expect("build");
        let t0 = Instant::now();
        let mut now = us(0);
        for k in 0..6 {
            let (id, got) = send(&mut c, t0 + now);
            if got != Some(timeout) {
                println!("WITNESS: reliable transport, configured time-out {:?}: request {} (after {} answered transactions) is given a timer of {:?}", timeout, k, k, got);
                bad += 1; break;
            }
            if k < 5 { respond(&mut c, id, t0 + now + us(100_000)); now += us(150_000); continue; }
            // the last request is left unanswered: nothing before the deadline, failure exactly at it, no retransmission
            c.on_timeout(t0 + now + timeout - us(1_000));
            let early: Vec<String> = c.events().iter().filter(|e| !matches!(e, StunClientEvent::RestransmissionTimeOut(_))).map(|e| format!("{:?}", e).chars().take(60).collect()).collect();
            c.on_timeout(t0 + now + timeout);
            let at: Vec<String> = c.events().iter().map(|e| format!("{:?}", e).chars().take(60).collect()).collect();
            if !early.is_empty() || !at.iter().any(|e| e.starts_with("TransactionFailed")) || at.iter().any(|e| e.starts_with("OutputPacket")) {
                println!("WITNESS: reliable transport, configured time-out {:?}: events 1 ms before the deadline {:?}, at the deadline {:?}", timeout, early, at);
                bad += 1;
            }
        }
    }
    if bad == 0 { println!("ok: {} configuration x pattern runs follow the RFC 6298 reference within 1e-5 + 1 us", n); } else { std::process::exit(1); }
}
