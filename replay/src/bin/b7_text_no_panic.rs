//! BOUNDED probe (C03 / C19): the text-valued constructors and the message decoder never panic on awkward text.
//! Every string of length <= 5 over the alphabet { space, '"', TAB, CR, 'a', '\\', U+00E9, U+30DE, U+00A0 } is given to
//! Nonce::new, Realm::new, UserName::new, Software::new, HMACKey::new_short_term, UserHash::new and ErrorCode::new, and is
//! decoded as the value of NONCE, REALM, USERNAME, SOFTWARE and ERROR-CODE attributes (the part of the library that slices
//! strings: strings.rs quoted-string trimming, nonce cookie accessors). Any panic is a witness.
use stun_rs::attributes::stun::{Nonce, Realm, Software, UserHash, UserName};
use stun_rs::{HMACKey, MessageDecoderBuilder};

fn message_with(t: u16, value: &[u8]) -> Vec<u8> {
    let pad = (4 - value.len() % 4) % 4;
    let body = 4 + value.len() + pad;
    let mut m = vec![0x01, 0x01, (body >> 8) as u8, body as u8, 0x21, 0x12, 0xA4, 0x42];
    m.extend_from_slice(&[7u8; 12]);
    m.extend_from_slice(&[(t >> 8) as u8, t as u8, (value.len() >> 8) as u8, value.len() as u8]);
    m.extend_from_slice(value);
    m.extend(std::iter::repeat(0u8).take(pad));
    m
}

fn main() {
    let alphabet = [' ', '"', '\t', '\r', 'a', '\\', '\u{e9}', '\u{30de}', '\u{a0}'];
    let mut n = 0usize;
    let mut bad = 0usize;
    let mut idx: Vec<usize> = Vec::new();
    std::panic::set_hook(Box::new(|_| {}));
    loop {
        let s: String = idx.iter().map(|&i| alphabet[i]).collect();
        let r = std::panic::catch_unwind(|| {
            let _ = Nonce::new(s.as_str()).map(|x| { let _ = x.is_nonce_cookie(); let _ = x.security_features(); });
            let _ = Nonce::new(format!("obMatJos2{}", s)).map(|x| { let _ = x.is_nonce_cookie(); let _ = x.security_features(); });
            let _ = Realm::new(s.as_str());
            let _ = UserName::new(s.as_str());
            let _ = Software::new(s.as_str());
            let _ = HMACKey::new_short_term(s.as_str());
            let _ = UserHash::new(s.as_str(), "realm");
            let _ = stun_rs::ErrorCode::new(420, s.as_str());
            let dec = MessageDecoderBuilder::default().build();
            for t in [0x0015u16, 0x0014, 0x0006, 0x8022] {
                let _ = dec.decode(&message_with(t, s.as_bytes()));
                let mut cookie = b"obMatJos2".to_vec(); cookie.extend_from_slice(s.as_bytes());
                if let Ok((m, _)) = dec.decode(&message_with(t, &cookie)) {
                    if let Some(a) = m.get::<Nonce>() { if let Ok(nn) = a.as_nonce() { let _ = nn.security_features(); } }
                }
            }
            let mut ec = vec![0u8, 0, 4, 20]; ec.extend_from_slice(s.as_bytes());
            let _ = dec.decode(&message_with(0x0009, &ec));
        });
        n += 1;
        if r.is_err() { println!("WITNESS: panic for the text {:?}", s); bad += 1; if bad > 3 { break; } }
        // next string
        let mut j = 0;
        while j < idx.len() { idx[j] += 1; if idx[j] < alphabet.len() { break; } idx[j] = 0; j += 1; }
        if j == idx.len() { if idx.len() == 5 { break; } idx.push(0); }
    }
    if bad == 0 { println!("ok: {} strings, no panic", n); } else { std::process::exit(1); }
}
