//! F2 / C09: SOFTWARE, FINGERPRINT(valid), FINGERPRINT(wrong CRC).
//! The second FINGERPRINT must not be admitted: decode yields 2 attributes, and validation of the
//! (valid) message must not fail because of what was appended after its FINGERPRINT.
use stun_rs::attributes::stun::{Fingerprint, Software};
use stun_rs::methods::BINDING;
use stun_rs::{DecoderContextBuilder, MessageClass, MessageDecoderBuilder, MessageEncoderBuilder, StunMessageBuilder};

fn main() {
    let msg = StunMessageBuilder::new(BINDING, MessageClass::Request)
        .with_attribute(Software::new("x").unwrap())
        .with_attribute(Fingerprint::default())
        .build();
    let mut buf = vec![0u8; 256];
    let n = MessageEncoderBuilder::default().build().encode(&mut buf, &msg).unwrap();
    // append a second FINGERPRINT TLV with a wrong value and fix the header length
    let extra = [0x80u8, 0x28, 0x00, 0x04, 0xde, 0xad, 0xbe, 0xef];
    buf[n..n + 8].copy_from_slice(&extra);
    let len = (n - 20 + 8) as u16;
    buf[2..4].copy_from_slice(&len.to_be_bytes());
    let total = n + 8;
    let plain = MessageDecoderBuilder::default().build();
    let (m, _) = plain.decode(&buf[..total]).expect("plain decode");
    let mut bad = false;
    if m.attributes().len() != 2 {
        println!("WITNESS: decoded {} attributes, the second FINGERPRINT was admitted", m.attributes().len());
        bad = true;
    }
    let ctx = DecoderContextBuilder::default().with_validation().build();
    let val = MessageDecoderBuilder::default().with_context(ctx).build();
    if let Err(e) = val.decode(&buf[..total]) {
        println!("WITNESS: validation failed on appended non-admissible FINGERPRINT: {}", e);
        bad = true;
    }
    if bad { std::process::exit(1) }
    println!("ok: second FINGERPRINT neither returned nor validated");
}
