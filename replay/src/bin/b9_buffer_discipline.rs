//! BOUNDED probe (C14): buffer discipline of the encoder through the real public API. For every boundary value of every
//! attribute kind (singly, and in pairs with a rotating partner) the message is encoded into buffers of every length from 0
//! to needed+8, pre-filled with 0x00, 0xFF and 0xA5: no panic; Ok exactly when the buffer is at least `needed` long; the
//! bytes written and the size do not depend on the buffer's extra length or previous contents; bytes beyond the returned
//! size are untouched. Attribute lists around the 16-bit limit: 65,532 / 65,535-ish bytes accepted, above rejected with Err.
include!("../values.rs");

fn build(attrs: &[StunAttribute]) -> StunMessage {
    let mut b = StunMessageBuilder::new(methods::BINDING, MessageClass::Request).with_transaction_id(TransactionId::from([3u8; 12]));
    for a in attrs { b = b.with_attribute(a.clone()); }
    b.build()
}

fn check(attrs: &[StunAttribute], bad: &mut usize) {
    let msg = build(attrs);
    let what = || format!("{:?}", attrs).chars().take(240).collect::<String>();
    let enc = MessageEncoderBuilder::default().build();
    let mut big = vec![0u8; 70000];
    let needed = match std::panic::catch_unwind(std::panic::AssertUnwindSafe(|| enc.encode(&mut big, &msg))) {
        Ok(Ok(n)) => n,
        Ok(Err(_)) => return,              // not encodable at all (outside this probe)
        Err(_) => { println!("WITNESS: encode panicked with a large buffer for {}", what()); *bad += 1; return; }
    };
    let reference = big[..needed].to_vec();
    if needed > 4000 { return; }          // the exhaustive length sweep is for small messages
    for fill in [0x00u8, 0xFF, 0xA5] {
        for len in 0..=needed + 8 {
            let mut buf = vec![fill; len];
            let r = std::panic::catch_unwind(std::panic::AssertUnwindSafe(|| enc.encode(&mut buf, &msg)));
            match r {
                Err(_) => { println!("WITNESS: encode panicked with a {}-byte buffer (needed {}) for {}", len, needed, what()); *bad += 1; return; }
                Ok(Ok(n)) => {
                    if len < needed { println!("WITNESS: encode succeeded with a {}-byte buffer although {} bytes are needed, for {}", len, needed, what()); *bad += 1; return; }
                    if n != needed || buf[..n] != reference[..] { println!("WITNESS: size / bytes depend on the buffer ({} bytes, fill {:#x}): size {} vs {}, for {}", len, fill, n, needed, what()); *bad += 1; return; }
                    if buf[n..].iter().any(|&b| b != fill) { println!("WITNESS: bytes beyond the returned size {} were modified ({}-byte buffer, fill {:#x}) for {}", n, len, fill, what()); *bad += 1; return; }
                }
                Ok(Err(_)) => {
                    if len >= needed { println!("WITNESS: encode failed with a {}-byte buffer although {} bytes suffice, for {}", len, needed, what()); *bad += 1; return; }
                }
            }
        }
    }
}

fn main() {
    std::panic::set_hook(Box::new(|_| {}));
    let vals = values();
    let mut bad = 0usize;
    let mut n = 0usize;
    for (i, a) in vals.iter().enumerate() {
        // every kind singly would be slow for the long strings: sweep those whose message is small, pair every 3rd
        check(std::slice::from_ref(a), &mut bad); n += 1;
        if i % 3 == 0 { let j = (i * 7 + 3) % vals.len(); check(&[a.clone(), vals[j].clone()], &mut bad); n += 1; }
        if bad > 3 { break; }
    }
    // integrity / fingerprint tails (their encoders write a placeholder first and the real value in post_encode)
    let key = HMACKey::new_short_term("pw").unwrap();
    let sw: StunAttribute = Software::new("abc").unwrap().into();
    let tails: Vec<Vec<StunAttribute>> = vec![
        vec![MessageIntegrity::new(key.clone()).into()],
        vec![MessageIntegritySha256::new(key.clone()).into()],
        vec![Fingerprint::default().into()],
        vec![sw.clone(), MessageIntegrity::new(key.clone()).into(), MessageIntegritySha256::new(key.clone()).into(), Fingerprint::default().into()],
        vec![sw.clone(), MessageIntegritySha256::new(key.clone()).into(), Fingerprint::default().into()],
    ];
    for t in &tails { check(t, &mut bad); n += 1; }
    // the 16-bit limit: k DATA attributes of 4092 bytes (4096 with header) = 16 * 4096 = 65536 > 65535
    let chunk: StunAttribute = Data::new(vec![7u8; 4092]).into();
    let mut attrs: Vec<StunAttribute> = std::iter::repeat(chunk.clone()).take(15).collect();
    attrs.push(Data::new(vec![7u8; 4088]).into());         // 15 * 4096 + 4092 = 65532 : fits
    let enc = MessageEncoderBuilder::default().build();
    let mut big = vec![0u8; 140000];
    match std::panic::catch_unwind(std::panic::AssertUnwindSafe(|| enc.encode(&mut big, &build(&attrs)))) {
        Ok(Ok(n)) if n == 20 + 65532 && u16::from_be_bytes([big[2], big[3]]) == 65532 => {}
        other => { println!("WITNESS: a message with 65532 attribute bytes is not encoded correctly: {:?}", other.map(|r| r.map_err(|e| format!("{:?}", e)))); bad += 1; }
    }
    for extra in [4092usize, 4096, 40000] {
        let mut attrs: Vec<StunAttribute> = std::iter::repeat(chunk.clone()).take(15).collect();
        attrs.push(Data::new(vec![7u8; extra]).into());
        match std::panic::catch_unwind(std::panic::AssertUnwindSafe(|| enc.encode(&mut big, &build(&attrs)))) {
            Ok(Err(_)) => {}
            Ok(Ok(n)) => { println!("WITNESS: a message with {} attribute bytes (> 65535) was encoded, returned size {}", 15 * 4096 + 4 + extra, n); bad += 1; }
            Err(_) => { println!("WITNESS: encode panicked on a message with {} attribute bytes", 15 * 4096 + 4 + extra); bad += 1; }
        }
    }
    // one large attribute value at the limit: a single DATA of v bytes makes 4 + v (padded) attribute bytes; it fits iff that is <= 65535
    for v in [60000usize, 65507, 65511, 65512, 65519, 65527, 65528, 65529, 65531, 65532, 65535, 70000] {
        let padded = 4 + v + (4 - v % 4) % 4;
        let attrs: Vec<StunAttribute> = vec![Data::new(vec![9u8; v]).into()];
        match std::panic::catch_unwind(std::panic::AssertUnwindSafe(|| enc.encode(&mut big, &build(&attrs)))) {
            Ok(Ok(n)) => {
                if padded > 65535 { println!("WITNESS: a DATA value of {} bytes ({} attribute bytes, > 65535) was encoded", v, padded); bad += 1; }
                else if n != 20 + padded || u16::from_be_bytes([big[2], big[3]]) as usize != padded { println!("WITNESS: a DATA value of {} bytes: size {} / length field {}, expected {}", v, n, u16::from_be_bytes([big[2], big[3]]), 20 + padded); bad += 1; }
            }
            Ok(Err(e)) => { if padded <= 65535 { println!("WITNESS: a DATA value of {} bytes fits ({} attribute bytes <= 65535) but was rejected: {:?}", v, padded, e); bad += 1; } }
            Err(_) => { println!("WITNESS: encode panicked on a DATA value of {} bytes", v); bad += 1; }
        }
    }
    if bad == 0 { println!("ok: {} messages x every buffer length x 3 fills", n); } else { std::process::exit(1); }
}
