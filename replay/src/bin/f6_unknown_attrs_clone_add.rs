//! C19: UnknownAttributes: add; clone; add must not panic and must not affect the clone (copy-on-write).
use stun_rs::attributes::stun::UnknownAttributes;

fn main() {
    let r = std::panic::catch_unwind(|| {
        let mut a = UnknownAttributes::default();
        a.add(0x0001);
        let b = a.clone();
        a.add(0x0002);
        (a.attributes().to_vec(), b.attributes().to_vec())
    });
    match r {
        Err(_) => { println!("WITNESS: UnknownAttributes::add panicked after clone"); std::process::exit(1) }
        Ok((x, y)) if x == vec![1u16, 2] && y == vec![1u16] => println!("ok: clone independent"),
        Ok(x) => { println!("WITNESS: clone not independent: {:?}", x); std::process::exit(1) }
    }
}
