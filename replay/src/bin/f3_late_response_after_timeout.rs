//! F3 / C05, C12: reliable transport, timeout 1 s, max 1 outstanding request.
//! send; on_timeout(t0+2s) -> TimedOut; then (a) a late success response must be rejected and
//! (b) a new request must be accepted (the slot is free).
use std::time::{Duration, Instant};
use stun_agent::{StunAttributes, StunClientEvent, StunClienteBuilder, TransportReliability};
use stun_rs::methods::BINDING;
use stun_rs::{MessageClass, MessageDecoderBuilder, MessageEncoderBuilder, StunMessageBuilder};

fn main() {
    let mut client = StunClienteBuilder::new(TransportReliability::Reliable(Duration::from_secs(1)))
        .with_max_transactions(1)
        .build()
        .unwrap();
    let t0 = Instant::now();
    client.send_request(BINDING, StunAttributes::default(), vec![0u8; 512], t0).unwrap();
    let ev = client.events();
    let StunClientEvent::OutputPacket(pkt) = &ev[0] else { panic!("no packet") };
    let (req, _) = MessageDecoderBuilder::default().build().decode(pkt).unwrap();
    let id = *req.transaction_id();
    client.on_timeout(t0 + Duration::from_secs(2));
    let ev = client.events();
    let failed = ev.iter().filter(|e| matches!(e, StunClientEvent::TransactionFailed(_))).count();
    assert_eq!(failed, 1, "expected the final time-out, got {:?}", ev);
    let mut bad = false;
    // (a) late response
    let resp = StunMessageBuilder::new(BINDING, MessageClass::SuccessResponse).with_transaction_id(id).build();
    let mut buf = vec![0u8; 64];
    let n = MessageEncoderBuilder::default().build().encode(&mut buf, &resp).unwrap();
    let r = client.on_buffer_recv(&buf[..n], t0 + Duration::from_secs(3));
    let ev = client.events();
    if r.is_ok() || !ev.is_empty() {
        println!("WITNESS: late response after the final time-out was accepted: {:?} events {:?}", r, ev);
        bad = true;
    }
    // (b) slot must be free
    if let Err(e) = client.send_request(BINDING, StunAttributes::default(), vec![0u8; 512], t0 + Duration::from_secs(4)) {
        println!("WITNESS: slot not freed by the time-out: {:?}", e);
        bad = true;
    }
    if bad { std::process::exit(1) }
    println!("ok: timed-out transaction is gone and its slot is free");
}
