//! BOUNDED probe (C10): FINGERPRINT is CRC-32/ISO-HDLC of the message up to the attribute (length field covering it) XOR 0x5354554e,
//! and no single-bit or single-byte change of the message is accepted as carrying a valid FINGERPRINT.
//! Bound: 4 messages (20 / 72 / 272 / 600 bytes before the FINGERPRINT; classes request, indication, success and error response):
//! the value against a reference CRC computed here bit by bit; every single-bit flip and, at every byte, the changes +1, ^0xFF and
//! := 0, through (a) the validating decoder, (b) get_input_text + Fingerprint::validate, (c) a client built with_fingerprint().
use std::time::Instant;
use stun_agent::{RttConfig, StunAttributes, StunClienteBuilder, TransportReliability};
use stun_rs::attributes::stun::{Fingerprint, Software};
use stun_rs::methods::BINDING;
use stun_rs::{get_input_text, DecoderContextBuilder, MessageClass, MessageDecoderBuilder, MessageEncoderBuilder, StunAttribute, StunMessageBuilder, TransactionId};

fn crc32_iso_hdlc(data: &[u8]) -> u32 {
    let mut crc: u32 = 0xFFFF_FFFF;
    for b in data {
        crc ^= *b as u32;
        for _ in 0..8 { crc = if crc & 1 != 0 { (crc >> 1) ^ 0xEDB8_8320 } else { crc >> 1 }; }
    }
    !crc
}

fn message(class: MessageClass, id: TransactionId, software: usize, n: usize) -> Vec<u8> {
    let mut b = StunMessageBuilder::new(BINDING, class).with_transaction_id(id);
    // several SOFTWARE-typed attributes would be replaced by the builder? no: the builder keeps what it is given, the decoder's
    // ordering rule does not drop repeated ordinary attributes
    for k in 0..n {
        let text: String = (0..software).map(|i| (b'a' + ((i + k) % 26) as u8) as char).collect();
        b = b.with_attribute(Software::new(text.as_str()).unwrap());
    }
    b = b.with_attribute(Fingerprint::default());
    let mut buf = vec![0u8; 2048];
    let n = MessageEncoderBuilder::default().build().encode(&mut buf, &b.build()).expect("encode");
    buf.truncate(n);
    buf
}

// is the (altered) message accepted as carrying a valid FINGERPRINT by the validating decoder?
fn decoder_accepts(buf: &[u8]) -> bool {
    let ctx = DecoderContextBuilder::default().with_validation().build();
    match MessageDecoderBuilder::default().with_context(ctx).build().decode(buf) {
        Ok((msg, _)) => msg.attributes().iter().any(|a| a.is_fingerprint()),
        Err(_) => false,
    }
}
fn direct_accepts(buf: &[u8]) -> bool {
    let (msg, _) = match MessageDecoderBuilder::default().build().decode(buf) { Ok(x) => x, Err(_) => return false };
    let fp: Vec<&StunAttribute> = msg.attributes().iter().filter(|a| a.is_fingerprint()).collect();
    if fp.len() != 1 { return false; }
    match get_input_text::<Fingerprint>(buf) { Some(input) => fp[0].expect_fingerprint().validate(&input), None => false }
}

fn main() {
    let mut bad = 0usize;
    let mut n = 0usize;
    let shapes = [(MessageClass::Request, 0usize, 0usize), (MessageClass::Indication, 45, 1), (MessageClass::SuccessResponse, 120, 2), (MessageClass::ErrorResponse, 141, 4)];
    for (class, sw, cnt) in shapes {
        let id = TransactionId::from([0x5Au8; 12]);
        let buf = message(class, id, sw, cnt);
        let fp_pos = buf.len() - 8;
        // the value itself (RFC 8489 14.7): CRC of the message up to the attribute, the length field already counting it
        let want = crc32_iso_hdlc(&buf[..fp_pos]) ^ 0x5354_554e;
        let got = u32::from_be_bytes([buf[fp_pos + 4], buf[fp_pos + 5], buf[fp_pos + 6], buf[fp_pos + 7]]);
        if got != want { println!("WITNESS: {:?} message of {} bytes: FINGERPRINT {:#010x}, CRC-32 of the preceding bytes XOR 0x5354554e is {:#010x}", class, buf.len(), got, want); bad += 1; continue; }
        if !decoder_accepts(&buf) || !direct_accepts(&buf) { println!("WITNESS: {:?} message of {} bytes: the encoder's own output does not validate", class, buf.len()); bad += 1; continue; }
        let mut variants: Vec<(String, Vec<u8>)> = Vec::new();
        for i in 0..buf.len() {
            for bit in 0..8u8 { let mut b = buf.clone(); b[i] ^= 1 << bit; variants.push((format!("bit {} of byte {}", bit, i), b)); }
            for (what, v) in [("+1", buf[i].wrapping_add(1)), ("^0xFF", buf[i] ^ 0xFF), (":=0", 0u8)] {
                if v != buf[i] { let mut b = buf.clone(); b[i] = v; variants.push((format!("byte {} {}", i, what), b)); }
            }
        }
        for (what, b) in &variants {
            n += 1;
            if decoder_accepts(b) { println!("WITNESS: {:?} message of {} bytes: after changing {} the validating decoder still returns the message with its FINGERPRINT", class, buf.len(), what); bad += 1; break; }
            if direct_accepts(b) { println!("WITNESS: {:?} message of {} bytes: after changing {} Fingerprint::validate accepts", class, buf.len(), what); bad += 1; break; }
        }
        // the client: a response / indication with one flipped bit (every 5th variant) is never delivered
        if class == MessageClass::SuccessResponse || class == MessageClass::Indication {
            for (k, (what, _)) in variants.iter().enumerate() {
                if k % 5 != 0 { continue; }
                let mut c = StunClienteBuilder::new(TransportReliability::Unreliable(RttConfig::default())).with_fingerprint().build().expect("build");
                let t0 = Instant::now();
                let rid = c.send_request(BINDING, StunAttributes::default(), vec![0; 256], t0).expect("send");
                let _ = c.events();
                // the same message for this transaction id, then the same change
                let mut m = message(class, rid, sw, cnt);
                let orig = message(class, id, sw, cnt);
                let (_, alt) = &variants[k];
                for i in 0..m.len() { if orig[i] != alt[i] { m[i] ^= orig[i] ^ alt[i]; } }
                if c.on_buffer_recv(&m, t0).is_ok() {
                    let delivered = c.events().iter().any(|e| matches!(e, stun_agent::StunClientEvent::StunMessageReceived(_)));
                    if delivered { println!("WITNESS: a client using fingerprints delivers a {:?} after {} was changed", class, what); bad += 1; break; }
                }
            }
        }
        if bad > 3 { break; }
    }
    if bad == 0 { println!("ok: {} altered messages, none accepted as carrying a valid FINGERPRINT", n); } else { std::process::exit(1); }
}
