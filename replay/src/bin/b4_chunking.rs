//! BOUNDED probe (C16 / C03): the stream reassembler fed with every 0-, 1-, 2- and 3-cut chunking of a stream of several
//! packets (body lengths 0, 4, 16, 0, 44): the packets handed out, their order, the consumed byte counts and the
//! "missing bytes" hints must not depend on the chunking, and a packet is delivered by the call that completes it.
use stun_agent::{StunPacketDecodedValue, StunPacketDecoder};

fn packet(msg_type: u16, seed: u8, body: usize) -> Vec<u8> {
    let mut p = vec![(msg_type >> 8) as u8, msg_type as u8, (body >> 8) as u8, body as u8, 0x21, 0x12, 0xA4, 0x42];
    p.extend((0..12).map(|i| seed.wrapping_add(i)));
    if body > 0 {
        let vl = body - 4;
        p.extend_from_slice(&[0x80, 0x22, (vl >> 8) as u8, vl as u8]);
        p.extend((0..vl).map(|i| b'a' + (i % 26) as u8));
    }
    p
}

fn run(packets: &[Vec<u8>], cuts: &[usize]) -> Result<(), String> {
    let stream: Vec<u8> = packets.concat();
    let mut bounds = vec![0usize];
    bounds.extend_from_slice(cuts);
    bounds.push(stream.len());
    let ends: Vec<usize> = packets.iter().scan(0usize, |a, p| { *a += p.len(); Some(*a) }).collect();
    let mut decoder = StunPacketDecoder::new(vec![0; 96]).map_err(|e| format!("{:?}", e))?;
    let mut got: Vec<Vec<u8>> = Vec::new();
    let mut fed = 0usize;
    for w in bounds.windows(2) {
        let mut rest = &stream[w[0]..w[1]];
        loop {
            match decoder.decode(rest).map_err(|e| format!("decode error {:?}", e))? {
                StunPacketDecodedValue::Decoded((p, n)) => {
                    got.push(p.as_ref().to_vec());
                    fed += n;
                    if n > rest.len() { return Err(format!("consumed {} of {} bytes", n, rest.len())); }
                    rest = &rest[n..];
                    decoder = StunPacketDecoder::new(vec![0; 96]).map_err(|e| format!("{:?}", e))?;
                    if rest.is_empty() { break; }
                }
                StunPacketDecodedValue::MoreBytesNeeded((d, missing)) => {
                    fed += rest.len();
                    decoder = d;
                    let idx = got.len();
                    if idx >= ends.len() {
                        // an empty chunk after the last packet: a fresh decoder just waits
                        if fed == stream.len() && missing.is_none() { break; }
                        return Err("more bytes wanted after the last packet".into());
                    }
                    let start = if idx == 0 { 0 } else { ends[idx - 1] };
                    let expected = if fed - start >= 20 { Some(ends[idx] - fed) } else { None };
                    if missing != expected { return Err(format!("missing hint {:?}, expected {:?} after {} bytes", missing, expected, fed)); }
                    break;
                }
            }
        }
        if fed != w[1] { return Err(format!("consumed {} bytes after feeding {}", fed, w[1])); }
        let complete = ends.iter().filter(|e| **e <= w[1]).count();
        if got.len() != complete { return Err(format!("after {} bytes {} packet(s) are complete but {} delivered", w[1], complete, got.len())); }
    }
    if got != packets { return Err("delivered packets differ from the stream".into()); }
    Ok(())
}

fn main() {
    let packets = vec![packet(0x0001, 1, 0), packet(0x0101, 50, 4), packet(0x0111, 90, 16), packet(0x0011, 100, 0), packet(0x0001, 7, 44)];
    let total: usize = packets.iter().map(Vec::len).sum();
    let mut bad = 0;
    let mut n = 0usize;
    let mut try_cuts = |cuts: &[usize], bad: &mut i32| {
        if let Err(e) = run(&packets, cuts) { println!("WITNESS: cuts {:?} of a {}-byte stream: {}", cuts, total, e); *bad += 1; }
    };
    try_cuts(&[], &mut bad);
    'outer: for a in 0..=total {
        try_cuts(&[a], &mut bad); n += 1;
        for b in a..=total {
            try_cuts(&[a, b], &mut bad); n += 1;
            if bad > 3 { break 'outer; }
            if (a + b) % 3 == 0 { for c in (b..=total).step_by(2) { try_cuts(&[a, b, c], &mut bad); n += 1; } }
        }
    }
    if bad == 0 { println!("ok: {} chunkings give the same packets", n); } else { std::process::exit(1); }
}
