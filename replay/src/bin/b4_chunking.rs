//! BOUNDED probe (C16 / C03): the stream reassembler fed with every 0-, 1-, 2- and 3-cut chunking of a stream of several
//! packets (body lengths 0, 4, 16, 0, 44): the packets handed out, their order, the consumed byte counts and the
//! "missing bytes" hints must not depend on the chunking, and a packet is delivered by the call that completes it.
//! Error part: a valid packet followed by 20 bytes that are not a STUN header (first two bits 01 / 10 / 11, wrong magic
//! cookie, all zero) or by the header of a packet larger than the buffer, in every 0-, 1- and 2-cut chunking: the packet is
//! delivered, then the error of the right kind is raised by the chunk that completes those 20 bytes, and the buffer handed
//! back holds exactly those 20 bytes (`buffer[..size]`).
use stun_agent::{StunPacketDecodedValue, StunPacketDecoder, StunPacketErrorType};

fn packet(msg_type: u16, seed: u8, body: usize) -> Vec<u8> {
    let mut p = vec![(msg_type >> 8) as u8, msg_type as u8, (body >> 8) as u8, body as u8, 0x21, 0x12, 0xA4, 0x42];
    p.extend((0..12).map(|i| seed.wrapping_add(i)));
    if body > 0 {
        let vl = body - 4;
        p.extend_from_slice(&[0x80, 0x22, (vl >> 8) as u8, vl as u8]);
        p.extend((0..vl).map(|i| b'a' + (i % 26) as u8));
    }
    p
}

fn run(packets: &[Vec<u8>], cuts: &[usize]) -> Result<(), String> {
    let stream: Vec<u8> = packets.concat();
    let mut bounds = vec![0usize];
    bounds.extend_from_slice(cuts);
    bounds.push(stream.len());
    let ends: Vec<usize> = packets.iter().scan(0usize, |a, p| { *a += p.len(); Some(*a) }).collect();
    let mut decoder = StunPacketDecoder::new(vec![0; 96]).map_err(|e| format!("{:?}", e))?;
    let mut got: Vec<Vec<u8>> = Vec::new();
    let mut fed = 0usize;
    for w in bounds.windows(2) {
        let mut rest = &stream[w[0]..w[1]];
        loop {
            match decoder.decode(rest).map_err(|e| format!("decode error {:?}", e))? {
                StunPacketDecodedValue::Decoded((p, n)) => {
                    got.push(p.as_ref().to_vec());
                    fed += n;
                    if n > rest.len() { return Err(format!("consumed {} of {} bytes", n, rest.len())); }
                    rest = &rest[n..];
                    decoder = StunPacketDecoder::new(vec![0; 96]).map_err(|e| format!("{:?}", e))?;
                    if rest.is_empty() { break; }
                }
                StunPacketDecodedValue::MoreBytesNeeded((d, missing)) => {
                    fed += rest.len();
                    decoder = d;
                    let idx = got.len();
                    if idx >= ends.len() {
                        // an empty chunk after the last packet: a fresh decoder just waits
                        if fed == stream.len() && missing.is_none() { break; }
                        return Err("more bytes wanted after the last packet".into());
                    }
                    let start = if idx == 0 { 0 } else { ends[idx - 1] };
                    let expected = if fed - start >= 20 { Some(ends[idx] - fed) } else { None };
                    if missing != expected { return Err(format!("missing hint {:?}, expected {:?} after {} bytes", missing, expected, fed)); }
                    break;
                }
            }
        }
        if fed != w[1] { return Err(format!("consumed {} bytes after feeding {}", fed, w[1])); }
        let complete = ends.iter().filter(|e| **e <= w[1]).count();
        if got.len() != complete { return Err(format!("after {} bytes {} packet(s) are complete but {} delivered", w[1], complete, got.len())); }
    }
    if got != packets { return Err("delivered packets differ from the stream".into()); }
    Ok(())
}

// one valid packet, then `frame` (20 bytes): -> error kind name, position (bytes fed when raised), bytes handed back
fn run_bad(first: &[u8], frame: &[u8], cuts: &[usize]) -> Result<(String, usize, Vec<u8>), String> {
    let mut stream = first.to_vec();
    stream.extend_from_slice(frame);
    stream.extend_from_slice(&[0xEE; 8]);
    let mut bounds = vec![0usize];
    bounds.extend_from_slice(cuts);
    bounds.push(stream.len());
    let mut decoder = StunPacketDecoder::new(vec![0; 96]).map_err(|e| format!("{:?}", e))?;
    let mut delivered = 0usize;
    for w in bounds.windows(2) {
        let mut rest = &stream[w[0]..w[1]];
        loop {
            match decoder.decode(rest) {
                Ok(StunPacketDecodedValue::Decoded((p, n))) => {
                    if delivered > 0 || p.as_ref() != first { return Err(format!("bytes that are not the first packet were returned as a STUN packet: {:02x?}", &p.as_ref()[..p.as_ref().len().min(24)])); }
                    delivered += 1;
                    rest = &rest[n..];
                    decoder = StunPacketDecoder::new(vec![0; 96]).map_err(|e| format!("{:?}", e))?;
                    if rest.is_empty() { break; }
                }
                Ok(StunPacketDecodedValue::MoreBytesNeeded((d, _))) => { decoder = d; break; }
                Err(e) => {
                    let kind = match e.error_type { StunPacketErrorType::InvalidStunPacket => "InvalidStunPacket", StunPacketErrorType::SmallBuffer => "SmallBuffer" };
                    if delivered != 1 { return Err(format!("error {} before the valid packet was delivered", kind)); }
                    if e.size > e.buffer.len() { return Err(format!("error size {} beyond the buffer handed back ({})", e.size, e.buffer.len())); }
                    return Ok((kind.to_string(), w[1], e.buffer[..e.size].to_vec()));
                }
            }
        }
    }
    Err("no error was raised for the bad frame".into())
}

fn bad_frames() -> Vec<(&'static str, Vec<u8>, &'static str)> {
    let hdr = |b0: u8, b1: u8, len: u16, cookie: [u8; 4]| { let mut h = vec![b0, b1, (len >> 8) as u8, len as u8]; h.extend_from_slice(&cookie); h.extend((0..12).map(|i| 0x30 + i as u8)); h };
    let ck = [0x21, 0x12, 0xA4, 0x42];
    vec![
        ("first bits 10", hdr(0x80, 0x01, 0, ck), "InvalidStunPacket"),
        ("first bits 01 (ChannelData range)", hdr(0x40, 0x01, 0, ck), "InvalidStunPacket"),
        ("first bits 01, 0x7f", hdr(0x7f, 0xff, 4, ck), "InvalidStunPacket"),
        ("first bits 11", hdr(0xC1, 0x01, 0, ck), "InvalidStunPacket"),
        ("wrong magic cookie", hdr(0x00, 0x01, 0, [0x21, 0x12, 0xA4, 0x43]), "InvalidStunPacket"),
        ("all zero", vec![0u8; 20], "InvalidStunPacket"),
        ("packet larger than the buffer", hdr(0x00, 0x01, 80, ck), "SmallBuffer"),
        ("packet of 65535 attribute bytes", hdr(0x01, 0x01, 0xfffc, ck), "SmallBuffer"),
    ]
}

fn main() {
    let first = packet(0x0101, 50, 4);
    let mut ebad = 0;
    let mut en = 0usize;
    'frames: for (name, frame, kind) in bad_frames() {
        let total = first.len() + 20 + 8;
        let mut cutsets: Vec<Vec<usize>> = vec![vec![]];
        for a in 0..=total { cutsets.push(vec![a]); for b in a..=total { cutsets.push(vec![a, b]); } }
        for cuts in cutsets {
            en += 1;
            // the chunk that completes the 20 bytes of the bad frame
            let need = first.len() + 20;
            let mut bounds = cuts.clone(); bounds.push(total);
            let raise_at = *bounds.iter().find(|b| **b >= need).unwrap();
            match run_bad(&first, &frame, &cuts) {
                Ok((k, at, back)) => {
                    if k != kind || at != raise_at || back != frame {
                        println!("WITNESS: valid packet + frame '{}' cut at {:?}: error {} raised after {} bytes handing back {:02x?}; expected {} after {} bytes handing back the 20 header bytes", name, cuts, k, at, back, kind, raise_at);
                        ebad += 1;
                    }
                }
                Err(e) => { println!("WITNESS: valid packet + frame '{}' cut at {:?}: {}", name, cuts, e); ebad += 1; }
            }
            if ebad > 2 { break 'frames; }
        }
    }
    if ebad > 0 { std::process::exit(1); }
    println!("ok: {} chunkings of packet + bad frame raise the same error at the same place", en);
    let packets = vec![packet(0x0001, 1, 0), packet(0x0101, 50, 4), packet(0x0111, 90, 16), packet(0x0011, 100, 0), packet(0x0001, 7, 44)];
    let total: usize = packets.iter().map(Vec::len).sum();
    let mut bad = 0;
    let mut n = 0usize;
    let mut try_cuts = |cuts: &[usize], bad: &mut i32| {
        if let Err(e) = run(&packets, cuts) { println!("WITNESS: cuts {:?} of a {}-byte stream: {}", cuts, total, e); *bad += 1; }
    };
    try_cuts(&[], &mut bad);
    'outer: for a in 0..=total {
        try_cuts(&[a], &mut bad); n += 1;
        for b in a..=total {
            try_cuts(&[a, b], &mut bad); n += 1;
            if bad > 3 { break 'outer; }
            if (a + b) % 3 == 0 { for c in (b..=total).step_by(2) { try_cuts(&[a, b, c], &mut bad); n += 1; } }
        }
    }
    if bad == 0 { println!("ok: {} chunkings give the same packets", n); } else { std::process::exit(1); }
}
