//! K1 / C08: long-term credentials; request; 401 with REALM+NONCE; the application is told to retry; the retried
//! request must carry MESSAGE-INTEGRITY (or -SHA256) under the derived key. It carries none (known finding).
use std::time::{Duration, Instant};
use stun_agent::{CredentialMechanism, StunAttributes, StunClientEvent, StunClienteBuilder, TransportReliability};
use stun_rs::attributes::stun::{ErrorCode, Nonce, Realm};
use stun_rs::methods::BINDING;
use stun_rs::{MessageClass, MessageDecoderBuilder, MessageEncoderBuilder, StunMessageBuilder};

fn main() {
    let mut client = StunClienteBuilder::new(TransportReliability::Reliable(Duration::from_secs(10)))
        .with_mechanism("user", "secret", CredentialMechanism::LongTerm)
        .build().unwrap();
    let t0 = Instant::now();
    let dec = MessageDecoderBuilder::default().build();
    client.send_request(BINDING, StunAttributes::default(), vec![0u8; 1024], t0).unwrap();
    let ev = client.events();
    let StunClientEvent::OutputPacket(p) = &ev[0] else { panic!() };
    let (req, _) = dec.decode(p).unwrap();
    assert!(req.attributes().is_empty(), "first request carries no credentials");
    let resp = StunMessageBuilder::new(BINDING, MessageClass::ErrorResponse)
        .with_transaction_id(*req.transaction_id())
        .with_attribute(ErrorCode::from(stun_rs::ErrorCode::new(401, "Unauthenticated").unwrap()))
        .with_attribute(Realm::new("example.org").unwrap())
        .with_attribute(Nonce::new("abcdef").unwrap())
        .build();
    let mut buf = vec![0u8; 512];
    let n = MessageEncoderBuilder::default().build().encode(&mut buf, &resp).unwrap();
    client.on_buffer_recv(&buf[..n], t0 + Duration::from_millis(10)).unwrap();
    let ev = client.events();
    assert!(ev.iter().any(|e| matches!(e, StunClientEvent::Retry(_))), "expected Retry, got {:?}", ev);
    client.send_request(BINDING, StunAttributes::default(), vec![0u8; 1024], t0 + Duration::from_millis(20)).unwrap();
    let ev = client.events();
    let StunClientEvent::OutputPacket(p) = &ev[0] else { panic!() };
    let (retry, _) = dec.decode(p).unwrap();
    let has_integrity = retry.attributes().iter().any(|a| a.is_message_integrity() || a.is_message_integrity_sha256());
    let kinds: Vec<String> = retry.attributes().iter().map(|a| format!("{}", a.attribute_type())).collect();
    if !has_integrity {
        println!("WITNESS: retry after 401 carries {:?} but no MESSAGE-INTEGRITY: an RFC 8489 9.2.4 server answers 401 again", kinds);
        std::process::exit(1)
    }
    println!("ok: retry after 401 carries an integrity attribute");
}
