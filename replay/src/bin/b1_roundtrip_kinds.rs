//! BOUNDED probe (C01/C02): encode -> decode round trip through the real public API for boundary values of every
//! attribute kind (all feature sets), singly and in short sequences, into clean and dirty buffers.
//! Bounds: the value lists below; sequences of length <= 3 from a rotating window; PASSWORD-ALGORITHMS lists of up to 4
//! entries with parameter lengths 0..=5. A concrete failing input is printed as `WITNESS: ...`.
include!("../values.rs");

fn check(attrs: &[StunAttribute], dirty: u8, fails: &mut usize) {
    let tid = TransactionId::from([0xB7, 0xE7, 0xA7, 0x01, 0xBC, 0x34, 0xD6, 0x86, 0xFA, 0x87, 0xDF, 0xAE]);
    let mut b = StunMessageBuilder::new(methods::BINDING, MessageClass::SuccessResponse).with_transaction_id(tid);
    for a in attrs { b = b.with_attribute(a.clone()); }
    let msg = b.build();
    let mut buf = vec![dirty; 70000];
    let enc = MessageEncoderBuilder::default().build();
    let what = || format!("{:?}", attrs).chars().take(300).collect::<String>();
    let size = match enc.encode(&mut buf, &msg) {
        Ok(s) => s,
        Err(e) => { println!("WITNESS: encode failed ({:?}) for {}", e, what()); *fails += 1; return; }
    };
    let len_field = u16::from_be_bytes([buf[2], buf[3]]) as usize;
    if size % 4 != 0 || size != 20 + len_field { println!("WITNESS: size {} vs length field {} for {}", size, len_field, what()); *fails += 1; return; }
    let ctx = DecoderContextBuilder::default().not_ignore().build();
    let dec = MessageDecoderBuilder::default().with_context(ctx).build();
    match dec.decode(&buf[..size]) {
        Err(e) => { println!("WITNESS: decode of the encoder's output failed ({:?}) for {}", e, what()); *fails += 1; }
        Ok((m2, consumed)) => {
            let a1: Vec<String> = msg.attributes().iter().map(|a| format!("{:?}", a)).collect();
            let a2: Vec<String> = m2.attributes().iter().map(|a| format!("{:?}", a)).collect();
            if consumed != size || m2.method() != msg.method() || m2.class() != msg.class()
                || m2.transaction_id() != msg.transaction_id() || a1 != a2 {
                println!("WITNESS: decoded message differs: sent {} got {:?} (consumed {} of {})", what(), a2.iter().map(|s| s.chars().take(120).collect::<String>()).collect::<Vec<_>>(), consumed, size);
                *fails += 1;
            }
        }
    }
    // padding bytes are zero whatever the buffer held (RFC 8489 section 14)
    let mut pos = 20;
    while pos + 4 <= size {
        let l = u16::from_be_bytes([buf[pos + 2], buf[pos + 3]]) as usize;
        let pad = (4 - l % 4) % 4;
        for k in 0..pad {
            if buf[pos + 4 + l + k] != 0 { println!("WITNESS: non-zero padding byte after a {}-byte value (buffer pre-filled with {:#x}) for {}", l, dirty, what()); *fails += 1; return; }
        }
        pos += 4 + l + pad;
    }
}

fn main() {
    let vals = values();
    let mut fails = 0usize;
    for (i, a) in vals.iter().enumerate() {
        check(std::slice::from_ref(a), 0x00, &mut fails);
        check(std::slice::from_ref(a), 0xCD, &mut fails);
        let j = (i * 7 + 3) % vals.len();
        let k = (i * 13 + 5) % vals.len();
        check(&[a.clone(), vals[j].clone()], 0xCD, &mut fails);
        check(&[vals[k].clone(), a.clone(), vals[j].clone()], 0x00, &mut fails);
        if fails > 5 { break; }
    }
    // reserved bits are ignored on receipt (C02): a value whose reserved field is not zero decodes to the same attribute
    let wire = |t: u16, v: &[u8]| -> Vec<u8> {
        let mut m = vec![0x01u8, 0x01, 0x00, (4 + v.len() + (4 - v.len() % 4) % 4) as u8, 0x21, 0x12, 0xA4, 0x42]; m.extend_from_slice(&[3u8; 12]);
        m.extend_from_slice(&t.to_be_bytes()); m.extend_from_slice(&(v.len() as u16).to_be_bytes()); m.extend_from_slice(v);
        while m.len() % 4 != 0 { m.push(0); }
        m
    };
    let reserved: Vec<(&str, Vec<u8>, StunAttribute)> = vec![
        ("CHANNEL-NUMBER with RFFU bits", wire(0x000C, &[0x40, 0x01, 0xAB, 0xCD]), ChannelNumber::new(0x4001).into()),
        ("MAPPED-ADDRESS with a non-zero first octet", wire(0x0001, &[0x7E, 0x01, 0x12, 0x34, 192, 0, 2, 1]), MappedAddress::new(IpAddr::V4(Ipv4Addr::new(192, 0, 2, 1)), 0x1234).into()),
        ("REQUESTED-TRANSPORT with RFFU bits", wire(0x0019, &[17, 0xFF, 0xEE, 0xDD]), RequestedTrasport::default().into()),
        ("ICMP with a non-zero reserved half-word (low bit)", wire(0x8004, &[0x00, 0x01, 0x06, 0x01, 9, 8, 7, 6]), Icmp::new(IcmpType::new(3).unwrap(), IcmpCode::new(1).unwrap(), [9, 8, 7, 6]).into()),
        ("ICMP with a non-zero reserved half-word (all bits)", wire(0x8004, &[0xFF, 0xFF, 0x06, 0x01, 9, 8, 7, 6]), Icmp::new(IcmpType::new(3).unwrap(), IcmpCode::new(1).unwrap(), [9, 8, 7, 6]).into()),
        ("EVEN-PORT with RFFU bits", wire(0x0018, &[0xFF]), EvenPort::new(true).into()),
        ("EVEN-PORT (R = 0) with RFFU bits", wire(0x0018, &[0x7F]), EvenPort::new(false).into()),
        ("REQUESTED-ADDRESS-FAMILY with non-zero reserved octets", wire(0x0017, &[0x02, 0xAA, 0xBB, 0xCC]), RequestedAddressFamily::new(AddressFamily::IPv6).into()),
        ("ERROR-CODE with non-zero reserved bits", wire(0x0009, &[0xFF, 0xFF, 0xFC, 0x14]), stun_rs::attributes::stun::ErrorCode::new(stun_rs::ErrorCode::new(420, "").unwrap()).into()),
    ];
    for (name, bytes, want) in reserved {
        match MessageDecoderBuilder::default().build().decode(&bytes) {
            Ok((msg, _)) => {
                if msg.attributes().len() != 1 || format!("{:?}", msg.attributes()[0]) != format!("{:?}", want) { println!("WITNESS: {}: decoded as {:?}, expected {:?}", name, msg.attributes(), want); fails += 1; }
            }
            Err(e) => { println!("WITNESS: {}: rejected: {:?}", name, e); fails += 1; }
        }
    }
    if fails == 0 { println!("ok: {} values round-trip singly and in sequences", vals.len()); } else { std::process::exit(1); }
}
