//! BOUNDED probe (C17 / C10 / C07): a buffer that on_buffer_recv rejects must leave no trace. For each client
//! configuration (no mechanism / short-term with unknown algorithm, each with and without FINGERPRINT) and each rejected
//! buffer of a small family (bad CRC, missing FINGERPRINT, wrong-key integrity with and without valid CRC, valid integrity
//! with bad CRC, unknown transaction, request class, truncated, garbage) the client is driven through the same continuation
//! (second request, genuine response to the first, time-out sweep) with and without the rejected buffer in between;
//! the observable behaviour (attribute types of what is sent, event kinds, errors) must be identical.
use std::time::{Duration, Instant};
use stun_agent::{CredentialMechanism, RttConfig, StunAttributes, StunClient, StunClientEvent, StunClienteBuilder, TransportReliability};
use stun_rs::attributes::stun::{Fingerprint, MessageIntegrity, MessageIntegritySha256, Software};
use stun_rs::methods::BINDING;
use stun_rs::{HMACKey, MessageClass, MessageDecoderBuilder, MessageEncoderBuilder, StunAttribute, StunMessageBuilder, TransactionId};

const USER: &str = "user";
const PASS: &str = "secret-password";
fn ms(v: u64) -> Duration { Duration::from_millis(v) }
fn key(p: &str) -> HMACKey { HMACKey::new_short_term(p).unwrap() }

fn client(mech: bool, fp: bool) -> StunClient {
    let mut b = StunClienteBuilder::new(TransportReliability::Unreliable(RttConfig::default()));
    if mech { b = b.with_mechanism(USER, PASS, CredentialMechanism::ShortTerm(None)); }
    if fp { b = b.with_fingerprint(); }
    b.build().expect("build")
}
fn encode(class: MessageClass, id: TransactionId, attrs: Vec<StunAttribute>) -> Vec<u8> {
    let mut b = StunMessageBuilder::new(BINDING, class).with_transaction_id(id);
    for a in attrs { b = b.with_attribute(a); }
    let mut buf = vec![0u8; 512];
    let n = MessageEncoderBuilder::default().build().encode(&mut buf, &b.build()).expect("encode");
    buf.truncate(n);
    buf
}
// what the client emitted, without the random parts: attribute types of each packet and the kinds of the other events
fn observe(c: &mut StunClient) -> Vec<String> {
    let mut out = Vec::new();
    for e in c.events() {
        match e {
            StunClientEvent::OutputPacket(p) => {
                let d = MessageDecoderBuilder::default().build().decode(&p);
                match d {
                    Ok((m, _)) => out.push(format!("packet {:?} {:?} {:?}", m.method(), m.class(), m.attributes().iter().map(|a| a.attribute_type()).collect::<Vec<_>>())),
                    Err(e) => out.push(format!("undecodable packet {:?}", e)),
                }
            }
            StunClientEvent::RestransmissionTimeOut((_, d)) => out.push(format!("timer {:?}", d)),
            StunClientEvent::TransactionFailed((_, e)) => out.push(format!("failed {:?}", e)),
            other => out.push(format!("{:?}", other).chars().take(40).collect()),
        }
    }
    out
}

fn rejected_family(id: TransactionId, fp: bool) -> Vec<(&'static str, Vec<u8>)> {
    let mut v: Vec<(&'static str, Vec<u8>)> = Vec::new();
    let flip_last = |mut b: Vec<u8>| { let n = b.len() - 1; b[n] ^= 0x01; b };
    if fp {
        v.push(("bad CRC", flip_last(encode(MessageClass::SuccessResponse, id, vec![Fingerprint::default().into()]))));
        v.push(("missing FINGERPRINT", encode(MessageClass::SuccessResponse, id, vec![Software::new("x").unwrap().into()])));
        v.push(("valid SHA256 integrity, bad CRC", flip_last(encode(MessageClass::SuccessResponse, id, vec![MessageIntegritySha256::new(key(PASS)).into(), Fingerprint::default().into()]))));
        v.push(("valid SHA1 integrity, missing FINGERPRINT", encode(MessageClass::SuccessResponse, id, vec![MessageIntegrity::new(key(PASS)).into()])));
        v.push(("wrong-key integrity, bad CRC", flip_last(encode(MessageClass::SuccessResponse, id, vec![MessageIntegrity::new(key("other")).into(), Fingerprint::default().into()]))));
    }
    if fp {
        // (the names starting with "!" must be refused by a client that uses fingerprints, whatever the message class)
        v.push(("!indication with a bad CRC", flip_last(encode(MessageClass::Indication, TransactionId::from([4u8; 12]), vec![Software::new("x").unwrap().into(), Fingerprint::default().into()]))));
        v.push(("!indication without FINGERPRINT", encode(MessageClass::Indication, TransactionId::from([4u8; 12]), vec![Software::new("x").unwrap().into()])));
        v.push(("!response with a bad CRC", flip_last(encode(MessageClass::SuccessResponse, id, vec![Software::new("y").unwrap().into(), Fingerprint::default().into()]))));
        v.push(("!error response without FINGERPRINT", encode(MessageClass::ErrorResponse, id, vec![stun_rs::attributes::stun::ErrorCode::from(stun_rs::ErrorCode::new(400, "Bad").unwrap()).into()])));
    }
    let tail: Vec<StunAttribute> = if fp { vec![Fingerprint::default().into()] } else { vec![] };
    let other = TransactionId::from([9u8; 12]);
    let mut a = vec![Software::new("x").unwrap().into()]; a.extend(tail.clone());
    v.push(("unknown transaction", encode(MessageClass::SuccessResponse, other, a.clone())));
    v.push(("request class", encode(MessageClass::Request, id, a.clone())));
    // indications that reuse the transaction id of the outstanding request: whatever becomes of them, they are not a verdict
    // about that request (with a mechanism they are refused; the request must still end as it would have)
    let mut ai: Vec<StunAttribute> = vec![Software::new("i").unwrap().into()]; ai.extend(tail.clone());
    v.push(("indication without integrity, id of the outstanding request", encode(MessageClass::Indication, id, ai)));
    let mut aw: Vec<StunAttribute> = vec![Software::new("i").unwrap().into(), MessageIntegrity::new(key("other")).into()]; aw.extend(tail.clone());
    v.push(("indication with wrong-key integrity, id of the outstanding request", encode(MessageClass::Indication, id, aw)));
    let full = encode(MessageClass::SuccessResponse, id, a);
    v.push(("truncated", full[..full.len() - 3].to_vec()));
    v.push(("garbage", vec![0xFFu8; 40]));
    v
}

fn scenario(mech: bool, fp: bool, inject: Option<usize>, answer: bool) -> Result<(Vec<String>, Option<&'static str>), String> {
    let mut c = client(mech, fp);
    let t0 = Instant::now();
    let mut log = Vec::new();
    let id1 = c.send_request(BINDING, StunAttributes::default(), vec![0; 512], t0).map_err(|e| format!("{:?}", e))?;
    log.extend(observe(&mut c));
    let mut name = None;
    if let Some(k) = inject {
        let fam = rejected_family(id1, fp);
        let (n, buf) = &fam[k];
        name = Some(*n);
        match c.on_buffer_recv(buf, t0 + ms(10)) {
            Ok(()) => {
                if n.starts_with('!') { return Err(format!("a client that uses fingerprints accepted '{}'", &n[1..])); }
                return Ok((vec![], None));                // this client accepts it (e.g. no mechanism): not a rejected buffer
            }
            Err(_) => {}
        }
        let ev = observe(&mut c);
        if !ev.is_empty() { return Err(format!("rejected buffer '{}' produced events {:?}", n, ev)); }
    }
    // continuation, identical in both runs
    c.send_request(BINDING, StunAttributes::default(), vec![0; 512], t0 + ms(20)).map_err(|e| format!("second request: {:?}", e))?;
    log.extend(observe(&mut c));
    let mut attrs: Vec<StunAttribute> = vec![Software::new("server").unwrap().into()];
    if mech { attrs.push(MessageIntegritySha256::new(key(PASS)).into()); }
    if fp { attrs.push(Fingerprint::default().into()); }
    if answer {
        let r = c.on_buffer_recv(&encode(MessageClass::SuccessResponse, id1, attrs), t0 + ms(30));
        log.push(format!("genuine response: {:?}", r));
        log.extend(observe(&mut c));
    }
    c.send_request(BINDING, StunAttributes::default(), vec![0; 512], t0 + ms(40)).map_err(|e| format!("third request: {:?}", e))?;
    log.extend(observe(&mut c));
    for t in [540u64, 1540, 60_000] { c.on_timeout(t0 + ms(t)); log.extend(observe(&mut c)); }
    Ok((log, name))
}

fn main() {
    let mut n = 0; let mut bad = 0;
    for answer in [true, false] { for mech in [false, true] { for fp in [false, true] {
        let base = match scenario(mech, fp, None, answer) { Ok(x) => x.0, Err(e) => { println!("WITNESS: baseline scenario failed: {}", e); std::process::exit(1) } };
        let fam = rejected_family(TransactionId::from([0u8; 12]), fp);
        for k in 0..fam.len() {
            // when the first request is left unanswered (it runs into its final time-out) only indications are injected: a
            // rejected *response* may legitimately turn that time-out into ProtectionViolated (C07)
            if !answer && !fam[k].0.contains("indication") { continue; }
            match scenario(mech, fp, Some(k), answer) {
                Err(e) => { println!("WITNESS: mechanism={} fingerprint={}: {}", mech, fp, e); bad += 1; }
                Ok((log, Some(name))) => {
                    n += 1;
                    if log != base {
                        let d = log.iter().zip(base.iter()).position(|(a, b)| a != b).unwrap_or(log.len().min(base.len()));
                        println!("WITNESS: mechanism={} fingerprint={} first request {}: after the rejected buffer '{}' the client behaves differently at step {}: {:?} instead of {:?}",
                                 mech, fp, if answer { "answered" } else { "left to time out" }, name, d, log.get(d), base.get(d));
                        bad += 1;
                    }
                }
                Ok((_, None)) => {}
            }
        }
    } } }
    if bad == 0 { println!("ok: {} rejected buffers left no trace", n); } else { std::process::exit(1); }
}
