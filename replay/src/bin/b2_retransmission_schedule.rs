//! BOUNDED probe (C06 / C11 / C05 / C12): 1..=3 requests started at offsets from {0, 0, 500, 1000, 1500} ms (equal
//! deadlines included), the client polled with on_timeout at every 500 ms tick (exact calls) and every 700 / 1100 ms (late calls) up to 47 s. Each request must be sent
//! again exactly at start + {500, 1500, 3500, 7500, 15500, 31500} ms and reported TimedOut exactly once at start + 39500 ms
//! (RFC 8489 6.2.1 with the default RTO 500 ms, Rc 7, Rm 16); nothing else may be emitted.
use std::collections::HashMap;
use std::time::{Duration, Instant};
use stun_agent::{RttConfig, StunAttributes, StunClient, StunClientEvent, StunClienteBuilder, StunTransactionError, TransportReliability};
use stun_rs::{MessageClass, MessageEncoderBuilder, StunMessageBuilder};
use stun_rs::methods::BINDING;
use stun_rs::TransactionId;

fn ms(v: u64) -> Duration { Duration::from_millis(v) }

fn run(starts: &[u64], period: u64, answer: Option<(usize, u64)>) -> Result<(), String> {
    let mut client: StunClient = StunClienteBuilder::new(TransportReliability::Unreliable(RttConfig::default())).build().map_err(|e| format!("{:?}", e))?;
    let t0 = Instant::now();
    let mut by_bytes: HashMap<Vec<u8>, usize> = HashMap::new();
    let mut ids: Vec<TransactionId> = Vec::new();
    let mut resent: Vec<Vec<u64>> = vec![Vec::new(); starts.len()];
    let mut failed: Vec<Vec<u64>> = vec![Vec::new(); starts.len()];
    let mut next_start = 0usize;
    let mut answered = false;
    let mut answered_at = 0u64;
    let mut tick = 0u64;
    // first poll tick at or after t
    let at = |t: u64| -> u64 { ((t + period - 1) / period) * period };
    while tick <= 47_000 {
        let now = t0 + ms(tick);
        if let Some((k, at_ms)) = answer {
            // the response to request k arrives at the first poll tick at or after `at_ms`, before the timer call of that tick
            if !answered && tick >= at_ms && k < ids.len() {
                let msg = StunMessageBuilder::new(BINDING, MessageClass::SuccessResponse).with_transaction_id(ids[k]).build();
                let mut buf = vec![0u8; 128];
                let n = MessageEncoderBuilder::default().build().encode(&mut buf, &msg).map_err(|e| format!("{:?}", e))?;
                client.on_buffer_recv(&buf[..n], now).map_err(|e| format!("response to request {} refused: {:?}", k, e))?;
                let _ = client.events();
                answered = true;
                answered_at = tick;
            }
        }
        client.on_timeout(now);
        for e in client.events() {
            match e {
                StunClientEvent::OutputPacket(p) => match by_bytes.get(&p.to_vec()) {
                    Some(&k) => resent[k].push(tick - starts[k]),
                    None => return Err(format!("unknown packet sent at {} ms", tick)),
                },
                StunClientEvent::TransactionFailed((id, StunTransactionError::TimedOut)) => match ids.iter().position(|x| *x == id) {
                    Some(k) => failed[k].push(tick - starts[k]),
                    None => return Err(format!("unknown transaction failed at {} ms", tick)),
                },
                StunClientEvent::RestransmissionTimeOut(_) => {}
                other => return Err(format!("unexpected event at {} ms: {:?}", tick, other)),
            }
        }
        while next_start < starts.len() && starts[next_start] <= tick {
            let id = client.send_request(BINDING, StunAttributes::default(), vec![0; 256], now).map_err(|e| format!("send_request: {:?}", e))?;
            let mut n = 0;
            for e in client.events() {
                if let StunClientEvent::OutputPacket(p) = e { by_bytes.insert(p.to_vec(), next_start); n += 1; }
            }
            if n != 1 { return Err(format!("send_request emitted {} packets", n)); }
            ids.push(id);
            next_start += 1;
        }
        tick += period;
    }
    for k in 0..starts.len() {
        if let Some((ak, _)) = answer {
            if ak == k && answered {
                // the answered request: its schedule up to the answer, then nothing (no retransmission, no failure)
                let s0 = at(starts[k]);
                let want: Vec<u64> = [500u64, 1500, 3500, 7500, 15500, 31500].iter().map(|o| at(s0 + o)).filter(|t| *t < answered_at).map(|t| t - starts[k]).collect();
                if resent[k] != want || !failed[k].is_empty() {
                    return Err(format!("polling every {} ms: request {} was answered at {} ms but was retransmitted at offsets {:?} (expected {:?}) and failed at {:?}", period, k, answered_at, resent[k], want, failed[k]));
                }
                continue;
            }
        }
        // a request handed over at poll tick s0 is due at s0 + offset and served by the first poll at or after that time
        let s0 = at(starts[k]);
        let want: Vec<u64> = [500u64, 1500, 3500, 7500, 15500, 31500].iter().map(|o| at(s0 + o) - starts[k]).collect();
        let want_fail = vec![at(s0 + 39500) - starts[k]];
        if period != 500 {
            if resent[k] != want { return Err(format!("polling every {} ms: request {} (started at {} ms) was retransmitted at offsets {:?}, expected {:?}", period, k, starts[k], resent[k], want)); }
            if failed[k] != want_fail { return Err(format!("polling every {} ms: request {} (started at {} ms) timed out at offsets {:?}, expected {:?}", period, k, starts[k], failed[k], want_fail)); }
            continue;
        }
        if resent[k] != vec![500, 1500, 3500, 7500, 15500, 31500] {
            return Err(format!("request {} (started at {} ms) was retransmitted at offsets {:?}", k, starts[k], resent[k]));
        }
        if failed[k] != vec![39500] {
            return Err(format!("request {} (started at {} ms) timed out at offsets {:?}", k, starts[k], failed[k]));
        }
    }
    Ok(())
}

// a request is sent while the timer of an earlier one is already overdue (the controller is late): the notification names the
// overdue request with nothing left, the late timer call then serves it, and both requests run their whole schedule
fn run_overdue(late_by: u64) -> Result<(), String> {
    let mut client: StunClient = StunClienteBuilder::new(TransportReliability::Unreliable(RttConfig::default())).build().map_err(|e| format!("{:?}", e))?;
    let t0 = Instant::now();
    let a = client.send_request(BINDING, StunAttributes::default(), vec![0; 256], t0).map_err(|e| format!("{:?}", e))?;
    let _ = client.events();
    let now = 500 + late_by;
    let b = client.send_request(BINDING, StunAttributes::default(), vec![0; 256], t0 + ms(now)).map_err(|e| format!("{:?}", e))?;
    let notes: Vec<(TransactionId, Duration)> = client.events().into_iter().filter_map(|e| if let StunClientEvent::RestransmissionTimeOut(x) = e { Some(x) } else { None }).collect();
    if notes != vec![(a, ms(0))] { return Err(format!("a request sent {} ms after the first one's timer was due is told {:?}; expected the overdue request with 0 left", late_by, notes)); }
    client.on_timeout(t0 + ms(now));
    let ev = client.events();
    if !ev.iter().any(|e| matches!(e, StunClientEvent::OutputPacket(_))) { return Err(format!("the late timer call at {} ms did not retransmit the overdue request", now)); }
    // run to the end: both must be reported timed out
    let mut failed: Vec<TransactionId> = Vec::new();
    let mut t = now;
    while t <= 45_000 {
        t += 100;
        client.on_timeout(t0 + ms(t));
        for e in client.events() { if let StunClientEvent::TransactionFailed((id, StunTransactionError::TimedOut)) = e { failed.push(id); } }
    }
    if !(failed.contains(&a) && failed.contains(&b) && failed.len() == 2) { return Err(format!("after a late send ({} ms) the requests that timed out are {:?}, expected both", late_by, failed.len())); }
    Ok(())
}

fn main() {
    for late in [1u64, 100, 499] {
        if let Err(e) = run_overdue(late) { println!("WITNESS: {}", e); std::process::exit(1); }
    }
    let offs = [0u64, 500, 1000, 1500];
    let mut cases: Vec<Vec<u64>> = Vec::new();
    for a in offs { cases.push(vec![a]); for b in offs { if b >= a { cases.push(vec![a, b]); for c in offs { if c >= b { cases.push(vec![a, b, c]); } } } } }
    let mut bad = 0;
    for c in &cases {
        // one of several requests is answered (after it has been retransmitted, so no RTT sample): the others keep their schedule
        if c.len() >= 2 {
            for k in [0usize, c.len() - 1] {
                // (only a request already retransmitted by then - started at or before 1000 ms - so that its answer is no RTT sample)
                if c[k] > 1000 { continue; }
                if let Err(e) = run(c, 500, Some((k, 1700))) { println!("WITNESS: starts {:?} ms, request {} answered at 1700 ms: {}", c, k, e); bad += 1; }
            }
            if bad > 3 { break; }
        }
        if let Err(e) = run(c, 500, None) { println!("WITNESS: starts {:?} ms: {}", c, e); bad += 1; if bad > 3 { break; } }
        // late timer calls: deadlines are absolute (start + schedule), a late call does not shift the later ones
        for period in [700u64, 1100] {
            if let Err(e) = run(c, period, None) { println!("WITNESS: starts {:?} ms: {}", c, e); bad += 1; if bad > 3 { break; } }
        }
    }
    if bad == 0 { println!("ok: {} start patterns follow the RFC 8489 schedule", cases.len()); } else { std::process::exit(1); }
}
