//! K2 / C08: 401 offering PASSWORD-ALGORITHMS (nonce cookie with the algorithms bit); authenticated retry; 438 with a new
//! nonce; the next request must still carry PASSWORD-ALGORITHMS and PASSWORD-ALGORITHM. It does not (known finding).
use std::time::{Duration, Instant};
use stun_agent::{CredentialMechanism, StunAttributes, StunClientEvent, StunClienteBuilder, TransportReliability};
use stun_rs::attributes::stun::{ErrorCode, Nonce, PasswordAlgorithm, PasswordAlgorithms, Realm};
use stun_rs::methods::BINDING;
use stun_rs::{Algorithm, AlgorithmId, MessageClass, MessageDecoderBuilder, MessageEncoderBuilder, StunMessage, StunMessageBuilder, TransactionId};

fn send(client: &mut stun_agent::StunClient, t: Instant) -> StunMessage {
    client.send_request(BINDING, StunAttributes::default(), vec![0u8; 1024], t).unwrap();
    let ev = client.events();
    let StunClientEvent::OutputPacket(p) = &ev[0] else { panic!() };
    MessageDecoderBuilder::default().build().decode(p).unwrap().0
}
fn error(id: &TransactionId, code: u16, nonce: &str, algs: bool) -> Vec<u8> {
    let mut b = StunMessageBuilder::new(BINDING, MessageClass::ErrorResponse).with_transaction_id(*id)
        .with_attribute(ErrorCode::from(stun_rs::ErrorCode::new(code, "x").unwrap()))
        .with_attribute(Realm::new("example.org").unwrap())
        .with_attribute(Nonce::new(nonce).unwrap());
    if algs {
        let mut pa = PasswordAlgorithms::default();
        pa.add(PasswordAlgorithm::new(Algorithm::from(AlgorithmId::SHA256)));
        b = b.with_attribute(pa);
    }
    let mut buf = vec![0u8; 512];
    let n = MessageEncoderBuilder::default().build().encode(&mut buf, &b.build()).unwrap();
    buf.truncate(n);
    buf
}
fn main() {
    let mut client = StunClienteBuilder::new(TransportReliability::Reliable(Duration::from_secs(10)))
        .with_mechanism("user", "secret", CredentialMechanism::LongTerm).build().unwrap();
    let t0 = Instant::now();
    let r1 = send(&mut client, t0);
    // "obMatJos2" + base64 of features 0x800000 (password algorithms bit) = "gAAA"
    let _ = client.on_buffer_recv(&error(r1.transaction_id(), 401, "obMatJos2gAAAnonce-1", true), t0 + Duration::from_millis(5));
    let _ = client.events();
    let r2 = send(&mut client, t0 + Duration::from_millis(10));
    assert!(r2.attributes().iter().any(|a| a.is_password_algorithms()), "retry after 401 offers algorithms");
    let _ = client.on_buffer_recv(&error(r2.transaction_id(), 438, "obMatJos2gAAAnonce-2", true), t0 + Duration::from_millis(15));
    let ev = client.events();
    assert!(ev.iter().any(|e| matches!(e, StunClientEvent::Retry(_))), "expected Retry after 438, got {:?}", ev);
    let r3 = send(&mut client, t0 + Duration::from_millis(20));
    let has = r3.attributes().iter().any(|a| a.is_password_algorithms()) && r3.attributes().iter().any(|a| a.is_password_algorithm());
    if !has {
        let kinds: Vec<String> = r3.attributes().iter().map(|a| format!("{}", a.attribute_type())).collect();
        println!("WITNESS: request after 438 carries {:?}: PASSWORD-ALGORITHMS / PASSWORD-ALGORITHM are dropped although the key was derived with them", kinds);
        std::process::exit(1)
    }
    println!("ok: request after 438 still carries the password algorithm attributes");
}
