//! BOUNDED probe (C19): exhaustive sweeps of the small-domain constructors / conversions and build-clone-mutate-read sequences
//! on the list-valued types; any panic, or a clone affected by a mutation of its origin, is a witness.
use stun_rs::attributes::stun::{PasswordAlgorithm, PasswordAlgorithms, UnknownAttributes};
use stun_rs::attributes::turn::{ChannelNumber, Data, IcmpCode, IcmpType};
use stun_rs::{Algorithm, AlgorithmId, AttributeType, MessageClass, MessageDecoderBuilder, MessageMethod, MessageType};
use std::convert::TryFrom;

fn main() {
    std::panic::set_hook(Box::new(|_| {}));
    let mut bad = 0;
    let mut first = |what: String| { println!("WITNESS: {}", what); };
    // all u16
    let mut pan: Vec<u16> = Vec::new();
    for v in 0..=u16::MAX {
        let r = std::panic::catch_unwind(|| {
            let t = MessageType::from(v);
            let _ = (t.method(), t.class(), t.as_u16());
            let b = v.to_be_bytes();
            let _ = MessageType::from(&b);
            let _ = MessageMethod::try_from(v);
            let _ = AttributeType::from(v).as_u16();
            let _ = u16::from(AlgorithmId::from(v));
            let _ = IcmpCode::new(v);
            let _ = ChannelNumber::new(v).number();
            if let Ok(e) = stun_rs::ErrorCode::new(v, "x") { let _ = (e.class(), e.number(), e.error_code(), e.reason().len()); }
        });
        if r.is_err() { pan.push(v); }
    }
    if !pan.is_empty() { first(format!("a u16 conversion panics for {} values, first {:#06x}", pan.len(), pan[0])); bad += 1; }
    for v in 0..=u8::MAX {
        let r = std::panic::catch_unwind(|| { let _ = MessageClass::try_from(v); let _ = IcmpType::new(v); });
        if r.is_err() { first(format!("a u8 conversion panics for {}", v)); bad += 1; break; }
    }
    // build, clone, mutate / consume either copy, read both
    let r = std::panic::catch_unwind(|| {
        let mut a = PasswordAlgorithms::default();
        a.add(PasswordAlgorithm::new(Algorithm::from(AlgorithmId::MD5)));
        let b = a.clone();
        let c = a.clone();
        let n: usize = c.into_iter().count();               // consume a copy while clones are alive
        a.add(PasswordAlgorithm::new(Algorithm::new(AlgorithmId::Unassigned(9), &[1u8, 2, 3][..])));
        let d = a.clone();
        (n, a.iter().count(), b.iter().count(), d.into_iter().count(), b.password_algorithms().len())
    });
    match r { Ok((1, 2, 1, 2, 1)) => {}, Ok(x) => { first(format!("PasswordAlgorithms copies not independent: {:?}", x)); bad += 1; }, Err(_) => { first("PasswordAlgorithms clone / into_iter / add sequence panicked".into()); bad += 1; } }
    let r = std::panic::catch_unwind(|| {
        let mut a = UnknownAttributes::default();
        a.add(1); a.add(2);
        let b = a.clone();
        a.add(3); a.add(1);
        let mut c = b.clone();
        c.add(9);
        (a.attributes().to_vec(), b.attributes().to_vec(), c.attributes().to_vec())
    });
    match r { Ok((x, y, z)) if x == [1, 2, 3] && y == [1, 2] && z == [1, 2, 9] => {}, Ok(x) => { first(format!("UnknownAttributes copies not independent: {:?}", x)); bad += 1; }, Err(_) => { first("UnknownAttributes clone / add sequence panicked".into()); bad += 1; } }
    let r = std::panic::catch_unwind(|| { let d = Data::new(vec![1u8, 2, 3]); let e = d.clone(); drop(d); e.as_bytes().len() });
    if r.map(|n| n != 3).unwrap_or(true) { first("Data clone".into()); bad += 1; }
    // accessors of values that came off the wire: any 32-bit CHANGE-REQUEST word, any reserved bits
    for word in [0u32, 1, 2, 4, 6, 7, 8, 0x8000_0000, 0xffff_ffff, 0x0000_0100] {
        let mut m = vec![0x00u8, 0x01, 0x00, 0x08, 0x21, 0x12, 0xA4, 0x42]; m.extend_from_slice(&[5u8; 12]);
        m.extend_from_slice(&[0x00, 0x03, 0x00, 0x04]); m.extend_from_slice(&word.to_be_bytes());
        let r = std::panic::catch_unwind(|| {
            match MessageDecoderBuilder::default().build().decode(&m) {
                Ok((msg, _)) => { for a in msg.attributes() { if a.is_change_request() { let f = a.expect_change_request().flags(); let _ = f.bits(); let c = a.clone(); let _ = c.expect_change_request().flags(); } } }
                Err(_) => {}
            }
        });
        if r.is_err() { first(format!("ChangeRequest::flags() panics on the decoded word {:#010x}", word)); bad += 1; break; }
    }
    // comparisons between the text attributes and plain strings never panic, whatever the attribute holds: realms whose text the
    // OpaqueString profile rejects (empty after trimming; a TAB, which the quoted-string grammar allows) come from the public
    // constructor and from the decoder
    {
        use stun_rs::attributes::stun::{Realm, UserName};
        let mut realms: Vec<Realm> = Vec::new();
        for t in ["\"\"", "\" \"", " \"\"", "example.org", "caf\u{e9}"] { if let Ok(r) = Realm::new(t) { realms.push(r); } }
        let mut m = vec![0x01u8, 0x11, 0x00, 0x08, 0x21, 0x12, 0xA4, 0x42]; m.extend_from_slice(&[5u8; 12]);
        m.extend_from_slice(&[0x00, 0x14, 0x00, 0x03, b'a', b'\t', b'b', 0x00]);
        if let Ok((msg, _)) = MessageDecoderBuilder::default().build().decode(&m) { for a in msg.attributes() { if a.is_realm() { realms.push(a.expect_realm().clone()); } } }
        let names: Vec<UserName> = ["u", "user name", "caf\u{e9}"].iter().filter_map(|t| UserName::new(*t).ok()).collect();
        for other in ["example.org", "", "a\tb", "x", "cafe\u{301}", " "] {
            let o = other.to_string();
            let r = std::panic::catch_unwind(|| {
                let mut k = 0usize;
                for x in &realms { if *x == other { k += 1; } if other == *x { k += 1; } if *x == o { k += 1; } if o == *x { k += 1; } if *x == *other { k += 1; } }
                for x in &names { if *x == other { k += 1; } if other == *x { k += 1; } if *x == o { k += 1; } if o == *x { k += 1; } }
                k
            });
            if r.is_err() { first(format!("comparing a Realm / UserName with the string {:?} panics", other)); bad += 1; break; }
        }
    }
    if bad == 0 { println!("ok: small-domain conversions and clone sequences"); } else { std::process::exit(1); }
}
