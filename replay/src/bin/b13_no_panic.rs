//! BOUNDED probe (C03): no input bytes make the decoder, the client or the stream reassembler panic; they return an error.
//! Bound: (a) for every 16-bit attribute type the registry knows (all feature sets) plus three unknown ones, a single-attribute
//! message whose value has every length 0..=44 and each of three fill patterns, through MessageDecoder with all 16 option
//! combinations and without a context; (b) a valid two-attribute response with every TLV-level corruption of one field
//! (attribute length +-1, +-4, 0, 0xffff; header length likewise; unpadded tail; truncated at every byte); (c) every
//! buffer of (a) with length <= 12 and all of (b) through StunClient::on_buffer_recv for four client configurations with an
//! outstanding request of the same transaction id, and through StunPacketDecoder in two chunkings. A panic is caught and
//! reported with the bytes that caused it.
use std::panic::{catch_unwind, AssertUnwindSafe};
use std::time::{Duration, Instant};
use stun_agent::{CredentialMechanism, RttConfig, StunAttributes, StunClient, StunClienteBuilder, StunPacketDecodedValue, StunPacketDecoder, TransportReliability};
use stun_rs::methods::BINDING;
use stun_rs::{DecoderContextBuilder, HMACKey, MessageDecoderBuilder, TransactionId};

const COOKIE: [u8; 4] = [0x21, 0x12, 0xA4, 0x42];
const TYPES: [u16; 41] = [
    0x0001, 0x0003, 0x0006, 0x0008, 0x0009, 0x000A, 0x000C, 0x000D, 0x0012, 0x0013, 0x0014, 0x0015, 0x0016, 0x0017, 0x0018, 0x0019,
    0x001A, 0x001C, 0x001D, 0x001E, 0x0020, 0x0022, 0x0024, 0x0025, 0x0026, 0x0027, 0x8000, 0x8001, 0x8002, 0x8004, 0x8022, 0x8023,
    0x8028, 0x8029, 0x802A, 0x802B, 0x802C, 0x8030, 0x0002, 0x7fff, 0xff01,
];

fn hex(b: &[u8]) -> String { b.iter().map(|x| format!("{:02x}", x)).collect::<Vec<_>>().join("") }

fn message(class_bits: u16, tid: &[u8; 12], tlvs: &[(u16, Vec<u8>)]) -> Vec<u8> {
    let mut body = Vec::new();
    for (t, v) in tlvs {
        body.extend_from_slice(&t.to_be_bytes());
        body.extend_from_slice(&(v.len() as u16).to_be_bytes());
        body.extend_from_slice(v);
        while body.len() % 4 != 0 { body.push(0); }
    }
    let mut m = Vec::new();
    m.extend_from_slice(&(0x0001u16 | class_bits).to_be_bytes());
    m.extend_from_slice(&(body.len() as u16).to_be_bytes());
    m.extend_from_slice(&COOKIE);
    m.extend_from_slice(tid);
    m.extend_from_slice(&body);
    m
}

fn contexts() -> Vec<Option<stun_rs::DecoderContext>> {
    let mut v = vec![None];
    for bits in 0..16u8 {
        let mut b = DecoderContextBuilder::default();
        if bits & 1 != 0 { b = b.with_key(HMACKey::new_short_term("pw").unwrap()); }
        if bits & 2 != 0 { b = b.with_validation(); }
        if bits & 4 != 0 { b = b.with_unknown_data(); }
        if bits & 8 != 0 { b = b.not_ignore(); }
        v.push(Some(b.build()));
    }
    v
}

fn decode_all(buf: &[u8], ctxs: &[Option<stun_rs::DecoderContext>]) -> Option<String> {
    for (k, c) in ctxs.iter().enumerate() {
        let dec = match c { Some(c) => MessageDecoderBuilder::default().with_context(c.clone()).build(), None => MessageDecoderBuilder::default().build() };
        let r = catch_unwind(AssertUnwindSafe(|| { let _ = dec.decode(buf); }));
        if r.is_err() { return Some(format!("MessageDecoder::decode (option set #{}) panics on {}", k, hex(buf))); }
    }
    None
}

fn client(cfg: u8) -> StunClient {
    let mut b = StunClienteBuilder::new(if cfg & 4 != 0 { TransportReliability::Reliable(Duration::from_secs(5)) } else { TransportReliability::Unreliable(RttConfig::default()) });
    if cfg & 1 != 0 { b = b.with_mechanism("user", "pw", CredentialMechanism::ShortTerm(None)); }
    if cfg & 8 != 0 { b = b.with_mechanism("user", "pw", CredentialMechanism::LongTerm); }
    if cfg & 2 != 0 { b = b.with_fingerprint(); }
    b.build().expect("build")
}

fn through_client(buf_of: &dyn Fn(&[u8; 12]) -> Vec<u8>, what: &str) -> Option<String> {
    for cfg in [0u8, 1, 2, 5, 8, 12] {
        let mut c = client(cfg);
        let t0 = Instant::now();
        let id: TransactionId = match c.send_request(BINDING, StunAttributes::default(), vec![0; 512], t0) { Ok(id) => id, Err(_) => continue };
        let _ = c.events();
        let mut tid = [0u8; 12];
        tid.copy_from_slice(id.as_bytes());
        let buf = buf_of(&tid);
        let r = catch_unwind(AssertUnwindSafe(|| { let _ = c.on_buffer_recv(&buf, t0 + Duration::from_millis(10)); }));
        if r.is_err() { return Some(format!("StunClient::on_buffer_recv (configuration {}) panics on {}: {}", cfg, what, hex(&buf))); }
        // the client must remain usable
        let r = catch_unwind(AssertUnwindSafe(|| { let _ = c.on_timeout(t0 + Duration::from_millis(20)); let _ = c.events(); }));
        if r.is_err() { return Some(format!("StunClient unusable after {}: {}", what, hex(&buf))); }
    }
    None
}

fn through_reassembler(buf: &[u8]) -> Option<String> {
    for cut in [buf.len(), buf.len() / 2, 1] {
        let r = catch_unwind(AssertUnwindSafe(|| {
            let mut d = match StunPacketDecoder::new(vec![0; 64]) { Ok(d) => d, Err(_) => return };
            let first_end = cut.min(buf.len());
            let mut chunks: Vec<&[u8]> = vec![&buf[..first_end]];
            if first_end < buf.len() { chunks.push(&buf[first_end..]); }
            for ch in chunks {
                match d.decode(ch) {
                    Ok(StunPacketDecodedValue::MoreBytesNeeded((nd, _))) => { d = nd; }
                    _ => return,
                }
            }
        }));
        if r.is_err() { return Some(format!("StunPacketDecoder::decode panics on {} cut at {}", hex(buf), cut)); }
    }
    None
}

// a logger that formats every record: log macros evaluate their arguments only when a logger admits the level, so a panic in an
// argument expression is invisible without one
struct EvalLogger;
impl log::Log for EvalLogger {
    fn enabled(&self, _: &log::Metadata) -> bool { true }
    fn log(&self, record: &log::Record) { let _ = format!("{}", record.args()); }
    fn flush(&self) {}
}
static LOGGER: EvalLogger = EvalLogger;

// well-formed messages a server may send for an outstanding request (the client must digest them whatever its state)
fn server_messages(id: &[u8; 12]) -> Vec<(String, Vec<u8>)> {
    let mut v = Vec::new();
    for code in [300u16, 400, 401, 420, 438, 500] {
        let mut ec = vec![0u8, 0, (code / 100) as u8, (code % 100) as u8]; ec.extend_from_slice(b"reason");
        for nonce in [&b"n"[..], b"obMatJos2AAAA", b"obMatJos2AAA", b"obMatJos2QAAAcookie", b"plain-nonce"] {
            for with_realm in [false, true] {
                let mut tlvs: Vec<(u16, Vec<u8>)> = vec![(0x0009, ec.clone()), (0x0015, nonce.to_vec())];
                if with_realm { tlvs.push((0x0014, b"realm".to_vec())); }
                v.push((format!("error response {} with NONCE {:?}{}", code, String::from_utf8_lossy(nonce), if with_realm { " and REALM" } else { "" }), message(0x0110, id, &tlvs)));
            }
        }
    }
    v.push(("success response without attributes".into(), message(0x0100, id, &[])));
    v.push(("indication with the id of the request".into(), message(0x0010, id, &[(0x8022, b"x".to_vec())])));
    v
}

fn main() {
    let _ = log::set_logger(&LOGGER);
    log::set_max_level(log::LevelFilter::Trace);
    let ctxs = contexts();
    let tid = [7u8; 12];
    let mut n = 0usize;
    let mut bad: Vec<String> = Vec::new();
    // (a) every type x value length x pattern
    'a: for t in TYPES {
        for len in 0..=44usize {
            for pat in 0..3u8 {
                let v: Vec<u8> = (0..len).map(|i| match pat { 0 => 0u8, 1 => 0xff, _ => (i as u8).wrapping_mul(37).wrapping_add(1) }).collect();
                let m = message(0x0100, &tid, &[(t, v.clone())]);
                n += 1;
                if let Some(w) = decode_all(&m, &ctxs) { bad.push(w); break 'a; }
                if len <= 12 || len == 20 || len == 24 || len == 32 || len == 36 {
                    let vv = v.clone();
                    if let Some(w) = through_client(&|id| message(0x0100, id, &[(t, vv.clone())]), "a single-attribute response") { bad.push(w); break 'a; }
                }
                // the same attribute after a FINGERPRINT-typed attribute (not admitted by the ordering rule, still parsed)
                let m2 = message(0x0100, &tid, &[(0x8028, vec![1, 2, 3, 4]), (t, v)]);
                if let Some(w) = decode_all(&m2, &ctxs) { bad.push(w); break 'a; }
            }
        }
    }
    // (b) TLV-level corruptions of a valid response
    let base = |id: &[u8; 12]| message(0x0100, id, &[(0x8022, b"probe".to_vec()), (0x0020, vec![0, 1, 0x21, 0x12, 0x21, 0x12, 0xa4, 0x43])]);
    let good = base(&tid);
    let mut variants: Vec<(String, Box<dyn Fn(&[u8; 12]) -> Vec<u8>>)> = Vec::new();
    for (off, name) in [(2usize, "header length"), (22, "first attribute length"), (34, "second attribute length")] {
        let orig = u16::from_be_bytes([good[off], good[off + 1]]);
        for nv in [orig.wrapping_sub(1), orig.wrapping_add(1), orig.wrapping_sub(4), orig.wrapping_add(4), 0, 0xffff, 0x8000, orig.wrapping_add(3)] {
            let what = format!("{} set to {}", name, nv);
            variants.push((what, Box::new(move |id| { let mut b = message(0x0100, id, &[(0x8022, b"probe".to_vec()), (0x0020, vec![0, 1, 0x21, 0x12, 0x21, 0x12, 0xa4, 0x43])]); b[off..off + 2].copy_from_slice(&nv.to_be_bytes()); b })));
        }
    }
    for cut in 0..good.len() {
        variants.push((format!("truncated to {} bytes", cut), Box::new(move |id| { let mut b = message(0x0100, id, &[(0x8022, b"probe".to_vec()), (0x0020, vec![0, 1, 0x21, 0x12, 0x21, 0x12, 0xa4, 0x43])]); b.truncate(cut); b })));
        variants.push((format!("header length cut to {} with the bytes kept", cut), Box::new(move |id| { let mut b = message(0x0100, id, &[(0x8022, b"probe".to_vec()), (0x0020, vec![0, 1, 0x21, 0x12, 0x21, 0x12, 0xa4, 0x43])]); let l = (cut.saturating_sub(20)) as u16; b[2..4].copy_from_slice(&l.to_be_bytes()); b })));
    }
    if bad.is_empty() {
        for (what, f) in &variants {
            n += 1;
            let m = f(&tid);
            if let Some(w) = decode_all(&m, &ctxs) { bad.push(format!("{} ({})", w, what)); break; }
            if let Some(w) = through_client(f.as_ref(), what) { bad.push(w); break; }
            if let Some(w) = through_reassembler(&m) { bad.push(format!("{} ({})", w, what)); break; }
        }
    }
    // (d) well-formed server messages for the outstanding request, for every client configuration (long-term included)
    if bad.is_empty() {
        let probe_id = [1u8; 12];
        let count = server_messages(&probe_id).len();
        for k in 0..count {
            n += 1;
            let what = server_messages(&probe_id)[k].0.clone();
            if let Some(w) = through_client(&|id| server_messages(id)[k].1.clone(), &what) { bad.push(w); break; }
        }
    }
    if bad.is_empty() { println!("ok: {} crafted buffers, no panic in decoder (17 option sets), client (6 configurations, log arguments evaluated) or reassembler", n); }
    else { for w in bad { println!("WITNESS: {}", w); } std::process::exit(1); }
}
