//! F1 / C14: 130 x SOFTWARE(505 bytes) = 66 560 attribute bytes into a 70 000-byte buffer.
//! Must return Err (does not fit the 16-bit length field); must not panic or wrap.
use stun_rs::attributes::stun::Software;
use stun_rs::methods::BINDING;
use stun_rs::{MessageClass, MessageEncoderBuilder, StunMessageBuilder};

fn main() {
    let text = "x".repeat(505);
    let mut b = StunMessageBuilder::new(BINDING, MessageClass::Request);
    for _ in 0..130 {
        b = b.with_attribute(Software::new(text.as_str()).unwrap());
    }
    let msg = b.build();
    let mut buf = vec![0u8; 70_000];
    let enc = MessageEncoderBuilder::default().build();
    let r = std::panic::catch_unwind(move || enc.encode(&mut buf, &msg).map_err(|e| e.to_string()));
    match r {
        Err(_) => { println!("WITNESS: encode panicked"); std::process::exit(1) }
        Ok(Ok(n)) => { println!("WITNESS: encode returned Ok({}) for a message that does not fit 65535 attribute bytes", n); std::process::exit(1) }
        Ok(Err(e)) => println!("ok: encode returned Err({})", e),
    }
}
