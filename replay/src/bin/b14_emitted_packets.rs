//! BOUNDED probe (C13 / C07 / C08 / C10): what a client puts on the wire. For 10 client configurations (no mechanism, short-term
//! with the algorithm unknown / MESSAGE-INTEGRITY / MESSAGE-INTEGRITY-SHA256 agreed, long-term; each with and without
//! FINGERPRINT) x 7 application attribute lists (ordinary attributes, with credential / integrity / FINGERPRINT attributes
//! of a foreign user pre-populated at the front, in the middle and at the end) x {request, indication}, every OutputPacket
//!  - decodes, with the asked method and class;
//!  - carries the application's ordinary attributes once each, in first-insertion order, before anything the agent adds;
//!  - short-term: exactly one USERNAME, the configured one; the integrity attribute(s) of the agreed algorithm (both while
//!    none is agreed) and no other; every integrity attribute verifies under the configured password;
//!  - long-term, before any challenge: no USERNAME / USERHASH / REALM / NONCE / PASSWORD-ALGORITHM(S) / integrity attribute;
//!    after 401 + 438 the stale-nonce retry carries USERNAME, REALM, the new NONCE and an integrity attribute that verifies
//!    under MD5(user:realm:password);
//!  - FINGERPRINT is present exactly when configured, is the last attribute and verifies; nothing follows the integrity
//!    attributes except FINGERPRINT;
//!  - the retransmission after the first RTO is byte-identical.
use std::time::{Duration, Instant};
use stun_agent::{CredentialMechanism, Integrity, RttConfig, StunAttributes, StunClient, StunClientEvent, StunClienteBuilder, TransportReliability};
use stun_rs::attributes::ice::Priority;
use stun_rs::attributes::stun::*;
use stun_rs::methods::BINDING;
use stun_rs::{Algorithm, AlgorithmId, DecoderContextBuilder, HMACKey, MessageClass, MessageDecoderBuilder, MessageEncoderBuilder, StunAttribute, StunMessageBuilder, TransactionId};

const USER: &str = "probe-user";
const PASS: &str = "probe-password";
const REALM: &str = "probe-realm";

#[derive(Clone, Copy, PartialEq, Debug)]
enum Mech { None, StUnknown, StSha1, StSha256, Lt }

fn client(m: Mech, fp: bool) -> StunClient {
    let mut b = StunClienteBuilder::new(TransportReliability::Unreliable(RttConfig::default()));
    b = match m {
        Mech::None => b,
        Mech::StUnknown => b.with_mechanism(USER, PASS, CredentialMechanism::ShortTerm(None)),
        Mech::StSha1 => b.with_mechanism(USER, PASS, CredentialMechanism::ShortTerm(Some(Integrity::MessageIntegrity))),
        Mech::StSha256 => b.with_mechanism(USER, PASS, CredentialMechanism::ShortTerm(Some(Integrity::MessageIntegritySha256))),
        Mech::Lt => b.with_mechanism(USER, PASS, CredentialMechanism::LongTerm),
    };
    if fp { b = b.with_fingerprint(); }
    b.build().expect("build")
}

fn foreign_key() -> HMACKey { HMACKey::new_short_term("somebody-else").unwrap() }

// application attribute lists; the ordinary ones are SOFTWARE("a"), PRIORITY(7), SOFTWARE is re-set in one list
fn app_lists() -> Vec<(&'static str, Vec<StunAttribute>)> {
    let sw: StunAttribute = Software::new("app").unwrap().into();
    let pr: StunAttribute = Priority::new(7).into();
    let un: StunAttribute = UserName::new("intruder").unwrap().into();
    let re: StunAttribute = Realm::new("other-realm").unwrap().into();
    let no: StunAttribute = Nonce::new("other-nonce").unwrap().into();
    let mi: StunAttribute = MessageIntegrity::new(foreign_key()).into();
    let ms: StunAttribute = MessageIntegritySha256::new(foreign_key()).into();
    let fp: StunAttribute = Fingerprint::default().into();
    let pa: StunAttribute = PasswordAlgorithm::new(Algorithm::from(AlgorithmId::MD5)).into();
    vec![
        ("no attributes", vec![]),
        ("ordinary only", vec![sw.clone(), pr.clone()]),
        ("foreign credentials first", vec![un.clone(), sw.clone(), re.clone(), no.clone(), pr.clone()]),
        ("foreign credentials in the middle", vec![sw.clone(), un.clone(), re.clone(), pr.clone(), no.clone(), pa.clone()]),
        ("foreign MESSAGE-INTEGRITY", vec![sw.clone(), mi.clone(), pr.clone()]),
        ("foreign MESSAGE-INTEGRITY-SHA256 and FINGERPRINT", vec![ms.clone(), sw.clone(), fp.clone(), pr.clone()]),
        ("everything", vec![un, mi, sw, ms, re, pr, fp, no, pa]),
    ]
}
// what a mechanism treats as the application's own attributes: everything but the attributes it manages itself
fn is_ordinary(m: Mech, t: u16) -> bool {
    let integrity = t == 0x0008 || t == 0x001C || t == 0x8028;
    match m {
        Mech::None => !integrity,
        Mech::Lt => !(integrity || t == 0x0006 || t == 0x001E || t == 0x0014 || t == 0x0015 || t == 0x001D || t == 0x8002),
        _ => !(integrity || t == 0x0006),
    }
}

fn packets(c: &mut StunClient) -> (Vec<Vec<u8>>, Vec<StunClientEvent>) {
    let ev = c.events();
    let p = ev.iter().filter_map(|e| if let StunClientEvent::OutputPacket(p) = e { let b: &[u8] = p.as_ref(); Some(b.to_vec()) } else { None }).collect();
    (p, ev)
}

fn check_packet(bytes: &[u8], m: Mech, fp: bool, class: MessageClass, app: &[StunAttribute], lt_key: Option<&HMACKey>, lt_authenticated: bool) -> Result<(), String> {
    let (msg, size) = MessageDecoderBuilder::default().build().decode(bytes).map_err(|e| format!("the packet does not decode: {:?}", e))?;
    if size != bytes.len() { return Err(format!("decoder consumed {} of {} bytes", size, bytes.len())); }
    if msg.method() != BINDING || msg.class() != class { return Err(format!("method/class {:?}/{:?}, asked BINDING/{:?}", msg.method(), msg.class(), class)); }
    let types: Vec<u16> = msg.attributes().iter().map(|a| a.attribute_type().as_u16()).collect();
    // ordinary attributes of the application: once each, in first-insertion order, ahead of the agent's
    let mut want: Vec<u16> = Vec::new();
    for a in app { let t = a.attribute_type().as_u16(); if is_ordinary(m, t) && !want.contains(&t) { want.push(t); } }
    let got: Vec<u16> = types.iter().copied().filter(|t| is_ordinary(m, *t)).collect();
    if got != want { return Err(format!("ordinary attributes on the wire {:04x?}, the application added {:04x?}", got, want)); }
    if let Some(last_ord) = types.iter().rposition(|t| is_ordinary(m, *t)) {
        if types[..last_ord].iter().any(|t| !is_ordinary(m, *t)) { return Err(format!("an agent attribute precedes an application attribute: {:04x?}", types)); }
    }
    let count = |t: u16| types.iter().filter(|x| **x == t).count();
    // FINGERPRINT
    if fp {
        if types.last() != Some(&0x8028) || count(0x8028) != 1 { return Err(format!("FINGERPRINT configured but the attributes are {:04x?}", types)); }
    } else if count(0x8028) > 1 || (count(0x8028) == 1 && types.last() != Some(&0x8028)) { return Err(format!("FINGERPRINT is not the single last attribute: {:04x?}", types)); }
    // nothing but FINGERPRINT after the first integrity attribute
    if let Some(i) = types.iter().position(|t| *t == 0x0008 || *t == 0x001C) {
        if types[i..].iter().any(|t| *t != 0x0008 && *t != 0x001C && *t != 0x8028) { return Err(format!("attributes after the integrity attribute: {:04x?}", types)); }
    }
    let verify = |key: &HMACKey| -> Result<(), String> {
        let ctx = DecoderContextBuilder::default().with_key(key.clone()).with_validation().build();
        MessageDecoderBuilder::default().with_context(ctx).build().decode(bytes).map(|_| ()).map_err(|e| format!("integrity / fingerprint of the packet does not verify under the configured credentials: {:?} (attributes {:04x?})", e, types))
    };
    match m {
        Mech::None => {
            if fp { verify(&foreign_key()).or_else(|e| if count(0x0008) + count(0x001C) > 0 { Ok(()) } else { Err(e) })?; }
        }
        Mech::StUnknown | Mech::StSha1 | Mech::StSha256 => {
            let names: Vec<&StunAttribute> = msg.attributes().iter().filter(|a| a.is_user_name()).collect();
            if names.len() != 1 || names[0].expect_user_name().as_str() != USER { return Err(format!("USERNAME on the wire: {:?}", names)); }
            let (want_mi, want_sha) = match m { Mech::StUnknown => (1, 1), Mech::StSha1 => (1, 0), _ => (0, 1) };
            if count(0x0008) != want_mi || count(0x001C) != want_sha { return Err(format!("integrity attributes on the wire {:04x?}: MESSAGE-INTEGRITY x{}, -SHA256 x{} expected", types, want_mi, want_sha)); }
            verify(&HMACKey::new_short_term(PASS).unwrap())?;
        }
        Mech::Lt => {
            if !lt_authenticated {
                for t in [0x0006u16, 0x001E, 0x0014, 0x0015, 0x001D, 0x8002, 0x0008, 0x001C] {
                    if count(t) != 0 { return Err(format!("a long-term client that was never challenged sends attribute {:04x}: {:04x?}", t, types)); }
                }
                if fp { verify(&foreign_key())?; }
            } else {
                let key = lt_key.unwrap();
                let names: Vec<&StunAttribute> = msg.attributes().iter().filter(|a| a.is_user_name()).collect();
                if names.len() != 1 || names[0].expect_user_name().as_str() != USER { return Err(format!("USERNAME on the wire: {:?}", names)); }
                if count(0x0014) != 1 || count(0x0015) != 1 { return Err(format!("REALM / NONCE on the wire: {:04x?}", types)); }
                if count(0x0008) + count(0x001C) != 1 { return Err(format!("integrity attributes of an authenticated long-term request: {:04x?}", types)); }
                verify(key)?;
            }
        }
    }
    Ok(())
}

fn error_response(id: TransactionId, code: u16, nonce: &str, key: Option<&HMACKey>) -> Vec<u8> {
    let mut b = StunMessageBuilder::new(BINDING, MessageClass::ErrorResponse).with_transaction_id(id)
        .with_attribute(ErrorCode::from(stun_rs::ErrorCode::new(code, "x").unwrap()))
        .with_attribute(Realm::new(REALM).unwrap())
        .with_attribute(Nonce::new(nonce).unwrap());
    if let Some(k) = key { b = b.with_attribute(MessageIntegrity::new(k.clone())); }
    b = b.with_attribute(Fingerprint::default());
    let mut buf = vec![0u8; 1024];
    let n = MessageEncoderBuilder::default().build().encode(&mut buf, &b.build()).expect("encode");
    buf.truncate(n);
    buf
}

fn attrs_of(list: &[StunAttribute]) -> StunAttributes {
    let mut a = StunAttributes::default();
    for x in list { a.add(x.clone()); }
    a
}

fn main() {
    let mut n = 0usize;
    let mut bad = 0usize;
    let lists = app_lists();
    for m in [Mech::None, Mech::StUnknown, Mech::StSha1, Mech::StSha256, Mech::Lt] {
        for fp in [false, true] {
            if bad > 3 { break; }
            for (lname, list) in &lists {
                if m == Mech::None && list.iter().any(|a| !is_ordinary(Mech::Lt, a.attribute_type().as_u16())) { continue; }
                for class in [MessageClass::Request, MessageClass::Indication] {
                    n += 1;
                    let mut c = client(m, fp);
                    let t0 = Instant::now();
                    let id = if class == MessageClass::Request {
                        match c.send_request(BINDING, attrs_of(list), vec![0; 1024], t0) { Ok(id) => Some(id), Err(e) => { println!("WITNESS: {:?} fingerprint={} list '{}': send_request refused: {:?}", m, fp, lname, e); bad += 1; continue; } }
                    } else {
                        match c.send_indication(BINDING, attrs_of(list), vec![0; 1024]) { Ok(_) => None, Err(e) => { if m == Mech::Lt { continue; } println!("WITNESS: {:?} fingerprint={} list '{}': send_indication refused: {:?}", m, fp, lname, e); bad += 1; continue; } }
                    };
                    let (pk, _) = packets(&mut c);
                    if pk.len() != 1 { println!("WITNESS: {:?} fingerprint={} list '{}' {:?}: {} packets emitted", m, fp, lname, class, pk.len()); bad += 1; continue; }
                    if let Err(w) = check_packet(&pk[0], m, fp, class, list, None, false) {
                        println!("WITNESS: client {:?} fingerprint={} application list '{}' {:?}: {}", m, fp, lname, class, w); bad += 1; continue;
                    }
                    if let Some(_id) = id {
                        // retransmission after the first RTO is the same bytes
                        c.on_timeout(t0 + Duration::from_millis(500));
                        let (rp, _) = packets(&mut c);
                        if rp.len() != 1 || rp[0] != pk[0] { println!("WITNESS: client {:?} fingerprint={} list '{}': the retransmission differs from the original packet ({} packets)", m, fp, lname, rp.len()); bad += 1; continue; }
                    }
                    if bad > 3 { break; }
                }
            }
        }
    }
    // long-term: 401, retry, 438, stale-nonce retry: the last one is authenticated
    let mut lt_checked = 0usize;
    for fp in [false, true] {
        for (lname, list) in &lists {
            n += 1;
            let mut c = client(Mech::Lt, fp);
            let t0 = Instant::now();
            let key = HMACKey::new_long_term(USER, REALM, PASS, Algorithm::from(AlgorithmId::MD5)).unwrap();
            let id1 = c.send_request(BINDING, attrs_of(list), vec![0; 1024], t0).expect("send");
            let _ = c.events();
            if c.on_buffer_recv(&error_response(id1, 401, "nonce-one", None), t0 + Duration::from_millis(5)).is_err() { continue; }
            let _ = c.events();
            let id2 = match c.send_request(BINDING, attrs_of(list), vec![0; 1024], t0 + Duration::from_millis(6)) { Ok(i) => i, Err(_) => continue };
            let _ = c.events();
            if c.on_buffer_recv(&error_response(id2, 438, "nonce-two", Some(&key)), t0 + Duration::from_millis(9)).is_err() { continue; }
            let _ = c.events();
            if c.send_request(BINDING, attrs_of(list), vec![0; 1024], t0 + Duration::from_millis(10)).is_err() { continue; }
            let (pk, _) = packets(&mut c);
            if pk.len() != 1 { continue; }
            match check_packet(&pk[0], Mech::Lt, fp, MessageClass::Request, list, Some(&key), true) {
                Ok(()) => {
                    lt_checked += 1;
                    let (msg, _) = MessageDecoderBuilder::default().build().decode(&pk[0]).unwrap();
                    let nonce_ok = msg.attributes().iter().any(|a| a.is_nonce() && a.expect_nonce().as_str() == "nonce-two");
                    if !nonce_ok { println!("WITNESS: long-term client fingerprint={} list '{}': the request after a 438 does not carry the new NONCE", fp, lname); bad += 1; }
                }
                Err(w) => { println!("WITNESS: long-term client fingerprint={} application list '{}', request after 401 + 438: {}", fp, lname, w); bad += 1; }
            }
            if bad > 3 { break; }
        }
    }
    // long-term, user-name anonymity requested by the nonce cookie (bit 1 << 30: "obMatJos2" + base64(40 00 00)): the retry carries
    // USERHASH = SHA-256(username ":" realm) (RFC 8489 14.4) instead of USERNAME; without the bit it carries USERNAME
    for (cookie, anonymous) in [("obMatJos2QAAAanon-nonce", true), ("obMatJos2AAAAplain-nonce", false)] {
        n += 1;
        let mut c = client(Mech::Lt, false);
        let t0 = Instant::now();
        let id1 = c.send_request(BINDING, StunAttributes::default(), vec![0; 1024], t0).expect("send");
        let _ = c.events();
        if c.on_buffer_recv(&error_response(id1, 401, cookie, None), t0 + Duration::from_millis(5)).is_err() { continue; }
        let _ = c.events();
        if c.send_request(BINDING, StunAttributes::default(), vec![0; 1024], t0 + Duration::from_millis(6)).is_err() { continue; }
        let (pk, _) = packets(&mut c);
        if pk.len() != 1 { continue; }
        let (msg, _) = match MessageDecoderBuilder::default().build().decode(&pk[0]) { Ok(x) => x, Err(_) => continue };
        let names = msg.attributes().iter().filter(|a| a.is_user_name()).count();
        let hashes: Vec<Vec<u8>> = msg.attributes().iter().filter(|a| a.is_user_hash()).map(|a| a.expect_user_hash().hash().to_vec()).collect();
        let want = hmac_sha256::Hash::hash(format!("{}:{}", USER, REALM).as_bytes()).to_vec();
        if anonymous && (names != 0 || hashes != vec![want.clone()]) {
            println!("WITNESS: long-term client, nonce cookie with the user-name-anonymity bit: {} USERNAME attribute(s), USERHASH {:02x?}; expected no USERNAME and USERHASH = SHA-256(\"{}:{}\")", names, hashes, USER, REALM); bad += 1;
        }
        if !anonymous && (names != 1 || !hashes.is_empty()) {
            println!("WITNESS: long-term client, nonce cookie without the anonymity bit: {} USERNAME attribute(s), {} USERHASH", names, hashes.len()); bad += 1;
        }
    }
    // credentials are used exactly as configured (the OpaqueString profile keeps ASCII spaces: " pw " and "pw" are different passwords)
    for (user, pass) in [(" padded user ", " padded password "), ("user ", " password"), ("\u{e9}l\u{e8}ve", "se\u{301}same")] {
        n += 1;
        let mut c = match StunClienteBuilder::new(TransportReliability::Unreliable(RttConfig::default()))
            .with_mechanism(user, pass, CredentialMechanism::ShortTerm(None)).build() { Ok(c) => c, Err(_) => continue };
        if c.send_request(BINDING, StunAttributes::default(), vec![0; 1024], Instant::now()).is_err() { continue; }
        let (pk, _) = packets(&mut c);
        if pk.len() != 1 { continue; }
        let key = match HMACKey::new_short_term(pass) { Ok(k) => k, Err(_) => continue };
        let ctx = DecoderContextBuilder::default().with_key(key).with_validation().build();
        match MessageDecoderBuilder::default().with_context(ctx).build().decode(&pk[0]) {
            Ok((msg, _)) => {
                let want = UserName::new(user).map(|u| u.as_str().to_string()).unwrap_or_default();
                let got: Vec<String> = msg.attributes().iter().filter(|a| a.is_user_name()).map(|a| a.expect_user_name().as_str().to_string()).collect();
                if got != vec![want.clone()] { println!("WITNESS: configured user name {:?}: USERNAME on the wire {:?}, expected {:?}", user, got, want); bad += 1; }
            }
            Err(e) => { println!("WITNESS: short-term client configured with password {:?}: the request does not verify under that password: {:?}", pass, e); bad += 1; }
        }
    }
    if bad == 0 && lt_checked == 0 { println!("WITNESS: the long-term client never produced an authenticated request after 401 + 438"); std::process::exit(1); }
    if bad == 0 { println!("ok: {} client x attribute-list x class cases ({} authenticated long-term requests): emitted packets well formed, authenticated and retransmitted identically", n, lt_checked); } else { std::process::exit(1); }
}
