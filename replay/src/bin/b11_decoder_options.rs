//! BOUNDED probe (C09 / C18): every wire message made of up to 4 TLVs from a small alphabet (SOFTWARE, two unregistered types,
//! MESSAGE-INTEGRITY with a right / wrong MAC, MESSAGE-INTEGRITY-SHA256 right / wrong, FINGERPRINT right / wrong; MACs and CRC
//! computed here from RFC 8489 with the digest crates) is decoded under all 16 option combinations and without a context:
//!  - default: exactly the attributes admitted by the RFC 8489 ordering rule (re-implemented here from the property text),
//!    known or not, and only those are validated;
//!  - validation only ever turns Ok into Err; unknown_data only adds the raw bytes of unknown attributes; not_ignore returns every
//!    wire attribute in order and the default result is its admitted subsequence; no context == default context.
use stun_rs::{DecoderContextBuilder, HMACKey, MessageDecoderBuilder, StunAttribute, StunMessage};

#[derive(Clone, Copy, PartialEq, Debug)]
enum K { Soft, UnkA, UnkB, Mi(bool), Sha(bool), Fp(bool) }
fn ty(k: K) -> u16 { match k { K::Soft => 0x8022, K::UnkA => 0x7F01, K::UnkB => 0xFF01, K::Mi(_) => 0x0008, K::Sha(_) => 0x001C, K::Fp(_) => 0x8028 } }

fn crc32(data: &[u8]) -> u32 {        // CRC-32/ISO-HDLC, bitwise
    let mut c = 0xFFFF_FFFFu32;
    for &b in data { c ^= b as u32; for _ in 0..8 { c = if c & 1 != 0 { (c >> 1) ^ 0xEDB8_8320 } else { c >> 1 }; } }
    !c
}
fn build(seq: &[K], key: &[u8]) -> Vec<u8> {
    let mut m = vec![0x01, 0x01, 0, 0, 0x21, 0x12, 0xA4, 0x42];
    m.extend_from_slice(&[5u8; 12]);
    for &k in seq {
        let value: Vec<u8> = match k {
            K::Soft => b"abc".to_vec(), K::UnkA => vec![1, 2, 3, 4, 5], K::UnkB => vec![],
            K::Mi(_) => vec![0; 20], K::Sha(_) => vec![0; 32], K::Fp(_) => vec![0; 4],
        };
        let start = m.len();
        m.extend_from_slice(&ty(k).to_be_bytes());
        m.extend_from_slice(&(value.len() as u16).to_be_bytes());
        m.extend_from_slice(&value);
        while m.len() % 4 != 0 { m.push(0); }
        // the length seen by a MAC / CRC covers the attribute itself
        let l = (m.len() - 20) as u16;
        m[2] = (l >> 8) as u8; m[3] = l as u8;
        match k {
            K::Mi(ok) => { let mut mac = hmac_sha1::hmac_sha1(key, &m[..start]).to_vec(); if !ok { mac[3] ^= 0x10; } m[start + 4..start + 24].copy_from_slice(&mac); }
            K::Sha(ok) => { let mut mac = hmac_sha256::HMAC::mac(&m[..start], key).to_vec(); if !ok { mac[7] ^= 0x01; } m[start + 4..start + 36].copy_from_slice(&mac); }
            K::Fp(ok) => { let mut c = crc32(&m[..start]) ^ 0x5354_554e; if !ok { c ^= 0x100; } m[start + 4..start + 8].copy_from_slice(&c.to_be_bytes()); }
            _ => {}
        }
    }
    m
}
// RFC 8489 ordering rule, from the property text
fn admitted(seq: &[K]) -> Vec<bool> {
    let (mut mi, mut sha, mut fp) = (false, false, false);
    seq.iter().map(|&k| {
        let a = match k {
            K::Mi(_) => !(mi || sha || fp),
            K::Sha(_) => !(sha || fp),
            K::Fp(_) => !fp,
            _ => !(mi || sha || fp),
        };
        match k { K::Mi(_) => if a { mi = true }, K::Sha(_) => if a { sha = true }, K::Fp(_) => if a { fp = true }, _ => {} }
        a
    }).collect()
}
fn good(k: K) -> bool { !matches!(k, K::Mi(false) | K::Sha(false) | K::Fp(false)) }
fn types(m: &StunMessage) -> Vec<u16> { m.attributes().iter().map(|a| a.attribute_type().as_u16()).collect() }
fn strip_unknown_data(m: &StunMessage) -> Vec<String> {
    m.attributes().iter().map(|a| match a { StunAttribute::Unknown(u) => format!("Unknown({:#06x})", u.attribute_type().as_u16()), other => format!("{:?}", other) }).collect()
}

fn main() {
    let pass = "pw";
    let key = HMACKey::new_short_term(pass).unwrap();
    let alphabet = [K::Soft, K::UnkA, K::UnkB, K::Mi(true), K::Mi(false), K::Sha(true), K::Sha(false), K::Fp(true), K::Fp(false)];
    let mut idx: Vec<usize> = Vec::new();
    let mut n = 0usize; let mut bad = 0usize;
    loop {
        let seq: Vec<K> = idx.iter().map(|&i| alphabet[i]).collect();
        let wire = build(&seq, key.as_bytes());
        let adm = admitted(&seq);
        let want_default: Vec<u16> = seq.iter().zip(&adm).filter(|(_, a)| **a).map(|(k, _)| ty(*k)).collect();
        let want_all: Vec<u16> = seq.iter().map(|k| ty(*k)).collect();
        let dec = |validation: bool, with_key: bool, ud: bool, ni: bool| {
            let mut b = DecoderContextBuilder::default();
            if with_key { b = b.with_key(key.clone()); }
            if validation { b = b.with_validation(); }
            if ud { b = b.with_unknown_data(); }
            if ni { b = b.not_ignore(); }
            MessageDecoderBuilder::default().with_context(b.build()).build().decode(&wire)
        };
        let mut fail = |msg: String| { println!("WITNESS: wire attributes {:?}: {}", seq, msg); };
        n += 1;
        let mut errs = 0;
        // no context == default context
        let d0 = MessageDecoderBuilder::default().build().decode(&wire);
        let d1 = dec(false, false, false, false);
        match (&d0, &d1) {
            (Ok((a, _)), Ok((b, _))) => { if format!("{:?}", a.attributes()) != format!("{:?}", b.attributes()) { fail("a decoder without a context differs from one with the default context".into()); errs += 1; } }
            (Err(_), Err(_)) => {}
            _ => { fail("a decoder without a context accepts / rejects differently from the default context".into()); errs += 1; }
        }
        match &d1 {
            Err(e) => { fail(format!("default decoding failed: {:?}", e)); errs += 1; }
            Ok((m, _)) => { if types(m) != want_default { fail(format!("default decoding returned types {:04x?}, the ordering rule admits {:04x?}", types(m), want_default)); errs += 1; } }
        }
        for ud in [false, true] {
            // not_ignore: every wire attribute, in order
            match dec(false, false, ud, true) {
                Err(e) => { fail(format!("not_ignore decoding failed: {:?}", e)); errs += 1; }
                Ok((m, _)) => {
                    if types(&m) != want_all { fail(format!("not_ignore returned types {:04x?} for wire types {:04x?}", types(&m), want_all)); errs += 1; }
                    for a in m.attributes() { if let StunAttribute::Unknown(u) = a {
                        let want: Option<Vec<u8>> = if !ud { None } else if u.attribute_type().as_u16() == 0x7F01 { Some(vec![1, 2, 3, 4, 5]) } else { Some(vec![]) };
                        if u.attribute_data().map(|d| d.to_vec()) != want { fail(format!("unknown attribute {:#06x} carries data {:?} with unknown_data={} (not_ignore)", u.attribute_type().as_u16(), u.attribute_data(), ud)); errs += 1; }
                    } }
                }
            }
            // unknown_data only adds the raw bytes
            if let (Ok((a, _)), Ok((b, _))) = (dec(false, false, false, false), dec(false, false, true, false)) {
                if strip_unknown_data(&a) != strip_unknown_data(&b) { fail("unknown_data changed the attributes other than by adding data".into()); errs += 1; }
                for x in b.attributes() { if let StunAttribute::Unknown(u) = x {
                    let want: Vec<u8> = if u.attribute_type().as_u16() == 0x7F01 { vec![1, 2, 3, 4, 5] } else { vec![] };
                    if u.attribute_data().map(|d| d.to_vec()) != Some(want) { fail(format!("unknown attribute {:#06x} does not carry its raw bytes", u.attribute_type().as_u16())); errs += 1; }
                } }
            }
            // validation: succeeds exactly when every *admitted* verifiable attribute is right (with the key), and then changes nothing
            for ni in [false, true] {
                // without a key: validation may fail, but if it succeeds it changes nothing
                if let (Ok((p, _)), Ok((v, _))) = (dec(false, false, ud, ni), dec(true, false, ud, ni)) {
                    if format!("{:?}", p.attributes()) != format!("{:?}", v.attributes()) { fail(format!("validation without a key changed the decoded message (unknown_data={} not_ignore={})", ud, ni)); errs += 1; }
                }
                let plain = dec(false, true, ud, ni);
                let val = dec(true, true, ud, ni);
                let checked_ok = seq.iter().zip(&adm).all(|(k, a)| good(*k) || !(*a || ni));
                match (&plain, &val) {
                    (Ok((p, _)), Ok((v, _))) => {
                        if format!("{:?}", p.attributes()) != format!("{:?}", v.attributes()) { fail(format!("validation changed the decoded message (unknown_data={} not_ignore={})", ud, ni)); errs += 1; }
                        if !checked_ok { fail(format!("validation accepted a wrong MAC / CRC in a returned attribute (unknown_data={} not_ignore={})", ud, ni)); errs += 1; }
                    }
                    (Ok(_), Err(e)) => { if checked_ok && !ni {   // (with not_ignore a repeated MAC / CRC attribute is checked against the text of the first one: not constrained here)
                        fail(format!("validation failed ({:?}) although every returned verifiable attribute is right (unknown_data={} not_ignore={})", e, ud, ni)); errs += 1; } }
                    (Err(_), Ok(_)) => { fail("validated decoding succeeds where plain decoding fails".into()); errs += 1; }
                    (Err(_), Err(_)) => {}
                }
            }
        }
        if errs > 0 { bad += 1; if bad > 3 { break; } }
        let mut j = 0;
        while j < idx.len() { idx[j] += 1; if idx[j] < alphabet.len() { break; } idx[j] = 0; j += 1; }
        if j == idx.len() { if idx.len() == 4 { break; } idx.push(0); }
    }
    if bad == 0 { println!("ok: {} wire messages x option combinations", n); } else { std::process::exit(1); }
}
