// boundary values of every attribute kind (shared by the bounded probes b1 and b9; `include!`d)
use std::net::{IpAddr, Ipv4Addr, Ipv6Addr, SocketAddr};
use stun_rs::attributes::discovery::*;
use stun_rs::attributes::ice::*;
use stun_rs::attributes::mobility::*;
use stun_rs::attributes::stun::*;
use stun_rs::attributes::turn::*;
use stun_rs::*;

fn values() -> Vec<StunAttribute> {
    let v4 = IpAddr::V4(Ipv4Addr::new(192, 0, 2, 1));
    let v6 = IpAddr::V6(Ipv6Addr::new(0x2001, 0xdb8, 0x1234, 0x5678, 0x11, 0x2233, 0x4455, 0x6677));
    let mut v: Vec<StunAttribute> = Vec::new();
    // an IPv4-mapped IPv6 address is an IPv6 address on the wire (family 2, 16 bytes) and comes back as one
    let v6m = IpAddr::V6(Ipv6Addr::new(0, 0, 0, 0, 0, 0xffff, 0xc000, 0x0201));
    for ip in [v4, v6, v6m] {
        for port in [0u16, 1, 0x2112, 0xffff] {
            v.push(MappedAddress::new(ip, port).into());
            v.push(AlternateServer::new(ip, port).into());
            v.push(XorMappedAddress::from(SocketAddr::new(ip, port)).into());
            v.push(XorPeerAddress::from(SocketAddr::new(ip, port)).into());
            v.push(XorRelayedAddress::from(SocketAddr::new(ip, port)).into());
            v.push(OtherAddress::new(ip, port).into());
            v.push(ResponseOrigin::new(ip, port).into());
        }
    }
    for code in 300u16..700 {
        if code % 37 == 0 || code % 100 == 0 || code % 100 == 99 || code == 699 {
            for reason in ["", "x", &"r".repeat(508), &"r".repeat(509), "caf\u{e9} \u{30de}"] {
                let e = stun_rs::ErrorCode::new(code, reason).unwrap();
                v.push(stun_rs::attributes::stun::ErrorCode::new(e.clone()).into());
                v.push(AddressErrorCode::new(AddressFamily::IPv4, e.clone()).into());
                v.push(AddressErrorCode::new(AddressFamily::IPv6, e).into());
            }
        }
    }
    for n in [0usize, 1, 2, 3, 4, 5, 127, 508, 509] {
        let s = "s".repeat(n);
        v.push(Software::new(s.as_str()).unwrap().into());
        v.push(Padding::new(s.as_str()).unwrap().into());
        if n > 0 { v.push(Nonce::new(s.as_str()).unwrap().into()); v.push(Realm::new(s.as_str()).unwrap().into()); }
        if n > 0 && n < 509 { v.push(UserName::new(s.as_str()).unwrap().into()); }
        v.push(Data::new(vec![0xA5u8; n]).into());
        v.push(MobilityTicket::new(vec![0x5Au8; n]).into());
    }
    v.push(Nonce::new_nonce_cookie("abc", None).unwrap().into());
    v.push(UserHash::new("user", "realm").unwrap().into());
    for x in [0u32, 1, 0x7fff_ffff, 0xffff_ffff] { v.push(Priority::new(x).into()); v.push(LifeTime::new(x).into()); }
    for x in [0u64, 1, u64::MAX] { v.push(IceControlled::new(x).into()); v.push(IceControlling::new(x).into()); }
    for x in [0u16, 1, 0x4000, 0xffff] { v.push(ResponsePort::new(x).into()); v.push(ChannelNumber::new(x).into()); }
    v.push(UseCandidate::default().into());
    v.push(DontFragment::default().into());
    v.push(EvenPort::new(true).into());
    v.push(EvenPort::new(false).into());
    v.push(RequestedTrasport::default().into());
    v.push(RequestedAddressFamily::new(AddressFamily::IPv4).into());
    v.push(RequestedAddressFamily::new(AddressFamily::IPv6).into());
    v.push(AdditionalAddressFamily::new(AddressFamily::IPv6).into());
    v.push(ReservationToken::from([1u8, 2, 3, 4, 5, 6, 7, 8]).into());
    for (t, c) in [(0u8, 0u16), (127, 511), (3, 1), (11, 256)] {
        v.push(Icmp::new(IcmpType::new(t).unwrap(), IcmpCode::new(c).unwrap(), [9, 8, 7, 6]).into());
    }
    v.push(ChangeRequest::new(None).into());
    v.push(ChangeRequest::new(Some(ChangeRequestFlags::ChangeIp | ChangeRequestFlags::ChangePort)).into());
    let mut ua = UnknownAttributes::default();
    v.push(ua.clone().into());
    for t in [0x0001u16, 0x8022, 0xffff] { ua.add(t); v.push(ua.clone().into()); }
    // (the list keeps the order in which the types were added: not sorted)
    let mut ub = UnknownAttributes::default();
    for t in [0x8022u16, 0x0019, 0x0002, 0x7fff, 0x0003] { ub.add(t); }
    v.push(ub.into());
    for id in [AlgorithmId::MD5, AlgorithmId::SHA256, AlgorithmId::Unassigned(77)] {
        for plen in 0usize..=5 {
            let params = vec![0xEEu8; plen];
            let a = if plen == 0 { Algorithm::from(id) } else { Algorithm::new(id, params.as_slice()) };
            v.push(PasswordAlgorithm::new(a).into());
        }
    }
    // PASSWORD-ALGORITHMS: all lists of up to 4 entries with parameter lengths from {0, 1, 4, 5}
    let lens = [0usize, 1, 4, 5];
    for n in 0..=4usize {
        let mut idx = vec![0usize; n];
        loop {
            let mut pa = PasswordAlgorithms::default();
            for (k, &i) in idx.iter().enumerate() {
                let params = vec![k as u8 + 1; lens[i]];
                let a = if lens[i] == 0 { Algorithm::from(AlgorithmId::SHA256) } else { Algorithm::new(AlgorithmId::Unassigned(100 + k as u16), params.as_slice()) };
                pa.add(PasswordAlgorithm::new(a));
            }
            v.push(pa.into());
            let mut j = 0;
            while j < n { idx[j] += 1; if idx[j] < lens.len() { break; } idx[j] = 0; j += 1; }
            if j == n { break; }
        }
    }
    v
}

