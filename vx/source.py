"""Lexical scanner and item finder over rustc's `-Zunpretty=expanded` text.

Nothing here understands Rust beyond brackets, strings, comments and item
headers; that is enough to cut whole items out of the expansion by path.
"""
import re


class ExtractError(Exception):
    """Anchor lost / ambiguous / construct the extractor cannot handle -> UNDECIDED (exit 2)."""


def mask(text):
    """Same-length copy of `text` with string/char literals and comments blanked.

    Structural scanning (brackets, keywords) is done on the mask; indices are
    valid in the original text.
    """
    out = list(text)
    n = len(text)
    i = 0
    while i < n:
        c = text[i]
        if c == '/' and i + 1 < n and text[i + 1] == '/':
            j = text.find('\n', i)
            if j < 0:
                j = n
            for k in range(i, j):
                out[k] = ' '
            i = j
        elif c == '/' and i + 1 < n and text[i + 1] == '*':
            depth = 1
            j = i + 2
            while j < n and depth:
                if text.startswith('/*', j):
                    depth += 1
                    j += 2
                elif text.startswith('*/', j):
                    depth -= 1
                    j += 2
                else:
                    j += 1
            for k in range(i, j):
                if out[k] != '\n':
                    out[k] = ' '
            i = j
        elif c == '"' or (c in 'br' and _raw_or_byte_string_at(text, i)):
            j = _string_end(text, i)
            for k in range(i, j):
                if out[k] != '\n':
                    out[k] = ' '
            # keep a marker so that a literal is still "something" to tokenisers
            out[i] = '"'
            out[j - 1] = '"'
            i = j
        elif c == "'":
            # char literal or lifetime
            if i + 2 < n and text[i + 1] == '\\':
                j = text.find("'", i + 2)
                # handle '\'' : the escaped quote
                if text[i + 2] == "'":
                    j = text.find("'", i + 3)
                for k in range(i, j + 1):
                    out[k] = ' '
                i = j + 1
            elif i + 2 < n and text[i + 2] == "'":
                for k in range(i, i + 3):
                    out[k] = ' '
                i += 3
            else:
                # multi-byte char literal like 'é' (python str: single code point) handled above;
                # otherwise a lifetime
                i += 1
        else:
            i += 1
    return ''.join(out)


def _raw_or_byte_string_at(text, i):
    # only treat as a literal prefix when not part of an identifier
    if i > 0 and (text[i - 1].isalnum() or text[i - 1] == '_'):
        return False
    m = re.match(r'(b?r#*"|b")', text[i:i + 12])
    return bool(m)


def _string_end(text, i):
    m = re.match(r'b?r(#*)"', text[i:i + 12])
    if m:
        hashes = m.group(1)
        close = '"' + hashes
        j = text.find(close, i + len(m.group(0)))
        if j < 0:
            raise ExtractError('unterminated raw string')
        return j + len(close)
    if text[i] == 'b':
        i += 1
    j = i + 1
    n = len(text)
    while j < n:
        if text[j] == '\\':
            j += 2
        elif text[j] == '"':
            return j + 1
        else:
            j += 1
    raise ExtractError('unterminated string')


OPEN = {'(': ')', '[': ']', '{': '}'}
CLOSE = {')': '(', ']': '[', '}': '{'}


def match_close(m, i):
    """m: masked text, i: index of an opening bracket. Returns index of its partner."""
    stack = []
    n = len(m)
    j = i
    while j < n:
        c = m[j]
        if c in OPEN:
            stack.append(c)
        elif c in CLOSE:
            if not stack or stack[-1] != CLOSE[c]:
                raise ExtractError('unbalanced bracket at %d' % j)
            stack.pop()
            if not stack:
                return j
        j += 1
    raise ExtractError('unclosed bracket at %d' % i)


ITEM_KW = ('mod', 'fn', 'struct', 'enum', 'impl', 'const', 'static', 'type', 'trait', 'use',
           'macro_rules!', 'extern', 'union')
_QUAL = re.compile(r'(pub(\s*\([^)]*\))?|unsafe|async|default|const(?=\s+(fn|unsafe|async))|extern(\s*"[^"]*")?(?=\s+fn))\s+')
_WS = re.compile(r'\s+')


class Item:
    __slots__ = ('kind', 'name', 'header', 'start', 'hstart', 'end', 'body_open', 'body_close', 'text_ref')

    def __repr__(self):
        return 'Item(%s %s @%d-%d)' % (self.kind, self.name, self.start, self.end)


def norm(s):
    return _WS.sub(' ', s).strip()


def scan_items(text, m, start, end):
    """Items directly inside text[start:end] (a module or impl body)."""
    items = []
    i = start
    while i < end:
        # skip whitespace
        while i < end and m[i].isspace():
            i += 1
        if i >= end:
            break
        item_start = i
        # attributes
        while m.startswith('#', i):
            j = i + 1
            if m[j] == '!':
                j += 1
            while m[j].isspace():
                j += 1
            if m[j] != '[':
                raise ExtractError('odd attribute at %d' % i)
            i = match_close(m, j) + 1
            while i < end and m[i].isspace():
                i += 1
        hstart = i
        # qualifiers
        while True:
            q = _QUAL.match(m, i)
            if not q:
                break
            i = q.end()
        kw = None
        for k in ITEM_KW:
            if m.startswith(k, i) and not (m[i + len(k)].isalnum() or m[i + len(k)] == '_'):
                kw = k
                break
        if kw is None:
            if m[i] == ';':
                i += 1
                continue
            # macro invocation item e.g. `foo! { .. }` or unknown: skip to ; or matching }
            j = i
            while j < end and m[j] not in '{;':
                if m[j] in '([':
                    j = match_close(m, j)
                j += 1
            if j < end and m[j] == '{':
                j = match_close(m, j)
            i = j + 1
            continue
        it = Item()
        it.kind = kw
        it.start = item_start
        it.hstart = hstart
        after = i + len(kw)
        if kw in ('const', 'static', 'type', 'use'):
            j = after
            while m[j] != ';':
                if m[j] in OPEN:
                    j = match_close(m, j)
                j += 1
            it.end = j + 1
            it.body_open = it.body_close = None
            it.header = norm(text[hstart:j])
            nm = re.match(r'\s*(mut\s+)?([A-Za-z_][A-Za-z0-9_]*)', m[after:])
            it.name = nm.group(2) if nm else ''
        else:
            j = after
            while m[j] not in '{;':
                if m[j] in '([':
                    j = match_close(m, j)
                j += 1
            it.header = norm(text[hstart:j])
            if m[j] == '{':
                it.body_open = j
                it.body_close = match_close(m, j)
                it.end = it.body_close + 1
            else:
                it.body_open = it.body_close = None
                it.end = j + 1
            if kw == 'impl':
                it.name = norm(text[i:j])          # 'impl<..> X for Y'
            elif kw == 'macro_rules!':
                it.name = norm(text[after:j])
            else:
                nm = re.match(r'\s*([A-Za-z_][A-Za-z0-9_]*)', m[after:])
                it.name = nm.group(1) if nm else ''
        items.append(it)
        i = it.end
    return items


class Source:
    """An expanded crate plus lazy item tree."""

    def __init__(self, name, text):
        self.name = name
        self.text = text
        self.m = mask(text)
        self._children = {}

    def children(self, parent):
        key = None if parent is None else parent.start
        if key not in self._children:
            if parent is None:
                self._children[key] = scan_items(self.text, self.m, 0, len(self.text))
            elif parent.body_open is None:
                self._children[key] = []
            else:
                self._children[key] = scan_items(self.text, self.m, parent.body_open + 1, parent.body_close)
        return self._children[key]

    def resolve(self, path):
        """path: 'mod a > impl X for Y > fn f'  -> Item (unique) or ExtractError."""
        segs = [norm(s) for s in re.split(r'\s+>\s+', path)]
        cands = [None]
        for seg in segs:
            nxt = []
            occurrence = None
            mo = re.match(r'(.*)#(\d+)$', seg)
            if mo:
                seg, occurrence = mo.group(1).strip(), int(mo.group(2))
            for c in cands:
                found = [it for it in self.children(c) if _seg_match(it, seg)]
                nxt.extend(found)
            if occurrence is not None:
                if occurrence > len(nxt) or occurrence < 1:
                    raise ExtractError('%s: occurrence #%d of "%s" not found in %s' % (self.name, occurrence, seg, path))
                nxt = [nxt[occurrence - 1]]
            if not nxt:
                raise ExtractError('%s: anchor lost: "%s" of path "%s"' % (self.name, seg, path))
            cands = nxt
        if len(cands) != 1:
            raise ExtractError('%s: ambiguous path "%s" (%d matches)' % (self.name, path, len(cands)))
        return cands[0]

    def item_text(self, it):
        return self.text[it.hstart:it.end]


def _strip_paths(name):
    return re.sub(r'(?<![A-Za-z0-9_])(?:::)?(?:[A-Za-z_][A-Za-z0-9_]*::)+', '', name)


def _seg_match(it, seg):
    parts = seg.split(' ', 1)
    kw = parts[0]
    rest = parts[1] if len(parts) > 1 else ''
    if kw == 'impl' or kw.startswith('impl<'):
        # module qualifiers of the trait / type path are not significant (`impl crate::attributes::Tr for T` == `impl Tr for T`)
        return it.kind == 'impl' and (it.name == norm(seg) or _strip_paths(it.name) == _strip_paths(norm(seg)))
    if kw == 'macro_rules!':
        return it.kind == kw and it.name == rest
    return it.kind == kw and it.name == rest
