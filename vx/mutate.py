"""Apply a patch to a scratch copy of /repo and run checks against it (never touches /repo).

usage: python3 -m vx.mutate <patch.diff> <Cxx> [<Cxx> ...] [--tier quick]
Prints each check's verdict line; exit 0 iff at least one check reported a VIOLATION.
"""
import os
import shutil
import subprocess
import sys
import tempfile

from . import expand

ROOT = os.path.dirname(os.path.dirname(os.path.abspath(__file__)))


def run(patch, props, tier='quick', compile_check=False):
    scratch = tempfile.mkdtemp(prefix='vx-mut.', dir='/var/tmp')
    results = {}
    try:
        for f in expand._tree_files('/repo'):
            dst = os.path.join(scratch, os.path.relpath(f, '/repo'))
            os.makedirs(os.path.dirname(dst), exist_ok=True)
            shutil.copy2(f, dst)
        r = subprocess.run(['patch', '-p1', '-s', '-i', os.path.abspath(patch)], cwd=scratch,
                           stdout=subprocess.PIPE, stderr=subprocess.STDOUT, text=True)
        if r.returncode != 0:
            return {'_error': 'patch failed: ' + r.stdout}
        env = dict(os.environ, VX_REPO=scratch)
        for p in props:
            rr = subprocess.run([os.path.join(ROOT, 'bin', 'check'), p, '--tier', tier], env=env, cwd=ROOT,
                                stdout=subprocess.PIPE, stderr=subprocess.STDOUT, text=True)
            results[p] = (rr.returncode, rr.stdout.strip())
    finally:
        shutil.rmtree(scratch, ignore_errors=True)
    return results


if __name__ == '__main__':
    args = [a for a in sys.argv[1:] if not a.startswith('--')]
    res = run(args[0], args[1:])
    killed = False
    for p, v in res.items():
        if p == '_error':
            print(v)
            sys.exit(3)
        print('== %s exit=%d\n%s' % (p, v[0], v[1]))
        killed = killed or v[0] == 1
    sys.exit(0 if killed else 1)
