"""Glue: sources -> units -> Verus -> named obligations -> property verdicts and evidence."""
import concurrent.futures
import hashlib
import json
import os
import re
import sys
import time

from . import expand, unit as unitmod, verus
from .source import ExtractError, Source, norm

ROOT = os.path.dirname(os.path.dirname(os.path.abspath(__file__)))
SPECS = os.path.join(ROOT, 'specs')

MSG_KIND = [
    ('postcondition', 'ensures'),
    ('precondition', 'requires'),
    ('invariant', 'invariant'),
    ('assertion', 'assert'),
    ('underflow/overflow', 'overflow'),
    ('division by zero', 'divzero'),
    ('decreases', 'decreases'),
    ('termination', 'decreases'),
    ('bit shift', 'shift'),
    ('out of range', 'overflow'),
]

TRUST_PATTERNS = [
    ('external_body', re.compile(r'#\[verifier::external_body\]')),
    ('assume_specification', re.compile(r'(?<![A-Za-z0-9_])assume_specification(?![A-Za-z0-9_])')),
    ('admit', re.compile(r'(?<![A-Za-z0-9_])admit\s*\(')),
    ('assume', re.compile(r'(?<![A-Za-z0-9_])assume\s*\(')),
    ('axiom', re.compile(r'(?<![A-Za-z0-9_])(broadcast\s+)?(axiom|proof)\s+fn\s+axiom_[A-Za-z0-9_]*')),
    ('external_type_specification', re.compile(r'#\[verifier::external_type_specification\]')),
    ('uninterp', re.compile(r'(?<![A-Za-z0-9_])uninterp\s+spec\s+fn\s+[A-Za-z0-9_]+')),
    ('external', re.compile(r'#\[verifier::external\]')),
]


def load_sources():
    texts, info = expand.expand()
    return {k: Source(k, v) for k, v in texts.items()}, info


def template_path(name):
    return os.path.join(SPECS, name + '.vx.rs')


def read_template(name, seen=None):
    """Template text with `//@include <file>` lines replaced by the file's content (relative to specs/)."""
    seen = seen or set()
    p = template_path(name) if not name.endswith('.rs') else os.path.join(SPECS, name)
    with open(p) as fh:
        text = fh.read()
    out = []
    for ln in text.split('\n'):
        mo = re.match(r'^\s*//@include\s+(\S+)\s*$', ln)
        if mo:
            inc = mo.group(1)
            if inc in seen:
                raise ExtractError('recursive include %s' % inc)
            out.append(read_template(inc, seen | {inc}).rstrip('\n'))
        else:
            out.append(ln)
    return '\n'.join(out)


class Failure:
    def __init__(self):
        self.id = ''
        self.kind = ''        # semantic | resource | other
        self.message = ''
        self.fn = ''
        self.tags = []
        self.where = ''       # human readable location
        self.clause = ''
        self.rendered = ''
        self.src_path = None

    def to_json(self):
        return {'obligation': self.id, 'class': self.kind, 'message': self.message, 'function': self.fn,
                'tags': self.tags, 'where': self.where, 'clause': self.clause}


class UnitReport:
    def __init__(self, name):
        self.name = name
        self.unit = None
        self.result = None
        self.failures = []
        self.functions = []
        self.sentinel_rejected = False
        self.error = None           # extraction / tool error -> UNDECIDED
        self.trusted = []
        self.clauses = 0
        self.text_hash = ''
        self.fn_tags = {}
        self.isolated = []


def _short(msg):
    low = msg.lower()
    for k, v in MSG_KIND:
        if k in low:
            return v
    return 'other'


def _tags_for_line(unit, lineno):
    spec, it = unit.item_at(lineno)
    if spec is not None:
        return list(spec.tags), '%s :: %s' % (spec.crate, spec.path)
    # template function: look backwards for `// props: ...` directly above the fn
    k = lineno
    while k >= 1 and not verus._FN_RE.search(unit.lines[k - 1].text):
        k -= 1
    k -= 1
    tags = []
    while k >= 1:
        t = unit.lines[k - 1].text.strip()
        if t.startswith('//'):
            mo = re.search(r'props:\s*(.*)$', t)
            if mo:
                tags += mo.group(1).split()
            k -= 1
        elif t.startswith('#['):
            k -= 1
        else:
            break
    return tags, None


def _owner(spec):
    """`.. > impl<'a> Tr for a::b::Ty<'a> > fn f` -> 'Ty' (None for free functions)"""
    segs = re.split(r'\s+>\s+', spec.path.strip())
    for sg in reversed(segs[:-1]):
        sg = sg.strip()
        if sg.startswith('impl'):
            t = re.sub(r'^impl\s*(<[^>]*>)?\s*', '', sg)
            if ' for ' in t:
                t = t.split(' for ', 1)[1]
            t = re.sub(r'<.*$', '', t.strip())
            t = t.split('::')[-1].strip().lstrip('&').strip()
            return re.sub(r'[^A-Za-z0-9_]', '', t) or None
        if sg.startswith('mod '):
            continue
    return None


def _locate(u, d, ambiguous):
    """(fn label, tags, item path) of a diagnostic: a span inside an extracted item wins over the primary span, so a
    failed clause of a *trait* contract is attributed to the impl function whose body failed it"""
    spans = [d.primary] + list(d.secondary) if d.primary else list(d.secondary)
    for sp in spans:
        ln = sp.get('line_start', 0)
        spec, it = u.item_at(ln)
        if spec is not None and it.kind == 'fn':
            own = _owner(spec)
            label = '%s::%s' % (own, it.name) if (own and it.name in ambiguous) else it.name
            return label, list(spec.tags), '%s :: %s' % (spec.crate, spec.path)
    return None, None, None


def scan_trusted(unit):
    found = []
    lines = unit.lines
    cur_impl = ''
    for i, gl in enumerate(lines):
        t = gl.text
        if t.lstrip().startswith('//'):
            continue
        mo = re.match(r'^\s*impl\b(.*?)\{?\s*$', t)
        if mo and not t.startswith('        '):
            cur_impl = norm(mo.group(1))
            cur_impl = re.sub(r'^<[^>]*>\s*', '', cur_impl)
        elif t.startswith('}'):
            cur_impl = ''
        for kind, pat in TRUST_PATTERNS:
            if pat.search(t):
                desc = t.strip()
                if kind in ('external_body', 'external_type_specification', 'external'):
                    for k in range(i, min(i + 6, len(lines))):
                        mo = re.search(r'(fn|struct|enum)\s+([A-Za-z_][A-Za-z0-9_]*)', lines[k].text)
                        if mo:
                            desc = mo.group(0)
                            if mo.group(1) == 'fn' and cur_impl:
                                desc = 'fn %s::%s' % (cur_impl, mo.group(2))
                            break
                    mi = re.search(r'//\s*vx-import:(\w+)', t)
                    if mi:
                        # not an assumption of the whole check: the same contract text is an obligation of that unit
                        kind = 'imported contract (proved in unit %s)' % mi.group(1)
                elif kind == 'assume_specification':
                    mo = re.search(r'assume_specification.*?\[\s*(.*?)\s*\]\s*\(', t)
                    desc = mo.group(1).strip() if mo else desc
                elif kind == 'uninterp':
                    mo = re.search(r'fn\s+([A-Za-z0-9_]+)', t)
                    desc = 'spec fn %s%s' % ((cur_impl + '::') if cur_impl else '', mo.group(1))
                found.append('%s: %s' % (kind, norm(desc)[:120]))
    seen = set()
    out = []
    for f in found:
        if f not in seen:
            seen.add(f)
            out.append(f)
    return out


def count_clauses(unit):
    n = 0
    for gl in unit.lines:
        t = gl.text.strip()
        if t.startswith('//'):
            continue
        if re.match(r'(requires|ensures|invariant|decreases|assert)\b', t) or \
           (gl.origin[0] == 'spec' and t.endswith(',') and not t.startswith(('requires', 'ensures', 'invariant', 'decreases'))):
            n += 1
    return n


HINT_KINDS = ('before', 'after', 'stmt', 'at', 'head', 'tail', 'loopstart', 'loopend')


def _blank_assert(text_lines, line, col):
    """blank (keep the line structure) the `assert ...;` statement that contains position (line, col), 1-based; -> bool"""
    # offsets
    starts = [0]
    for l in text_lines:
        starts.append(starts[-1] + len(l) + 1)
    full = '\n'.join(text_lines)
    from .source import mask as _mask
    m = _mask(full)
    pos = starts[line - 1] + max(col - 1, 0)
    a = m.rfind('assert', 0, pos + 6)
    if a < 0 or (a > 0 and (m[a - 1].isalnum() or m[a - 1] == '_')):
        return False
    # no statement boundary between the keyword and the reported position
    if ';' in m[a:pos]:
        return False
    j = a
    depth = 0
    by_block = False
    end = None
    while j < len(m):
        c = m[j]
        if c in '([{':
            if c == '{' and depth == 0 and re.search(r'\bby\s*$', m[a:j]):
                by_block = True
            depth += 1
        elif c in ')]}':
            depth -= 1
            if depth < 0:
                return False
            if depth == 0 and c == '}' and by_block:
                end = j + 1
                # optional trailing semicolon
                k = end
                while k < len(m) and m[k] in ' \t':
                    k += 1
                if k < len(m) and m[k] == ';':
                    end = k + 1
                break
        elif c == ';' and depth == 0:
            end = j + 1
            break
        j += 1
    if end is None:
        return False
    blanked = ''.join(ch if ch == '\n' else ' ' for ch in full[a:end])
    new = full[:a] + blanked + full[end:]
    text_lines[:] = new.split('\n')
    return True


def verify_unit(name, sources, rlimit=None, keep_dir=None, extra=None):
    rep = UnitReport(name)
    try:
        tmpl = read_template(name)
        u = unitmod.build_unit(name, tmpl, sources, read_template)
    except ExtractError as e:
        rep.error = 'extraction: %s' % e
        return rep
    except OSError as e:
        rep.error = 'template: %s' % e
        return rep
    rep.unit = u
    text = u.text()
    rep.text_hash = hashlib.sha256(text.encode()).hexdigest()[:16]
    rep.trusted = scan_trusted(u)
    rep.clauses = count_clauses(u)
    res = verus.run(text, name, rlimit=rlimit, keep_dir=keep_dir, extra=extra)
    rep.result = res
    if res.crashed:
        rep.error = 'verus crashed or produced no JSON: %s' % (res.raw_stderr[-1500:])
        return rep
    # Stability filter: a function that failed in the whole-unit run is re-verified on its own (fresh solver
    # state). Only diagnostics that reproduce in isolation are kept; a function that verifies in isolation has
    # all its obligations discharged. This removes order-dependent solver flakiness, never a real failure.
    diags = res.diags
    rep.isolated = []
    failed_fns = [fb['function'] for fb in res.functions
                  if not fb['success'] and not fb['function'].endswith('::' + verus.SENTINEL)]
    has_nonsem = any(d.level == 'error' and d.kind() == 'other' for d in res.diags)
    if failed_fns and not has_nonsem and os.environ.get('VX_NO_ISOLATE') != '1':
        keep = [d for d in res.diags if d.level != 'error' or verus.enclosing_fn(u, d.line) == verus.SENTINEL]
        for full in failed_fns:
            short = full.split('::', 1)[1] if '::' in full else full
            r2 = verus.run(text, name, rlimit=rlimit, extra=['--verify-root', '--verify-function', short])
            ok2 = (not r2.crashed) and r2.errors == 0 and r2.verified >= 1
            rep.isolated.append({'function': full, 'verified_in_isolation': ok2})
            if r2.crashed or (r2.verified == 0 and r2.errors == 0):
                # could not isolate (name not unique?): keep the original diagnostics for this function
                last = full.split('::')[-1]
                keep += [d for d in res.diags if d.level == 'error' and verus.enclosing_fn(u, d.line) == last]
                continue
            if ok2:
                for fb in res.functions:
                    if fb['function'] == full:
                        fb['success'] = True
                        fb['note'] = 'verified in isolation after an unstable whole-unit run'
            else:
                # Stale proof hints: when everything that fails in the function is an `assert` of a spliced proof hint (not a
                # contract clause, not a loop invariant, not an obligation of the code itself), the function is re-verified
                # with those asserts removed - a hint placed for one statement order may simply be false for another, and
                # Verus assumes a failed assert afterwards, which would hide what the code really does. Removing an assert
                # can never make a wrong function verify: if it now verifies, its contract holds; if not, the failures of
                # that run (now about the contract) are the ones reported.
                cur_diags = [d for d in r2.diags if d.level == 'error']
                work = text.split('\n')
                dropped = 0
                for _round in range(3):
                    errs = cur_diags

                    def is_hint(d):
                        o = u.origin(d.line) if d.line else ('?',)
                        return 'assertion failed' in d.message.lower() and o[0] == 'spec' and o[2] in HINT_KINDS
                    if not errs or not all(is_hint(d) for d in errs):
                        break
                    n0 = dropped
                    for d in errs:
                        if _blank_assert(work, d.line, d.primary.get('column_start', 1) if d.primary else 1):
                            dropped += 1
                    if dropped == n0:
                        break
                    r3 = verus.run('\n'.join(work), name, rlimit=rlimit, extra=['--verify-root', '--verify-function', short])
                    if r3.crashed or (r3.verified == 0 and r3.errors == 0):
                        break
                    cur_diags = [d for d in r3.diags if d.level == 'error']
                    if r3.errors == 0 and r3.verified >= 1:
                        cur_diags = []
                        for fb in res.functions:
                            if fb['function'] == full:
                                fb['success'] = True
                                fb['note'] = 'verified after %d stale proof hint(s) (asserts spliced by the template) were dropped' % dropped
                        rep.isolated[-1]['verified_without_stale_hints'] = dropped
                        break
                keep += cur_diags
        diags = keep
    sent_fail = False
    counts = {}
    for spec, it, a, b in u.items:
        if it.kind == 'fn':
            counts[it.name] = counts.get(it.name, 0) + 1
    ambiguous = set(k for k, v in counts.items() if v > 1)
    for d in diags:
        if d.level != 'error':
            continue
        ln = d.line
        fn = verus.enclosing_fn(u, ln) if ln else '?'
        # for postconditions the primary span is the clause; for body obligations it is the statement
        if fn == verus.SENTINEL:
            sent_fail = True
            continue
        f = Failure()
        f.kind = d.kind()
        f.message = d.message
        f.fn = fn
        f.rendered = d.rendered
        origin = u.origin(ln)
        line_text = norm(u.lines[ln - 1].text) if 1 <= ln <= len(u.lines) else ''
        tags, ipath = _tags_for_line(u, ln)
        lfn, ltags, lpath = _locate(u, d, ambiguous)
        if lfn is not None:
            fn = lfn
            f.fn = fn
            if ipath is None:
                tags, ipath = ltags, lpath
        f.tags = tags
        f.src_path = ipath
        if ipath and ipath in u.log.get('degraded', {}) and f.kind == 'semantic':
            # the function was extracted without some of its proof hints (their place in the code is gone): a proof that does
            # not go through then says nothing about the code
            f.kind = 'other'
            f.message = 'proof hints could not be placed (%s); then: %s' % ('; '.join(u.log['degraded'][ipath])[:200], f.message)
        short = _short(d.message)
        clause = line_text
        if short == 'requires' and d.secondary:
            # secondary span: the callee's failed clause
            s = d.secondary[0]
            ctext = norm(s['text'][0]['text']) if s.get('text') else ''
            clause = '%s  [callee clause: %s]' % (line_text, ctext)
        if short == 'ensures' and d.secondary:
            pass
        f.clause = clause
        snippet = re.sub(r'\s+', ' ', line_text)[:90]
        f.id = '%s/%s/%s:%s' % (name, fn, short, snippet)
        if origin[0] == 'spec':
            f.where = 'contract clause (specs/%s.vx.rs line %s) on %s' % (name, origin[4], ipath or fn)
        elif origin[0] == 'src':
            f.where = 'extracted source of %s' % (ipath or fn)
        else:
            f.where = 'specs/%s.vx.rs line %s' % (name, origin[1])
        rep.failures.append(f)
    # sentinel must have failed
    sent = [fb for fb in res.functions if fb['function'].endswith('::' + verus.SENTINEL)]
    rep.sentinel_rejected = sent_fail or (bool(sent) and not sent[0]['success'])
    rep.functions = [fb for fb in res.functions if not fb['function'].endswith('::' + verus.SENTINEL)]
    # function -> tags map (by fn name, conservative: union over items with that name)
    by_name = {}
    for spec, it, a, b in u.items:
        if it.kind == 'fn':
            by_name.setdefault(it.name, []).append(spec.tags)
    rep.fn_tags = by_name
    if res.verified == 0 and not res.functions and not rep.failures:
        rep.error = 'verus verified nothing (syntax error in the generated unit?): %s' % res.raw_stderr[-1200:]
    if not res.diags and not res.ok and res.errors == 0:
        rep.error = 'verus reported failure without diagnostics: %s' % res.raw_stderr[-800:]
    return rep


def fn_relevant(rep, fnname, prop):
    """is the verified function `a::b::name` an obligation of `prop`? untagged -> supports every property of the unit"""
    last = fnname.split('::')[-1]
    tl = rep.fn_tags.get(last)
    if tl is None:
        # template function: find its props comment
        u = rep.unit
        for i, gl in enumerate(u.lines):
            mo = verus._FN_RE.search(gl.text)
            if mo and mo.group(1) == last and gl.origin[0] == 'tmpl':
                tags, _ = _tags_for_line(u, i + 1)
                return (not tags) or prop in tags
        return True
    for tags in tl:
        if not tags or prop in tags:
            return True
    return False


# ---------------------------------------------------------------- developer entry point

def dev_main(argv):
    import argparse
    ap = argparse.ArgumentParser()
    ap.add_argument('unit')
    ap.add_argument('--keep', default=os.path.join('/var/tmp', 'vx-dev'))
    ap.add_argument('--no-run', action='store_true')
    ap.add_argument('--rlimit', type=int)
    ap.add_argument('-v', action='store_true')
    a = ap.parse_args(argv)
    sources, info = load_sources()
    print('expansion: %s' % info)
    if a.no_run:
        u = unitmod.build_unit(a.unit, read_template(a.unit), sources, read_template)
        os.makedirs(a.keep, exist_ok=True)
        with open(os.path.join(a.keep, a.unit + '.rs'), 'w') as fh:
            fh.write(u.text())
        print('written', os.path.join(a.keep, a.unit + '.rs'))
        return 0
    rep = verify_unit(a.unit, sources, rlimit=a.rlimit, keep_dir=a.keep)
    if rep.error:
        print('UNDECIDED:', rep.error)
        if rep.result:
            for d in rep.result.diags[:30]:
                print(d.rendered)
        return 2
    res = rep.result
    print('verus: verified=%d errors=%d wall=%.1fs sentinel_rejected=%s functions=%d clauses=%d' % (
        res.verified, res.errors, res.wall_s, rep.sentinel_rejected, len(rep.functions), rep.clauses))
    for d in res.diags:
        if d.level == 'error' and verus.enclosing_fn(rep.unit, d.line) != verus.SENTINEL:
            print(d.rendered)
        elif a.v:
            print(d.rendered)
    for f in rep.failures:
        print('FAIL [%s] %s  tags=%s\n     %s' % (f.kind, f.id, f.tags, f.where))
    slow = sorted(rep.functions, key=lambda x: -x['smt_us'])[:5]
    print('slowest:', [(s['function'], s['smt_us'] // 1000) for s in slow])
    if a.v:
        print('trusted:', *rep.trusted, sep='\n  ')
        print('rewrites:', json.dumps(rep.unit.log, indent=1))
    return 0 if not rep.failures else 1
