"""Run Verus on a generated unit and classify its diagnostics into named obligations."""
import json
import os
import re
import shutil
import subprocess
import tempfile
import time

SEMANTIC = (
    'postcondition not satisfied',
    'precondition not satisfied',
    'invariant not satisfied',
    'assertion failed',
    'possible arithmetic underflow/overflow',
    'possible division by zero',
    'decreases not satisfied',
    'possible bit shift underflow/overflow',
    'cannot show invariant holds',
    'unreachable',
    'recommendation not met',
    'type invariant',
    'possible overflow',
    'failed precondition',
    'loop invariant not satisfied',
    'could not prove termination',
    'unable to prove',
    'constructed value may fail to meet its declared type invariant',
    'value may be out of range of the target type',
)
RESOURCE = ('rlimit', 'resource limit', 'timed out', 'timeout', 'canceled', 'cancelled')

SENTINEL = 'vx_sentinel'


class Diag:
    def __init__(self, d):
        self.message = d.get('message', '')
        self.level = d.get('level', '')
        self.rendered = d.get('rendered', '')
        self.spans = d.get('spans', [])
        prim = [s for s in self.spans if s.get('is_primary')]
        self.primary = prim[0] if prim else (self.spans[0] if self.spans else None)
        self.secondary = [s for s in self.spans if not s.get('is_primary')]

    @property
    def line(self):
        return self.primary['line_start'] if self.primary else 0

    def kind(self):
        low = self.message.lower()
        for r in RESOURCE:
            if r in low:
                return 'resource'
        if 'unless #[verifier::' in low or 'not supported' in low:
            return 'other'       # the verifier refuses the construct: a tool limit, never a property violation
        for s in SEMANTIC:
            if s in low:
                return 'semantic'
        return 'other'


class VerusResult:
    def __init__(self):
        self.ok = False
        self.verified = 0
        self.errors = 0
        self.diags = []
        self.functions = []   # function-breakdown
        self.times = {}
        self.cmd = ''
        self.raw_stdout = ''
        self.raw_stderr = ''
        self.wall_s = 0.0
        self.crashed = False


def run(unit_text, name, rlimit=None, extra=None, keep_dir=None, threads=None):
    d = tempfile.mkdtemp(prefix='vx-verus.', dir='/var/tmp')
    res = VerusResult()
    try:
        f = os.path.join(d, name + '.rs')
        with open(f, 'w') as fh:
            fh.write(unit_text)
        cmd = ['verus', name + '.rs', '--output-json', '--time', '--multiple-errors', '40',
               '--error-format=json']
        if rlimit:
            cmd += ['--rlimit', str(rlimit)]
        if threads:
            cmd += ['--num-threads', str(threads)]
        if extra:
            cmd += extra
        res.cmd = ' '.join(cmd)
        t0 = time.time()
        try:
            r = subprocess.run(cmd, cwd=d, stdout=subprocess.PIPE, stderr=subprocess.PIPE, text=True,
                               timeout=int(os.environ.get('VX_VERUS_TIMEOUT', '1500')))
        except subprocess.TimeoutExpired as e:
            res.crashed = True
            res.raw_stderr = 'verus timed out: %s' % e
            return res
        res.wall_s = round(time.time() - t0, 2)
        res.raw_stdout, res.raw_stderr = r.stdout, r.stderr
        try:
            j = json.loads(r.stdout[r.stdout.index('{'):])
        except (ValueError, json.JSONDecodeError):
            j = None
        for ln in r.stderr.split('\n'):
            ln = ln.strip()
            if ln.startswith('{'):
                try:
                    dd = json.loads(ln)
                except json.JSONDecodeError:
                    continue
                if dd.get('$message_type') == 'diagnostic' and dd.get('level') in ('error', 'warning'):
                    if dd.get('message', '').startswith('aborting due to'):
                        continue
                    res.diags.append(Diag(dd))
        if j is None:
            res.crashed = True
            return res
        vr = j.get('verification-results', {})
        res.verified = vr.get('verified', 0)
        res.errors = vr.get('errors', 0)
        res.ok = bool(vr.get('success'))
        res.vir_error = bool(vr.get('encountered-vir-error'))
        res.times = j.get('times-ms', {})
        try:
            for mt in res.times['smt']['smt-run-module-times']:
                for fb in mt.get('function-breakdown', []):
                    res.functions.append({'function': fb['function'], 'mode': fb.get('mode:', fb.get('mode', '')),
                                          'smt_us': fb.get('time-micros', 0), 'rlimit': fb.get('rlimit', 0),
                                          'success': fb.get('success', False)})
        except (KeyError, TypeError):
            pass
        if keep_dir:
            os.makedirs(keep_dir, exist_ok=True)
            shutil.copy(f, os.path.join(keep_dir, name + '.rs'))
        return res
    finally:
        shutil.rmtree(d, ignore_errors=True)


_FN_RE = re.compile(r'(?<![A-Za-z0-9_])fn\s+([A-Za-z_][A-Za-z0-9_]*)')


def enclosing_fn(unit, lineno):
    """best-effort: name of the fn whose text encloses generated line `lineno`"""
    for k in range(lineno, 0, -1):
        t = unit.lines[k - 1].text
        mo = _FN_RE.search(t)
        if mo and not t.lstrip().startswith('//'):
            return mo.group(1)
    return '?'
