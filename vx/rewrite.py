"""The fixed catalogue of desugaring rewrites (DESIGN.md section 4).

R1 and R2 are always applied (they remove diagnostics text / logging); every
other rule is enabled per item with `//@rules`. Every application is logged
with its count so that the evidence of a run lists exactly what was changed
between /repo and the verified text.
"""
import re

from .source import ExtractError, mask, match_close

_IDENT = r'[A-Za-z_][A-Za-z0-9_]*'


def r9_float_args(text, log):
    """`X.mul_f32(E)` -> `X.mul_f32(vx_f32_<slug of E>())`: the float expression is kept symbolic by its text
    (no float theory in the installed Verus/Z3). Declarations for every slug are appended to the unit."""
    n = 0
    pos = 0
    while True:
        m = mask(text)
        j = m.find('.mul_f32(', pos)
        if j < 0:
            break
        p = j + len('.mul_f32(') - 1
        q = match_close(m, p)
        expr = ' '.join(text[p + 1:q].split())
        pos = q
        if expr.startswith('vx_f32_'):
            continue
        slug = expr.replace(' as ', '_as_').replace('-', '_sub_').replace('+', '_add_').replace('*', '_mul_').replace('/', '_div_')
        slug = re.sub(r'[^A-Za-z0-9_]', '_', slug.replace(' ', ''))
        slug = re.sub(r'_+', '_', slug).strip('_')
        decl = ('pub uninterp spec fn vxs_f32_%s() -> f32;   // float expression `%s` kept symbolic (R9)\n'
                '#[verifier::external_body]\npub fn vx_f32_%s() -> (r: f32) ensures r == vxs_f32_%s() { unimplemented!() }'
                % (slug, expr, slug, slug))
        if decl not in log.setdefault('decls', []):
            log['decls'].append(decl)
        new = 'vx_f32_%s()' % slug
        text = text[:p + 1] + new + text[q:]
        pos = p + 1 + len(new)
        n += 1
    return text, n


def r1_literal_to_string(text):
    """`"literal".to_string()` (diagnostics text) -> `vx_fmt()`"""
    m = mask(text)
    out = []
    last = 0
    n = 0
    for mo in re.finditer(r'"[^"]*"\.to_string\(\)', m):
        out.append(text[last:mo.start()])
        out.append('vx_fmt()')
        last = mo.end()
        n += 1
    out.append(text[last:])
    return ''.join(out), n


def apply(text, rules, what, log, lenient=False):
    if 'R1S' in rules:
        text, n = r1s_format_concat(text)
        if n == 0 and lenient:
            log.setdefault('degraded', {}).setdefault(what, []).append('rule R1S matched nothing')
        elif n == 0:
            raise ExtractError('rule R1S enabled for %s but it matched nothing (anchor lost)' % what)
        log['rewrites'].append({'rule': 'R1S', 'item': what, 'count': n})
        rules = [r for r in rules if r != 'R1S']
    text, n = r1_format(text)
    text, n2 = r1_literal_to_string(text)
    n += n2
    if n:
        log['rewrites'].append({'rule': 'R1', 'item': what, 'count': n})
    text, n = r2_log(text)
    if n:
        log['rewrites'].append({'rule': 'R2', 'item': what, 'count': n})
    text, n = r8_panic(text)
    if n:
        log['rewrites'].append({'rule': 'R8', 'item': what, 'count': n,
                                'note': 'explicit panic (assert!/debug_assert!/unreachable!/panic!) -> vx_panic() requires false: reaching it is a failed obligation'})
    text, n = r0_attrs(text)
    text, n = r0_vis(text)
    if 'KEEPPRIV' not in rules:
        # (KEEPPRIV: the struct keeps its private fields - needed for a Verus type invariant)
        text, n = r0_pubfields(text)
    rules = [r for r in rules if r != 'KEEPPRIV']
    text, n = r0_crate_paths(text)
    text, n = r0_std_net(text)
    text, n = r0_static_str(text)
    text, n = r0_duration_const(text)
    if n:
        log['rewrites'].append({'rule': 'R0c', 'item': what, 'count': n, 'note': 'Duration const as exec const with value ensures'})
    if 'R6' not in rules and '.is_some_and(' in text:
        # R6 is exact (`x.is_some_and(|p| e)` == `match x { Some(p) => e, None => false }`): applied wherever it occurs
        rules = ['R6'] + list(rules)
    for r in rules:
        if r == 'R9':
            text, n = r9_float_args(text, log)
            if n == 0 and lenient:
                log.setdefault('degraded', {}).setdefault(what, []).append('rule R9 matched nothing')
                continue
            if n == 0:
                raise ExtractError('rule R9 enabled for %s but it matched nothing (anchor lost)' % what)
            log['rewrites'].append({'rule': 'R9', 'item': what, 'count': n})
            continue
        optional = r.endswith('?')
        r = r.rstrip('?')
        fn = RULES.get(r)
        if fn is None:
            raise ExtractError('unknown rewrite rule %s for %s' % (r, what))
        try:
            text, n = fn(text)
        except ExtractError as e:
            if not lenient:
                raise
            log.setdefault('degraded', {}).setdefault(what, []).append('rule %s not applicable: %s' % (r, str(e)[:80]))
            continue
        if n == 0 and optional:
            # `Rn?`: the construct the rule rewrites is gone from this function; go on and let the verifier judge the new body
            continue
        if n == 0 and lenient:
            log.setdefault('degraded', {}).setdefault(what, []).append('rule %s matched nothing' % r)
            continue
        if n == 0:
            raise ExtractError('rule %s enabled for %s but it matched nothing (anchor lost)' % (r, what))
        log['rewrites'].append({'rule': r, 'item': what, 'count': n})
    return text


def r0_attrs(text):
    """drop attributes (#[inline], #[automatically_derived], #[doc..]) inside the item; doc comments stay comments"""
    m = mask(text)
    out = []
    i = 0
    n = 0
    last = 0
    while True:
        j = m.find('#[', i)
        if j < 0:
            break
        k = match_close(m, j + 1)
        out.append(text[last:j])
        last = k + 1
        i = k + 1
        n += 1
    out.append(text[last:])
    return ''.join(out), n


def r0_vis(text):
    """`pub(crate)` / `pub(super)` / `pub(in ..)` -> `pub` (visibility is meaningless in the flat single-file unit)"""
    m = mask(text)
    out = []
    last = 0
    n = 0
    for mo in re.finditer(r'(?<![A-Za-z0-9_])pub\s*\((crate|super|self|in [^)]*)\)', m):
        out.append(text[last:mo.start()])
        out.append('pub')
        last = mo.end()
        n += 1
    out.append(text[last:])
    text = ''.join(out)
    # private type-level items become pub as well (fns are left alone: trait-impl fns cannot carry `pub`)
    mo = re.match(r'\s*(struct|enum|type|const|static|trait|union)\s', mask(text))
    if mo:
        text = text[:mo.start(1)] + 'pub ' + text[mo.start(1):]
        n += 1
    return text, n


def _split_top_commas(m, a, b):
    """positions of top-level commas in m[a:b] (tracks () [] {} and <>)"""
    depth = 0
    out = []
    i = a
    while i < b:
        c = m[i]
        if c in '([{<':
            depth += 1
        elif c in ')]}':
            depth -= 1
        elif c == '>' and m[i - 1] != '-':
            depth -= 1
        elif c == ',' and depth == 0:
            out.append(i)
        i += 1
    return out


def r0_pubfields(text):
    """struct fields are made `pub` (flat single-file unit; Verus would otherwise treat the type as opaque in contracts)"""
    m = mask(text)
    mo = re.match(r'\s*(pub\s+)?struct\s+' + _IDENT, m)
    if not mo:
        return text, 0
    j = mo.end()
    while j < len(m) and m[j] not in '({;':
        if m[j] == '<':
            d = 1
            j += 1
            while d:
                if m[j] == '<':
                    d += 1
                elif m[j] == '>' and m[j - 1] != '-':
                    d -= 1
                j += 1
            continue
        j += 1
    if j >= len(m) or m[j] == ';':
        return text, 0
    close = match_close(m, j)
    commas = _split_top_commas(m, j + 1, close)
    starts = [j + 1] + [c + 1 for c in commas]
    ins = []
    for st in starts:
        k = st
        while k < close and m[k].isspace():
            k += 1
        if k >= close:
            continue
        if re.match(r'pub(?![A-Za-z0-9_])', m[k:]):
            continue
        ins.append(k)
    for k in reversed(ins):
        text = text[:k] + 'pub ' + text[k:]
    return text, len(ins)


def r0_duration_const(text):
    """`const X: Duration = Duration::from_millis(N);` -> Verus `exec const` with the value as its ensures
    (a const initialiser that calls an exec shim must be an exec const in Verus)"""
    m = mask(text)
    mo = re.match(r'\s*(pub\s+)?const\s+(' + _IDENT + r')\s*:\s*Duration\s*=\s*Duration::from_(millis|secs)\(\s*([0-9_]+)\s*\)\s*;\s*$', m)
    if not mo:
        return text, 0
    name, unit, val = mo.group(2), mo.group(3), mo.group(4)
    mult = '1_000_000' if unit == 'millis' else '1_000_000_000'
    new = ('pub exec const %s: Duration\n    ensures %s.ns@ == %s * %s,\n{ Duration::from_%s(%s) }'
           % (name, name, val, mult, unit, val))
    return new, 1


def r0_std_net(text):
    """`std::net::X` -> `X` (the unit's model of std::net lives in the flat namespace, prelude/net.rs)"""
    m = mask(text)
    out = []
    last = 0
    n = 0
    for mo in re.finditer(r'(?<![A-Za-z0-9_:])(?:::)?std::net::', m):
        out.append(text[last:mo.start()])
        last = mo.end()
        n += 1
    out.append(text[last:])
    return ''.join(out), n


def r0_static_str(text):
    """`const X: &str = ..` -> `const X: &'static str = ..` (the elided lifetime of a const is 'static; Verus wants it written)"""
    n = 0
    mo = re.match(r"(\s*(?:pub\s+)?const\s+[A-Za-z_][A-Za-z0-9_]*\s*:\s*)&\s*str(\s*=)", text)
    if mo:
        text = mo.group(1) + "&'static str" + mo.group(2) + text[mo.end():]
        n = 1
    return text, n


def r0_crate_paths(text):
    """`crate::a::b::Name` -> `Name` (macro-generated code spells full paths; the unit is one flat namespace)"""
    m = mask(text)
    out = []
    last = 0
    n = 0
    for mo in re.finditer(r'(?<![A-Za-z0-9_:])crate::(?:[a-z_][a-z0-9_]*::)*', m):
        out.append(text[last:mo.start()])
        last = mo.end()
        n += 1
    out.append(text[last:])
    return ''.join(out), n


def r1s_format_concat(text):
    """structured form of R1 for the format strings whose text matters: `format!("{0}:{1}:{2}", a, b, c)` with only positional
    `{N}` placeholders -> nested `vx_cat(..)` calls (concatenation of the Display text of the pieces, in order)"""
    key = '::alloc::__export::must_use('
    n = 0
    pos = 0
    while True:
        m = mask(text)
        j = m.find(key, pos)
        if j < 0:
            break
        p = j + len(key) - 1
        q = match_close(m, p)
        inner = text[p + 1:q]
        mo = re.search(r'format_args!\(\s*"((?:[^"\\]|\\.)*)"\s*((?:,.*)?)\)\s*\)\s*\}?\s*$', inner, re.S)
        if not mo:
            pos = q
            continue
        fmt, argtxt = mo.group(1), mo.group(2)
        # only key-material style strings (placeholders joined by punctuation); diagnostics with words stay opaque (R1)
        if not re.fullmatch(r'(?:[^{}A-Za-z]|\{\d+\})*', fmt) or '{' not in fmt:
            pos = q
            continue
        am = mask(argtxt)
        cuts = _split_top_commas(am, 0, len(am)) + [len(am)]
        args = [argtxt[cuts[i] + 1:cuts[i + 1]].strip() for i in range(len(cuts) - 1)]
        args = [a for a in args if a]
        pieces = []
        for tok in re.findall(r'\{\d+\}|[^{}]+', fmt):
            if tok.startswith('{'):
                k = int(tok[1:-1])
                if k >= len(args):
                    raise ExtractError('R1S: placeholder {%d} without argument' % k)
                pieces.append(args[k])
            else:
                pieces.append('"%s"' % tok)
        expr = pieces[0] if len(pieces) > 1 else 'vx_cat(%s, "")' % pieces[0]
        for pc in pieces[1:]:
            expr = 'vx_cat(%s, %s)' % (expr, pc)
        text = text[:j] + expr + text[q + 1:]
        n += 1
        pos = j + len(expr)
    return text, n


def r1_format(text):
    """`::alloc::__export::must_use({ ::alloc::fmt::format(format_args!(..)) })` -> `vx_fmt()`"""
    key = '::alloc::__export::must_use('
    n = 0
    while True:
        m = mask(text)
        j = m.find(key)
        if j < 0:
            break
        p = j + len(key) - 1
        q = match_close(m, p)
        inner = m[p + 1:q]
        if '::alloc::fmt::format(' not in inner:
            raise ExtractError('R1: unexpected must_use payload')
        text = text[:j] + 'vx_fmt()' + text[q + 1:]
        n += 1
    return text, n


def r8_panic(text):
    """`::core::panicking::panic_fmt(format_args!(..))` / `::core::panicking::panic("..")` / unreachable_display etc.
    -> `vx_panic()` (declared `requires false`), so an explicit panic that can be reached fails verification"""
    n = 0
    while True:
        m = mask(text)
        mo = re.search(r'::core::panicking::(panic_fmt|panic|unreachable_display|panic_display|panic_explicit)\s*\(', m)
        if not mo:
            break
        p = mo.end() - 1
        q = match_close(m, p)
        text = text[:mo.start()] + 'vx_panic()' + text[q + 1:]
        n += 1
    return text, n


def r2_log(text):
    """expanded log::debug!/info!/warn!/trace!/error! blocks -> removed"""
    n = 0
    while True:
        m = mask(text)
        j = m.find('let lvl = ::log::Level::')
        if j < 0:
            break
        # enclosing `{ {` immediately before
        a = j - 1
        while m[a].isspace():
            a -= 1
        if m[a] != '{':
            raise ExtractError('R2: unexpected log expansion shape')
        b = a - 1
        while m[b].isspace():
            b -= 1
        if m[b] != '{':
            raise ExtractError('R2: unexpected log expansion shape (outer)')
        e = match_close(m, b)
        k = e + 1
        while k < len(m) and m[k] in ' \t':
            k += 1
        if k < len(m) and m[k] == ';':
            e = k
        # a log call that is the whole body of a match arm / closure (`=> debug!(..)`) leaves an empty block
        pre = text[:b].rstrip()
        if pre.endswith('=>') or pre.endswith('|'):
            text = text[:b] + '{}' + text[e + 1:]
            n += 1
            continue
        # remove whole lines if the block stands alone
        ls = text.rfind('\n', 0, b) + 1
        if text[ls:b].strip() == '':
            b = ls
            if e + 1 < len(text) and text[e + 1] == '\n':
                e += 1
        text = text[:b] + text[e + 1:]
        n += 1
    return text, n


def r3_enumerate(text):
    """`for (I, X) in E.iter().enumerate() { B }` -> indexed while (definition of Enumerate<slice::Iter>)"""
    n = 0
    pat = re.compile(r'for \((' + _IDENT + r'), (' + _IDENT + r')\) in\s')
    while True:
        m = mask(text)
        mo = pat.search(m)
        if not mo:
            break
        i_name, x_name = mo.group(1), mo.group(2)
        # expression up to the loop body '{'
        j = mo.end()
        while m[j] != '{':
            if m[j] in '([':
                j = match_close(m, j)
            j += 1
        expr = text[mo.end():j].strip()
        suffix = '.iter().enumerate()'
        if not expr.endswith(suffix):
            raise ExtractError('R3: loop over "%s" is not .iter().enumerate()' % expr)
        base = expr[:-len(suffix)]
        close = match_close(m, j)
        body = text[j + 1:close]
        if re.search(r'(?<![A-Za-z0-9_])continue(?![A-Za-z0-9_])', mask(body)):
            raise ExtractError('R3: loop body contains continue')
        s = 'vx_s%d' % n
        if re.match(r'^self\.[A-Za-z_][A-Za-z0-9_.]*$', base.strip()):
            base = '&' + base.strip()     # a field of `&self` is iterated by reference, not moved
        new = ('let %s = %s;\nlet mut %s: usize = 0;\nwhile %s < %s.len() {\nlet %s = &%s[%s];%s\n%s += 1;\n}'
               % (s, base, i_name, i_name, s, x_name, s, i_name, body.rstrip(), i_name))
        text = text[:mo.start()] + new + text[close + 1:]
        n += 1
    return text, n


def r3m_enumerate_mut(text):
    """`for (I, B) in A.iter_mut().enumerate()[.take(N)][.skip(M)] { .. *B .. }` -> indexed while over M..min(N, A.len())
    with `*B` written as `A[I]` (definition of Skip<Take<Enumerate<slice::IterMut>>>); the loop counter is `vx_kN`"""
    n = 0
    pat = re.compile(r'for \((' + _IDENT + r'), (' + _IDENT + r')\) in\s')
    pos = 0
    while True:
        m = mask(text)
        mo = pat.search(m, pos)
        if not mo:
            break
        i_name, b_name = mo.group(1), mo.group(2)
        j = mo.end()
        while m[j] != '{':
            if m[j] in '([':
                j = match_close(m, j)
            j += 1
        expr = re.sub(r'\s+', '', text[mo.end():j])
        mo2 = re.match(r'^(.*)\.iter_mut\(\)\.enumerate\(\)(?:\.take\(([0-9A-Za-z_]+)\))?(?:\.skip\(([0-9A-Za-z_]+)\))?$', expr)
        if not mo2:
            pos = mo.end()
            continue
        base, take, skip = mo2.group(1), mo2.group(2), mo2.group(3)
        close = match_close(m, j)
        body = text[j + 1:close]
        mb = mask(body)
        if re.search(r'(?<![A-Za-z0-9_])(continue|break)(?![A-Za-z0-9_])', mb):
            raise ExtractError('R3M: loop body contains continue/break')
        # every use of the element must be a dereference `*B`
        uses = [x.start() for x in re.finditer(r'(?<![A-Za-z0-9_])%s(?![A-Za-z0-9_])' % re.escape(b_name), mb)]
        out = body
        for u in reversed(uses):
            k = u - 1
            while k >= 0 and mb[k].isspace():
                k -= 1
            if k < 0 or mb[k] != '*':
                raise ExtractError('R3M: element `%s` used other than as `*%s`' % (b_name, b_name))
            out = out[:k] + '%s[%s]' % (base, i_name) + out[u + len(b_name):]
        kname = 'vx_k%d' % n
        nname = 'vx_n%d' % n
        hi = ('if %s < %s.len() { %s } else { %s.len() }' % (take, base, take, base)) if take else '%s.len()' % base
        new = ('let %s: usize = %s;\nlet mut %s: usize = %s;\nwhile %s < %s {\nlet %s = %s;%s\n%s += 1;\n}'
               % (nname, hi, kname, skip or '0', kname, nname, i_name, kname, out.rstrip(), kname))
        text = text[:mo.start()] + new + text[close + 1:]
        n += 1
    return text, n


def r3f_for_each(text):
    """`E.for_each(|PAT| BODY);` -> `for PAT in E { BODY }` (definition of Iterator::for_each)"""
    n = 0
    while True:
        m = mask(text)
        j = m.find('.for_each(')
        while j >= 0 and 'iter_mut().for_each(' in m[max(0, j - 12):j + 10]:
            j = m.find('.for_each(', j + 1)    # (R16 handles slice fill)
        if j < 0:
            break
        p = j + len('.for_each(') - 1
        q = match_close(m, p)
        inner = text[p + 1:q].strip()
        mo = re.match(r'\|([^|]*)\|', inner)
        if not mo:
            raise ExtractError('R3F: for_each without closure literal')
        pat = mo.group(1).strip()
        body = inner[mo.end():].strip()
        if not body.startswith('{'):
            body = '{ %s; }' % body
        a = _receiver_start(m, j)
        recv = text[a:j]
        k = q + 1
        while k < len(m) and m[k].isspace():
            k += 1
        if k < len(m) and m[k] == ';':
            q = k
        new = 'for %s in %s %s' % (pat, recv, body)
        text = text[:a] + new + text[q + 1:]
        n += 1
    return text, n


def r4p_peekable(text):
    """`let mut IT = E.iter().peekable(); while let Some(X) = IT.next() { .. IT.peek().is_some() .. }` -> indexed while
    over the slice: `IT.peek().is_some()` is `index < len` (definition of Peekable<slice::Iter>)"""
    n = 0
    m = mask(text)
    mo = re.search(r'let mut (' + _IDENT + r')\s*=\s*([^;]*?)\.iter\(\)\.peekable\(\);', m)
    if not mo:
        return text, 0
    it = mo.group(1)
    base = text[mo.start(2):mo.end(2)].strip()
    if re.match(r'^self\.[A-Za-z_][A-Za-z0-9_.]*$', base):
        base = '&' + base
    head = 'let vx_pk = %s;\nlet mut vx_pi: usize = 0;' % base
    text = text[:mo.start()] + head + text[mo.end():]
    m = mask(text)
    mo2 = re.search(r'while let Some\((' + _IDENT + r')\)\s*=\s*' + re.escape(it) + r'\.next\(\)\s*\{', m)
    if not mo2:
        raise ExtractError('R4P: `while let Some(x) = %s.next()` not found' % it)
    x = mo2.group(1)
    text = text[:mo2.start()] + 'while vx_pi < vx_pk.len() {\nlet %s = &vx_pk[vx_pi];\nvx_pi += 1;' % x + text[mo2.end():]
    peek = '%s.peek().is_some()' % it
    cnt = text.count(peek)
    text = text.replace(peek, 'vx_pi < vx_pk.len()')
    m = mask(text)
    if re.search(r'(?<![A-Za-z0-9_])%s(?![A-Za-z0-9_])' % re.escape(it), m):
        raise ExtractError('R4P: other uses of the peekable iterator `%s` remain' % it)
    return text, 1 + cnt


def r5_mut_self(text):
    """`fn f(mut self, ..) { B }` -> `fn f(self, ..) { let mut vx_self = self; B[self := vx_self] }`"""
    m = mask(text)
    mo = re.search(r'\(\s*mut self\b', m)
    if not mo:
        return text, 0
    j = 0
    while m[j] != '{':
        if m[j] in '([':
            j = match_close(m, j)
        j += 1
    header = text[:j].replace('mut self', 'self', 1)
    body = text[j + 1:]
    mb = mask(body)
    out = []
    last = 0
    for s in re.finditer(r'(?<![A-Za-z0-9_])self(?![A-Za-z0-9_])', mb):
        out.append(body[last:s.start()])
        out.append('vx_self')
        last = s.end()
    out.append(body[last:])
    return header + '{\nlet mut vx_self = self;' + ''.join(out), 1


def r6_is_some_and(text):
    """`X.is_some_and(|m| E)` -> `match X { Some(m) => E, None => false }`"""
    n = 0
    while True:
        m = mask(text)
        j = m.find('.is_some_and(')
        if j < 0:
            break
        p = j + len('.is_some_and(') - 1
        q = match_close(m, p)
        inner = text[p + 1:q].strip()
        mo = re.match(r'\|\s*(' + _IDENT + r')\s*\|', inner)
        if not mo:
            raise ExtractError('R6: is_some_and without simple closure')
        var = mo.group(1)
        expr = inner[mo.end():].strip()
        # receiver: walk back over a postfix chain
        a = _receiver_start(m, j)
        recv = text[a:j]
        new = 'match %s { Some(%s) => %s, None => false }' % (recv, var, expr)
        text = text[:a] + new + text[q + 1:]
        n += 1
    return text, n


def _receiver_start(m, j):
    """start index of the postfix-expression that ends right before index j"""
    a = j
    while a > 0:
        c = m[a - 1]
        if c.isalnum() or c in '_.:':
            a -= 1
        elif c in ')]':
            # find partner backwards
            depth = 0
            k = a - 1
            while k >= 0:
                if m[k] in ')]}':
                    depth += 1
                elif m[k] in '([{':
                    depth -= 1
                    if depth == 0:
                        break
                k -= 1
            a = k
        elif c == '?':
            a -= 1
        else:
            break
    return a


def r4_for_iter(text):
    """`for P in E { B }` -> `let mut vx_itN = E; loop { match vx_itN.next() { Some(P) => { B } None => break, } }`
    (the language's desugaring of `for` when E is already an iterator)"""
    n = 0
    pat = re.compile(r'(?<![A-Za-z0-9_])for\s+')
    pos = 0
    while True:
        m = mask(text)
        mo = pat.search(m, pos)
        if not mo:
            break
        # pattern up to ' in '
        k = mo.end()
        depth = 0
        while True:
            if m[k] in '([':
                depth += 1
            elif m[k] in ')]':
                depth -= 1
            elif depth == 0 and m.startswith(' in ', k):
                break
            k += 1
            if k >= len(m):
                raise ExtractError('R4: malformed for')
        patn = text[mo.end():k].strip()
        j = k + 4
        while m[j] != '{':
            if m[j] in '([':
                j = match_close(m, j)
            j += 1
        expr = text[k + 4:j].strip()
        close = match_close(m, j)
        body = text[j + 1:close]
        it = 'vx_it%d' % n
        if expr.startswith('&mut '):
            # `impl Iterator for &mut I` forwards `next` to I: call it on the place itself
            new = ('loop {\nmatch %s.next() {\nSome(%s) => {%s}\nNone => { break; }\n}\n}'
                   % (expr[5:].strip(), patn, body))
        else:
            new = ('let mut %s = %s;\nloop {\nmatch %s.next() {\nSome(%s) => {%s}\nNone => { break; }\n}\n}'
                   % (it, expr, it, patn, body))
        text = text[:mo.start()] + new + text[close + 1:]
        pos = mo.start() + len('let mut ')
        n += 1
    return text, n


def find_closures(m, start):
    """[(params_start, params_end, body_start, body_end)] for closures in m[start:], in order of appearance.
    A closure starts with `|` (or `||`) right after `(`, `,`, `=`, `move` or `return`."""
    out = []
    for mo in re.finditer(r'(?:(?<=[(,=])|(?<=move)|(?<=return))\s*(\|\||\|)', m[start:]):
        ps = start + mo.start(1)
        if mo.group(1) == '||':
            pe = ps + 2
        else:
            j = ps + 1
            depth = 0
            while j < len(m):
                c = m[j]
                if c in '(<[':
                    depth += 1
                elif c in ')>]':
                    depth -= 1
                elif c == '|' and depth <= 0:
                    break
                j += 1
            pe = j + 1
        k = pe
        while m[k].isspace():
            k += 1
        if m.startswith('->', k):
            # explicit return type: body must be a block
            while m[k] != '{':
                k += 1
        if m[k] == '{':
            be = match_close(m, k) + 1
        else:
            # expression body: up to the `,` or closing bracket of the enclosing call at depth 0
            j = k
            depth = 0
            while j < len(m):
                c = m[j]
                if c in '([{':
                    depth += 1
                elif c in ')]}':
                    if depth == 0:
                        break
                    depth -= 1
                elif c in ',;' and depth == 0:
                    break
                j += 1
            be = j
        out.append((ps, pe, k, be))
    return out


def annotate_closure(text, start, nth, header_lines, tagger):
    """Replace the parameter list of the nth closure after `start` by `header_lines` (typed params,
    named return value and ensures) and brace its body; the body text itself is kept verbatim."""
    m = mask(text)
    cl = find_closures(m, start)

    def names(ptxt):
        inner = ptxt.strip().strip('|')
        return [re.sub(r'^(mut\s+|&\s*)', '', x.split(':')[0].strip()) for x in inner.split(',') if x.strip()]
    want = names(header_lines[0][:header_lines[0].rfind('|') + 1]) if header_lines else None
    pick = cl[nth - 1] if nth <= len(cl) else None
    if want is not None and (pick is None or names(text[pick[0]:pick[1]]) != want):
        # the ordinal no longer points at a closure with these parameter names (closures were added / reordered):
        # take the one closure that has them
        same = [c for c in cl if names(text[c[0]:c[1]]) == want]
        if len(same) == 1:
            pick = same[0]
        elif pick is None:
            # the function has fewer closures than the template annotates and none is left over for this annotation (a closure
            # was replaced by a match / an early return): nothing to annotate; whatever replaced it is verified as it stands
            return None
    if pick is None:
        return None
    ps, pe, bs, be = pick
    body = text[bs:be]
    if not body.lstrip().startswith('{'):
        body = '{ ' + body.strip() + ' }'
    hdr = '\n'.join(tagger(l) for l in header_lines)
    return text[:ps] + hdr + '\n' + body + text[be:]


def _tail_pos(m, open_idx):
    """position where a statement can be inserted at the end of the block opened at open_idx:
    before the block's tail expression, or before its closing brace if there is none"""
    close = match_close(m, open_idx)
    j = open_idx + 1
    last = open_idx + 1
    depth = 0
    while j < close:
        c = m[j]
        if c in '([{':
            depth += 1
        elif c in ')]}':
            depth -= 1
            if depth == 0 and c == '}':
                k = j + 1
                while k < close and m[k].isspace():
                    k += 1
                if not (m.startswith('else', k) or (k < close and m[k] in '.?')):
                    last = j + 1
        elif c == ';' and depth == 0:
            last = j + 1
        j += 1
    return last, close


def r11_events_commit(text):
    """`let mut X = self.transaction_events.init();` -> local batch + explicit commit (the extracted Drop body)
    where X goes out of scope (end of the enclosing block, before its tail expression)."""
    n = 0
    pat = re.compile(r'let mut (' + _IDENT + r') =\s*self\.transaction_events\.init\(\);')
    while True:
        m = mask(text)
        mo = pat.search(m)
        if not mo:
            break
        var = mo.group(1)
        # enclosing block
        depth = 0
        k = mo.start()
        while k >= 0:
            if m[k] in ')]}':
                depth += 1
            elif m[k] in '([{':
                if depth == 0:
                    break
                depth -= 1
            k -= 1
        if k < 0 or m[k] != '{':
            raise ExtractError('R11: enclosing block not found')
        last, close = _tail_pos(m, k)
        between = m[mo.end():last]
        if '?' in between:
            raise ExtractError('R11: `?` exit between init() and the end of the scope of the event batch')
        commit = '\nself.transaction_events.vx_commit(%s);\n' % var
        text = text[:last] + commit + text[last:]
        # an early `return` inside the scope drops the batch too: commit there as well (back to front)
        rets = [r.start() for r in re.finditer(r'(?<![A-Za-z0-9_])return(?![A-Za-z0-9_])', m[mo.end():last])]
        for r in reversed(rets):
            a = mo.end() + r
            e = m.find(';', a)
            if e < 0 or e > last:
                raise ExtractError('R11: malformed return inside the batch scope')
            text = text[:a] + '{ self.transaction_events.vx_commit(%s); ' % var + text[a:e + 1] + ' }' + text[e + 1:]
        text = text[:mo.start()] + 'let mut %s = VxEvents::vx_init();' % var + text[mo.end():]
        n += 1
    return text, n


def r3v_for_vec(text):
    """`for X in V { B }` with V a Vec of Copy items -> indexed while (vec::IntoIter yields the elements in order)"""
    n = 0
    pat = re.compile(r'(?<![A-Za-z0-9_])for (' + _IDENT + r') in (' + _IDENT + r') \{')
    while True:
        m = mask(text)
        mo = pat.search(m)
        if not mo:
            break
        x, v = mo.group(1), mo.group(2)
        j = mo.end() - 1
        close = match_close(m, j)
        body = text[j + 1:close]
        # the index is advanced right after the element is taken, so `continue` in the body keeps its meaning
        i = 'vx_i%d' % n
        new = ('let mut %s: usize = 0;\nwhile %s < %s.len() {\nlet %s = %s[%s];\n%s += 1;%s\n}'
               % (i, i, v, x, v, i, i, body.rstrip()))
        text = text[:mo.start()] + new + text[close + 1:]
        n += 1
    return text, n


def r6p_position(text):
    """`E.iter().position(F)` -> `vx_position(&E, F)` (specified generic helper: first index whose element satisfies F)"""
    n = 0
    while True:
        m = mask(text)
        j = m.find('.iter().position(')
        if j < 0:
            break
        a = _receiver_start(m, j)
        recv = text[a:j]
        p = j + len('.iter().position(') - 1
        q = match_close(m, p)
        inner = text[p + 1:q]
        text = text[:a] + 'vx_position(&' + recv + ', ' + inner + ')' + text[q + 1:]
        n += 1
    return text, n


def r4n_name_for_iter(text):
    """`for X in E {` -> `for X in vx_itN: E {`: Verus syntax that names the loop's ghost iterator so that an
    invariant can mention the elements consumed so far (`vx_itN.history@`); no semantic change."""
    n = 0
    pos = 0
    pat = re.compile(r'(?<![A-Za-z0-9_])for\s+')
    while True:
        m = mask(text)
        mo = pat.search(m, pos)
        if not mo:
            break
        k = mo.end()
        depth = 0
        while True:
            if m[k] in '([':
                depth += 1
            elif m[k] in ')]':
                depth -= 1
            elif depth == 0 and m.startswith(' in ', k):
                break
            k += 1
            if k >= len(m):
                raise ExtractError('R4N: malformed for')
        ins = 'vx_it%d: ' % n
        text = text[:k + 4] + ins + text[k + 4:]
        pos = k + 4 + len(ins)
        n += 1
    return text, n


def r5p_mut_param(text):
    """`fn f(.., mut x: T, ..) { B }` -> `fn f(.., x: T, ..) { let mut x = x; B }` (binding-mode sugar on a by-value parameter)"""
    m = mask(text)
    j = 0
    while m[j] != '{':
        if m[j] in '([':
            j = match_close(m, j)
        j += 1
    header = text[:j]
    names = re.findall(r'(?<![A-Za-z0-9_])mut\s+(' + _IDENT + r')\s*:', mask(header))
    names = [x for x in names if x != 'self']
    if not names:
        return text, 0
    for x in names:
        header = re.sub(r'(?<![A-Za-z0-9_])mut\s+' + x + r'(\s*:)', x + r'\1', header, count=1)
    lets = ''.join('\nlet mut %s = %s;' % (x, x) for x in names)
    return header + '{' + lets + text[j + 1:], len(names)


def r16_for_each_fill(text):
    """`E.iter_mut().for_each(|v| *v = C)` -> `E.fill(C)` (both store C into every element of the slice)"""
    n = 0
    while True:
        m = mask(text)
        mo = re.search(r'\.iter_mut\(\)\.for_each\(\|\s*(' + _IDENT + r')\s*\|\s*\*\1\s*=\s*', m)
        if not mo:
            break
        p = m.find('(', mo.start() + len('.iter_mut().for_each') - 1)
        q = match_close(m, p)
        val = text[mo.end():q].strip()
        text = text[:mo.start()] + '.fill(' + val + ')' + text[q + 1:]
        n += 1
    return text, n


def r6f_find(text):
    """`E.iter().find(F)` -> `vx_find(&E, F)` (specified generic helper: first element satisfying F)"""
    n = 0
    while True:
        m = mask(text)
        j = m.find('.iter().find(')
        if j < 0:
            break
        a = _receiver_start(m, j)
        recv = text[a:j]
        p = j + len('.iter().find(') - 1
        q = match_close(m, p)
        inner = text[p + 1:q]
        text = text[:a] + 'vx_find(&' + recv + ', ' + inner + ')' + text[q + 1:]
        n += 1
    return text, n


RULES = {
    'R6F': r6f_find,
    'R16': r16_for_each_fill,
    'R5P': r5p_mut_param,
    'R4N': r4n_name_for_iter,
    'R6P': r6p_position,
    'R3V': r3v_for_vec,
    'R11': r11_events_commit,
    'R4P': r4p_peekable,
    'R3F': r3f_for_each,
    'R3': r3_enumerate,
    'R3M': r3m_enumerate_mut,
    'R4': r4_for_iter,
    'R5': r5_mut_self,
    'R6': r6_is_some_and,
}
