"""Property-level driver:  ./bin/check <Cxx> [--tier quick|thorough] [--replay FILE]

exit 0  every obligation of the property discharged (KNOWN-FINDING lines for listed findings)
exit 1  VIOLATION property=<id> replay=<path> [no-failing-input-found]
exit 2  UNDECIDED property=<id> reason=...   (anchor lost, unsupported construct, rlimit, tool crash) -- never an alarm
"""
import concurrent.futures
import json
import os
import re
import subprocess
import sys
import time

from . import engine, verus
from .source import norm

ROOT = engine.ROOT
EVID = os.path.join(ROOT, 'evidence')
REPLAY_OUT = os.path.join(ROOT, 'replay', 'out')


def load_props():
    with open(os.path.join(engine.SPECS, 'props.json')) as fh:
        return json.load(fh)


def load_known():
    p = os.path.join(ROOT, 'known_findings.json')
    if not os.path.isfile(p):
        return []
    with open(p) as fh:
        return json.load(fh)


def run_probe(probe):
    """Run a witness probe (a bin of /verif/replay) against the real crates of the tree under check.
    The probe crate is materialised outside /verif with path dependencies on that tree. -> (found, output)"""
    import shutil
    cache = os.environ.get('VX_CACHE', '/var/tmp/vx-cache')
    repo = os.environ.get('VX_REPO', '/repo')
    crate = os.path.join(cache, 'replay-crate')
    env = dict(os.environ, CARGO_NET_OFFLINE='true', CARGO_TARGET_DIR=os.path.join(cache, 'replay-target'), CARGO_INCREMENTAL='0')
    env.pop('RUSTUP_TOOLCHAIN', None)
    os.makedirs(cache, exist_ok=True)
    import fcntl
    with open(os.path.join(cache, 'replay.lock'), 'w') as lk:
        fcntl.flock(lk, fcntl.LOCK_EX)
        # every tree under check has its own path, so cargo keeps one set of artefacts per tree: bound the cache
        try:
            du = subprocess.run(['du', '-sm', env['CARGO_TARGET_DIR']], stdout=subprocess.PIPE, stderr=subprocess.DEVNULL, text=True).stdout.split()
            if du and int(du[0]) > 3000:
                shutil.rmtree(env['CARGO_TARGET_DIR'], ignore_errors=True)
        except (ValueError, OSError):
            pass
        shutil.rmtree(crate, ignore_errors=True)
        shutil.copytree(os.path.join(ROOT, 'replay', 'src'), os.path.join(crate, 'src'))
        with open(os.path.join(ROOT, 'replay', 'Cargo.toml')) as fh:
            toml = fh.read().replace('/repo/', repo.rstrip('/') + '/')
        with open(os.path.join(crate, 'Cargo.toml'), 'w') as fh:
            fh.write(toml)
        shutil.copy(os.path.join(repo, 'Cargo.lock'), os.path.join(crate, 'Cargo.lock'))
        cmd = ['cargo', 'run', '--offline', '-q', '--manifest-path', os.path.join(crate, 'Cargo.toml'), '--bin', probe]
        try:
            r = subprocess.run(cmd, env=env, stdout=subprocess.PIPE, stderr=subprocess.STDOUT, text=True, timeout=900)
        except subprocess.TimeoutExpired:
            return False, 'probe timed out'
    out = r.stdout
    lines = [l for l in out.split('\n') if l.startswith(('WITNESS', 'ok'))]
    found = any(l.startswith('WITNESS') for l in lines)
    return found, ' '.join(cmd) + '\n' + '\n'.join(lines if lines else out.split('\n')[-15:])


def main(argv):
    import argparse
    ap = argparse.ArgumentParser()
    ap.add_argument('prop')
    ap.add_argument('--tier', default=os.environ.get('VERIF_TIER', 'quick'))
    ap.add_argument('--replay')
    a = ap.parse_args(argv)
    if a.replay:
        with open(a.replay) as fh:
            sys.stdout.write(fh.read())
        return 0
    t0 = time.time()
    props = load_props()
    if a.prop not in props:
        print('UNDECIDED property=%s reason=unknown-property' % a.prop)
        return 2
    P = props[a.prop]

    def relevant_tags(unit):
        # `counts_also`: in the named unit the items carrying another property's tag are obligations of this property too
        # (e.g. C09/C18 rely on every value decoder of unit attrs, which are tagged C01)
        also = P.get('counts_also', {}).get(unit)
        return {a.prop} | ({also} if isinstance(also, str) else set(also or []))
    seed = int(os.environ.get('VERIF_SEED', '0') or 0)
    tier = a.tier if a.tier in ('quick', 'thorough') else 'quick'
    try:
        sources, xinfo = engine.load_sources()
    except Exception as e:  # expansion failed: the tree does not compile -> undecided
        print('UNDECIDED property=%s reason=expansion-failed: %s' % (a.prop, str(e)[:400].replace('\n', ' ')))
        return 2
    units = P['units']
    reports = {}
    rl = P.get('rlimit')
    with concurrent.futures.ThreadPoolExecutor(max_workers=min(8, len(units))) as ex:
        futs = {ex.submit(engine.verify_unit, u, sources, rl): u for u in units}
        for f in concurrent.futures.as_completed(futs):
            reports[futs[f]] = f.result()
    second = {}
    if tier == 'thorough':
        # further runs with other solver seeds: expose unstable queries (reported in the evidence, not decisive)
        for sd in (seed + 1, seed + 2):
            with concurrent.futures.ThreadPoolExecutor(max_workers=min(8, len(units))) as ex:
                futs = {ex.submit(engine.verify_unit, u, sources, rl, None,
                                  ['--smt-option', 'smt.random_seed=%d' % sd, '--smt-option', 'sat.random_seed=%d' % sd]): u for u in units}
                for f in concurrent.futures.as_completed(futs):
                    second['%s@seed%d' % (futs[f], sd)] = f.result()

    known = [k for k in load_known() if k.get('status') == 'known' and k.get('property') == a.prop]
    undecided = []
    violations = []
    known_hits = []
    obligations = 0
    discharged = 0
    functions = []
    samples = []
    trusted = []
    rewrites = []
    checker_cmds = []
    clauses = 0
    smt_ms = 0.0
    for u in units:
        rep = reports[u]
        if rep.error:
            undecided.append('%s: %s' % (u, rep.error))
            continue
        checker_cmds.append(rep.result.cmd + '   # unit %s, text sha256/16 %s' % (u, rep.text_hash))
        if not rep.sentinel_rejected:
            undecided.append('%s: sentinel `ensures false` was not rejected (inconsistent assumptions or verifier did not run)' % u)
        for t in rep.trusted:
            if t not in trusted:
                trusted.append(t)
        clauses += rep.clauses
        for rw in rep.unit.log['rewrites']:
            rewrites.append(dict(rw, unit=u))
        for sb in rep.unit.log['subs']:
            rewrites.append({'rule': 'sub', 'item': sb['item'], 'count': sb['count'],
                             'note': '%s => %s' % (sb['from'][:60], sb['to'][:60]), 'unit': u})
        failed_fns = set()
        for f in rep.failures:
            if f.tags and not (relevant_tags(u) & set(f.tags)):
                continue
            if f.kind == 'semantic':
                k = [x for x in known if f.id.startswith(x['obligation'])]
                if k:
                    known_hits.append((f, k[0]))
                else:
                    violations.append(f)
            else:
                undecided.append('%s: %s [%s] %s' % (u, f.id, f.kind, f.message[:200]))
            failed_fns.add(f.fn)
        for fb in rep.functions:
            if not any(engine.fn_relevant(rep, fb['function'], t) for t in relevant_tags(u)):
                continue
            last = fb['function'].split('::')[-1]
            is_known = any(h[0].fn == last for h in known_hits)
            if is_known:
                continue
            obligations += 1
            if fb['success']:
                discharged += 1
            smt_ms += fb['smt_us'] / 1000.0
            functions.append({'unit': u, 'function': fb['function'], 'mode': fb['mode'],
                              'smt_ms': round(fb['smt_us'] / 1000.0, 1), 'rlimit': fb['rlimit'],
                              'discharged': fb['success']})
        # sample clauses: a few contract lines of tagged items
        for spec, it, first, last in rep.unit.items:
            if it.kind == 'fn' and (not spec.tags or (relevant_tags(u) & set(spec.tags))) and len(samples) < 14:
                cl = [norm(gl.text) for gl in rep.unit.lines[first - 1:last] if gl.origin[0] == 'spec' and gl.origin[2] == 'spec']
                if cl:
                    samples.append({'obligation': '%s/%s' % (u, it.name), 'source': '%s :: %s' % (spec.crate, spec.path),
                                    'contract': ' '.join(cl)[:400]})
    unstable = []
    for u in units:
        for iso in getattr(reports[u], 'isolated', []):
            unstable.append('%s: failed in the whole-unit run, re-verified alone: %s' % (iso['function'], 'discharged' if iso['verified_in_isolation'] else 'fails'))
    for key, rep2 in second.items():
        if rep2.error:
            continue
        u = key.split('@')[0]
        ids1 = {f.id for f in reports[u].failures}
        ids2 = {f.id for f in rep2.failures}
        for i in ids1 ^ ids2:
            unstable.append('%s (verdict differs in run %s)' % (i, key))

    # ---------------- witness probes (thorough: all registered; on violation: those registered for the property)
    probe_results = []
    probes = P.get('probes', [])
    # (also when the deductive check is undecided: a bounded probe that finds a concrete failing input on the real code
    #  turns 'undecided' into a violation with a witness; finding nothing leaves it undecided)
    # (also when a function had to be extracted without some of its proof hints: its proof may have gone through, but the
    # code was restructured, which is when a bounded second look is cheap insurance)
    degraded = any(rw.get('rule') == 'DEGRADED' for rw in rewrites)
    # The quick tier always runs the property's light probes (seconds each, once the probe crate is built for the tree): they look
    # at the real crates from outside and so also see code the contracts treat as trusted (third-party calls behind shims,
    # trait-object dispatch, comparison operators of small types). The two heavy ones wait for the thorough tier or for a reason.
    HEAVY = ('b7_text_no_panic', 'b10_client_outcomes')
    full = tier == 'thorough' or bool(violations) or bool(undecided) or degraded
    if probes:
        for pb in probes:
            if not full and pb in HEAVY:
                continue
            found, out = run_probe(pb)
            probe_results.append({'probe': pb, 'found_failing_input': found, 'output': out[-1500:]})
            if not found and ('could not compile' in out or 'probe timed out' in out):
                # a probe that does not build against this tree (an API it uses changed) or does not finish has looked at nothing
                undecided.append('probe %s did not run: %s' % (pb, out.strip().split('\n')[-1][:160]))

    # evidence and replay files of runs against a scratch copy (sensitivity runs) never overwrite those of /repo
    evid_dir, replay_dir = EVID, REPLAY_OUT
    if os.environ.get('VX_REPO', '/repo') != '/repo':
        evid_dir = os.path.join(os.environ.get('VX_CACHE', '/var/tmp/vx-cache'), 'scratch-evidence')
        replay_dir = os.path.join(evid_dir, 'replay')
    os.makedirs(evid_dir, exist_ok=True)
    os.makedirs(replay_dir, exist_ok=True)
    exit_code = 0
    out_lines = []
    for f, k in known_hits:
        out_lines.append('KNOWN-FINDING: property=%s %s %s' % (a.prop, k['obligation'], k.get('what', '')))
    # a registered probe that finds a failing input on the real code is a violation by itself
    known_probes = {k.get('probe') for k in known if k.get('probe')}
    probe_viol = [p for p in probe_results if p['found_failing_input'] and not violations and p['probe'] not in known_probes]
    if violations or probe_viol:
        exit_code = 1
        seen = set()
        for f in violations:
            if f.id in seen:
                continue
            seen.add(f.id)
            slug = re.sub(r'[^A-Za-z0-9_.-]+', '_', f.id)[:120]
            path = os.path.join(replay_dir, '%s-%s.txt' % (a.prop, slug))
            wit = [p for p in probe_results if p['found_failing_input']]
            with open(path, 'w') as fh:
                fh.write('property: %s\nfailed obligation: %s\nclass: %s\nmessage: %s\nwhere: %s\nclause/statement: %s\n'
                         % (a.prop, f.id, f.kind, f.message, f.where, f.clause))
                fh.write('source item: %s\n' % (f.src_path or '(contract / lemma in specs/)'))
                fh.write('\nverifier output (Verus gives no counterexample):\n%s\n' % f.rendered)
                if wit:
                    fh.write('\nwitness probe(s) that fail against the real crates in /repo:\n')
                    for p in wit:
                        fh.write('--- %s\n%s\n' % (p['probe'], p['output']))
                else:
                    fh.write('\nno failing input found by the registered witness probes (%s)\n'
                             % (', '.join(probes) or 'none registered'))
            tail = '' if wit else ' no-failing-input-found'
            out_lines.append('VIOLATION property=%s replay=%s obligation=%s%s' % (a.prop, path, f.id.replace(' ', '_')[:160], tail))
        for p in probe_viol:
            path = os.path.join(replay_dir, '%s-probe-%s.txt' % (a.prop, p['probe']))
            with open(path, 'w') as fh:
                fh.write('property: %s\nwitness probe %s found a failing input on the real code\n%s\n' % (a.prop, p['probe'], p['output']))
            out_lines.append('VIOLATION property=%s replay=%s probe=%s' % (a.prop, path, p['probe']))
    elif undecided:
        exit_code = 2
        for u in undecided[:10]:
            out_lines.append('UNDECIDED property=%s reason=%s' % (a.prop, u[:400].replace('\n', ' ')))
    if exit_code == 0 and obligations == 0:
        exit_code = 2
        out_lines.append('UNDECIDED property=%s reason=zero obligations generated (vacuous run)' % a.prop)

    ev = {
        'property_id': a.prop,
        'tier': tier,
        'seed': seed,
        'level': 'proof',
        'coverage': {
            'obligations': obligations,
            'discharged': discharged,
            'checker_cmd': ' ; '.join(checker_cmds) or 'verus <unit>.rs --output-json --time --multiple-errors 40 --error-format=json',
            'trusted_base': trusted,
            'obligation_unit': 'one obligation = one Verus verification item (an exec fn of /repo under contract, or a proof fn/lemma), '
                               'all of whose generated SMT queries (pre/postconditions, loop invariants, overflow, bounds, termination) were discharged',
            'contract_clauses_in_units': clauses,
            'functions_under_contract': functions,
            'solver_ms_total': round(smt_ms, 1),
            'back_end': 'Verus 0.2026.09.13 / Z3 (bundled)',
            'units': units,
            'rewrites': rewrites,
            'dropped_by_extraction': 'doc comments; attributes; visibility qualifiers normalised to pub; items not named by the unit',
            'sentinel_rejected': all((not reports[u].error) and reports[u].sentinel_rejected for u in units),
            'known_failing': [{'obligation': f.id, 'entry': k['obligation']} for f, k in known_hits],
            'undecided': undecided,
            'unstable_queries': unstable,
            # bounded: each probe enumerates the finite set of inputs stated at the top of replay/src/bin/<probe>.rs against the real
            # crates; they are not part of the proof and never counted as discharged obligations
            'witness_probes': [dict(p, kind='bounded (not counted as proved)') for p in probe_results],
            'samples': samples,
            'expansion': xinfo,
            'explanation': P.get('explanation', ''),
        },
        'assumptions': P.get('assumptions', []) + ['every item listed in coverage.trusted_base'],
        'wall_s': round(time.time() - t0, 2),
        'violations': len(violations) + len(probe_viol),
    }
    with open(os.path.join(evid_dir, a.prop + '.json'), 'w') as fh:
        json.dump(ev, fh, indent=1)
    for l in out_lines:
        print(l)
    print('%s: %d/%d obligations discharged, %d violations, %d known findings, %d undecided, units=%s, %.1fs'
          % (a.prop, discharged, obligations, len(violations), len(known_hits), len(undecided), ','.join(units), time.time() - t0))
    return exit_code
