"""Macro-expand the crates of /repo's *current working tree* with rustc itself.

The working tree is copied (sources only) to a scratch directory, expanded with
`cargo +nightly rustc -- -Zunpretty=expanded`, and the scratch copy is removed.
Results are cached by a hash of the copied files, so the cache can never serve
text that does not correspond to the tree being checked.
"""
import fcntl
import hashlib
import os
import shutil
import subprocess
import tempfile
import time

REPO = os.environ.get('VX_REPO', '/repo')
CACHE = os.environ.get('VX_CACHE', '/var/tmp/vx-cache')

CRATES = {
    # name: (package, features)
    'stun_rs': ('stun-rs', 'ice turn discovery mobility'),
    'stun_agent': ('stun-agent', ''),
    # stun-rs as stun-agent sees it (default features): the 16-variant StunAttribute enum and its generated dispatch
    'stun_rs_default': ('stun-rs', ''),
}


def _tree_files(repo):
    out = []
    for top in ('Cargo.toml', 'Cargo.lock', 'stun-rs', 'stun-agent', 'stun-vectors'):
        p = os.path.join(repo, top)
        if os.path.isfile(p):
            out.append(p)
        elif os.path.isdir(p):
            for root, dirs, files in os.walk(p):
                dirs[:] = sorted(d for d in dirs if d not in ('target', '.git'))
                for f in sorted(files):
                    out.append(os.path.join(root, f))
    return out


def tree_hash(repo=REPO):
    h = hashlib.sha256()
    for f in _tree_files(repo):
        h.update(os.path.relpath(f, repo).encode())
        h.update(b'\0')
        with open(f, 'rb') as fh:
            h.update(fh.read())
        h.update(b'\0')
    return h.hexdigest()[:24]


def expand(repo=REPO, log=None):
    """Returns ({crate_name: expanded_text}, info)."""
    os.makedirs(CACHE, exist_ok=True)
    th = tree_hash(repo)
    cdir = os.path.join(CACHE, 'exp', th)
    info = {'tree_hash': th, 'cached': True, 'expand_s': 0.0, 'commands': []}
    lockf = open(os.path.join(CACHE, 'lock'), 'w')
    fcntl.flock(lockf, fcntl.LOCK_EX)
    try:
        if not all(os.path.isfile(os.path.join(cdir, c + '.rs')) for c in CRATES):
            info['cached'] = False
            t0 = time.time()
            scratch = tempfile.mkdtemp(prefix='vx-run.', dir='/var/tmp')
            try:
                for f in _tree_files(repo):
                    dst = os.path.join(scratch, os.path.relpath(f, repo))
                    os.makedirs(os.path.dirname(dst), exist_ok=True)
                    shutil.copy2(f, dst)
                tmpout = os.path.join(scratch, '_out')
                os.makedirs(tmpout)
                env = dict(os.environ, CARGO_NET_OFFLINE='true',
                           CARGO_TARGET_DIR=os.path.join(CACHE, 'target'))
                env.pop('RUSTUP_TOOLCHAIN', None)
                for name, (pkg, feats) in CRATES.items():
                    cmd = ['cargo', '+nightly', 'rustc', '-p', pkg, '--lib', '--offline']
                    if feats:
                        cmd += ['--features', feats]
                    cmd += ['--', '-Zunpretty=expanded']
                    info['commands'].append(' '.join(cmd))
                    r = subprocess.run(cmd, cwd=scratch, env=env, stdout=subprocess.PIPE,
                                       stderr=subprocess.PIPE, text=True)
                    if r.returncode != 0 or 'mod ' not in r.stdout:
                        raise RuntimeError('expansion of %s failed (does the tree compile?):\n%s'
                                           % (pkg, r.stderr[-3000:]))
                    with open(os.path.join(tmpout, name + '.rs'), 'w') as fh:
                        fh.write(r.stdout)
                os.makedirs(os.path.dirname(cdir), exist_ok=True)
                if os.path.isdir(cdir):
                    shutil.rmtree(cdir)
                shutil.move(tmpout, cdir)
            finally:
                shutil.rmtree(scratch, ignore_errors=True)
            info['expand_s'] = round(time.time() - t0, 2)
            _prune(os.path.join(CACHE, 'exp'), keep=th)
        else:
            try:
                os.utime(cdir, None)
            except OSError:
                pass
    finally:
        fcntl.flock(lockf, fcntl.LOCK_UN)
        lockf.close()
    texts = {}
    for c in CRATES:
        with open(os.path.join(cdir, c + '.rs')) as fh:
            texts[c] = fh.read()
    return texts, info


def _prune(expdir, keep, maxn=12):
    try:
        ds = sorted((os.path.getmtime(os.path.join(expdir, d)), d) for d in os.listdir(expdir))
    except OSError:
        return
    for _, d in ds[:-maxn]:
        if d != keep:
            shutil.rmtree(os.path.join(expdir, d), ignore_errors=True)


if __name__ == '__main__':
    t, i = expand()
    print(i, {k: len(v) for k, v in t.items()})
