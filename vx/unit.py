"""Turn a unit template (specs/<unit>.vx.rs) into a Verus file.

A template is ordinary Verus text (shims, spec functions, lemmas) with holes:

    //@item <crate> :: <item path>           e.g. stun_rs :: mod common > fn padding
    //@tags C14 C01                          properties this item's obligations belong to (optional)
    //@rules R3 R5                           optional rewrite rules to enable for this item
    //@ret r                                 name given to the return value (default r)
    //@sig                                   replacement header (R7), raw lines follow
    //@prefix                                raw lines emitted before the item (verifier attributes)
    //@spec                                  raw lines: requires/ensures/decreases spliced between header and body
    //@loop N                                raw lines: invariant/decreases spliced onto the N-th loop of the body
    //@before "anchor"[#k]                   raw lines (ghost code) inserted before the source line containing anchor
    //@after "anchor"[#k]                    raw lines inserted after the statement containing anchor
    //@sub "from" => "to" [#k|all]           literal, logged substitution in the item text
    //@end

    //@item! <crate> :: <item path>          self-closing form: verbatim item (types, consts)

The body of the item is the compiler's expansion of /repo's working tree, cut out by path;
only the catalogued rewrites (rewrite.py) and the logged //@sub lines touch it.
"""
import re

from . import rewrite
from .source import ExtractError, mask, match_close, norm

DIRECTIVE = re.compile(r'^\s*//@(\w+!?)\s*(.*)$')
RAW_KINDS = ('spec', 'loop', 'before', 'after', 'sig', 'prefix', 'closure', 'tail', 'loopstart', 'loopend', 'head', 'at', 'stmt')


class ItemSpec:
    def __init__(self, crate, path, tline):
        self.crate = crate
        self.path = path
        self.tline = tline
        self.tags = []
        self.rules = []
        self.ret = 'r'
        self.blocks = []      # (kind, arg, [lines], tline)
        self.subs = []        # (frm, to, which, tline)
        self.indent = ''
        self.import_from = None
        self.rename = None


class GenLine:
    __slots__ = ('text', 'origin')

    def __init__(self, text, origin):
        self.text = text
        self.origin = origin  # ('tmpl', line) | ('src', item_idx) | ('spec', item_idx, kind, arg, tline)


def parse_template(text):
    """-> list of ('line', text, tline) | ('item', ItemSpec)"""
    out = []
    lines = text.split('\n')
    i = 0
    n = len(lines)
    while i < n:
        ln = lines[i]
        d = DIRECTIVE.match(ln)
        if d and d.group(1) in ('consts', 'consts!'):
            arg = d.group(2)
            force = d.group(1).endswith('!')     # `//@consts! crate :: path`: emit even if a same-named const exists (inside a `mod`)
            crate, _, path = arg.partition('::')
            spec = ItemSpec(crate.strip(), path.strip(), i + 1)
            spec.force = force
            spec.indent = re.match(r'\s*', ln).group(0)
            out.append(('consts', spec))
            i += 1
            continue
        if d and d.group(1) == 'importlemma':
            # `//@importlemma unit :: name [as newname]`: the statement (signature, requires, ensures) of a proof fn that unit
            # `unit` proves, declared here without proof - the same text, so the two cannot drift apart
            u, _, nm = d.group(2).partition('::')
            nm = nm.strip()
            rename = None
            mo_as = re.search(r'\s+as\s+([A-Za-z_][A-Za-z0-9_]*)\s*$', nm)
            if mo_as:
                rename = mo_as.group(1)
                nm = nm[:mo_as.start()].strip()
            spec = ItemSpec('', nm, i + 1)
            spec.indent = re.match(r'\s*', ln).group(0)
            spec.import_from = u.strip()
            spec.rename = rename
            out.append(('importlemma', spec))
            i += 1
            continue
        if d and d.group(1) in ('import', 'import!'):
            u, _, rest = d.group(2).partition('::')
            crate, _, path = rest.partition('::')
            rename = None
            mo_as = re.search(r'\s+as\s+([A-Za-z_][A-Za-z0-9_]*)\s*$', path)
            if mo_as:
                rename = mo_as.group(1)
                path = path[:mo_as.start()]
            spec = ItemSpec(crate.strip(), path.strip(), i + 1)
            spec.indent = re.match(r'\s*', ln).group(0)
            spec.import_from = u.strip()
            spec.rename = rename
            spec.extra = []
            i += 1
            if d.group(1) == 'import!':
                # `//@import! ..` + clause lines + `//@end`: clauses the importing unit *assumes in addition* to what the
                # exporting unit proves (kept visible in the template; counted as trusted)
                while i < n and not lines[i].strip().startswith('//@end'):
                    spec.extra.append(lines[i])
                    i += 1
                i += 1
            out.append(('import', spec))
            continue
        if not d or d.group(1) not in ('item', 'item!'):
            if d and d.group(1) not in ('item', 'item!'):
                raise ExtractError('template line %d: directive //@%s outside //@item' % (i + 1, d.group(1)))
            out.append(('line', ln, i + 1))
            i += 1
            continue
        crate, _, path = d.group(2).partition('::')
        spec = ItemSpec(crate.strip(), path.strip(), i + 1)
        spec.indent = re.match(r'\s*', ln).group(0)
        i += 1
        if d.group(1) == 'item!':
            out.append(('item', spec))
            continue
        cur = None
        while True:
            if i >= n:
                raise ExtractError('template: //@item at line %d has no //@end' % spec.tline)
            ln = lines[i]
            d = DIRECTIVE.match(ln)
            if d:
                k, arg = d.group(1), d.group(2).strip()
                if k == 'end':
                    i += 1
                    break
                elif k == 'tags':
                    spec.tags += arg.split()
                    cur = None
                elif k == 'rules':
                    spec.rules += arg.split()
                    cur = None
                elif k == 'ret':
                    spec.ret = arg
                    cur = None
                elif k in ('sub', 'subopt'):
                    mo = re.match(r'"((?:[^"\\]|\\.)*)"\s*=>\s*"((?:[^"\\]|\\.)*)"\s*(#\d+|all)?\s*$', arg)
                    if not mo:
                        raise ExtractError('template line %d: bad //@sub' % (i + 1))
                    spec.subs.append((_unesc(mo.group(1)), _unesc(mo.group(2)), ('opt' if k == 'subopt' else (mo.group(3) or '#1!')), i + 1))
                    cur = None
                elif k in RAW_KINDS:
                    cur = (k, arg, [], i + 1)
                    spec.blocks.append(cur)
                else:
                    raise ExtractError('template line %d: unknown directive //@%s' % (i + 1, k))
            else:
                if cur is None:
                    if ln.strip():
                        raise ExtractError('template line %d: text outside a raw block in //@item' % (i + 1))
                else:
                    cur[2].append(ln)
            i += 1
        out.append(('item', spec))
    return out


def _unesc(s):
    return s.replace('\\"', '"').replace('\\n', '\n').replace('\\\\', '\\')


_TOK = re.compile(r'[A-Za-z_][A-Za-z0-9_]*|\d\w*|\S')
_IDENT = re.compile(r'[A-Za-z_][A-Za-z0-9_]*$')
_KEYWORDS = frozenset(('as break const continue crate else enum extern false fn for if impl in let loop match mod move mut pub ref '
                       'return self Self static struct super trait true type unsafe use where while async await dyn Some None Ok Err').split())


def _tokens(m):
    return [(mo.group(0), mo.start(), mo.end()) for mo in _TOK.finditer(m)]


def _token_spans(m, anchor, toks=None):
    """(start, end) of every place where the tokens of `anchor` occur in the masked text `m`, white space ignored"""
    atoks = _TOK.findall(mask(anchor))
    if not atoks:
        return []
    toks = toks if toks is not None else _tokens(m)
    out = []
    first = atoks[0]
    for i in range(len(toks) - len(atoks) + 1):
        if toks[i][0] != first:
            continue
        if all(toks[i + k][0] == a for k, a in enumerate(atoks)):
            out.append((toks[i][1], toks[i + len(atoks) - 1][2]))
    return out


def _anchor_texts(spec):
    for frm, to, which, tline in spec.subs:
        if which != 'opt':
            yield frm
    for kind, arg, lines, tline in spec.blocks:
        if kind in ('before', 'after', 'stmt', 'at'):
            mo = re.match(r'"((?:[^"\\]|\\.)*)"', arg)
            if mo:
                yield _unesc(mo.group(1))


def _bound_local(m, name):
    nm = re.escape(name)
    return re.search(r'(?:let\s+(?:mut\s+)?\(?|[(,|]\s*(?:mut\s+)?|Some\(|Ok\(|Err\(|for\s+\(?)%s\s*[:=,)|]|for\s+%s\s+in\b' % (nm, nm), m) is not None


def _alpha_recover(text, spec, what, log):
    """RA: a local variable of the function was renamed, so an anchor of the template no longer occurs. If the anchor matches the
    function token for token except for names that no longer occur in the function at all, and the names found in their place
    are bound locals, the function is alpha-renamed back to the names the template was written with (a consistent renaming
    of a local to a name that occurs nowhere in the function: same program). Anything ambiguous is left alone and the
    extraction fails as before (UNDECIDED)."""
    m = mask(text)
    toks = _tokens(m)
    idents = {t for t, _, _ in toks if _IDENT.match(t)}
    mapping = {}
    for anchor in _anchor_texts(spec):
        if anchor in text or _token_spans(m, anchor, toks):
            continue
        atoks = _TOK.findall(mask(anchor))
        missing = {a for a in atoks if _IDENT.match(a) and a not in idents and a not in _KEYWORDS}
        if not missing or not atoks:
            continue
        cands = set()
        for i in range(len(toks) - len(atoks) + 1):
            local = {}
            ok = True
            for k, a in enumerate(atoks):
                t = toks[i + k][0]
                if a in missing:
                    if not _IDENT.match(t) or t in _KEYWORDS or local.setdefault(a, t) != t:
                        ok = False
                        break
                elif a != t:
                    ok = False
                    break
            if ok and len(set(local.values())) == len(local):
                cands.add(tuple(sorted(local.items())))
        if len(cands) != 1:
            continue
        for old, new in cands.pop():
            if mapping.get(old, new) != new:
                return text          # inconsistent: leave it
            mapping[old] = new
    if not mapping or len(set(mapping.values())) != len(mapping):
        return text
    for old, new in mapping.items():
        if not _bound_local(m, new) or old in idents:
            return text
    inv = {new: old for old, new in mapping.items()}
    out = []
    last = 0
    n = 0
    for t, a, b in toks:
        if t in inv:
            k = a - 1
            while k >= 0 and m[k].isspace():
                k -= 1
            j = b
            while j < len(m) and m[j].isspace():
                j += 1
            if (k >= 0 and m[k] == '.' and not (k >= 1 and m[k - 1] == '.')) or (k >= 1 and m[k - 1:k + 1] == '::') \
                    or m.startswith('::', j) or m.startswith('(', j) or m.startswith('!', j):
                continue     # field / method / path segment / call of the same spelling: not the local
            out.append(text[last:a])
            out.append(inv[t])
            last = b
            n += 1
    out.append(text[last:])
    for old, new in mapping.items():
        log['rewrites'].append({'rule': 'RA', 'item': what, 'count': n,
                                'note': 'local `%s` alpha-renamed back to `%s` (the name the proof hints use)' % (new, old)})
    return ''.join(out)


# ---- RA over a recorded baseline: specs/baseline/<unit>.json holds, per extracted item, the token sequence the proof hints
# were written against (recorded by `VX_BASELINE_RECORD=1 bin/vxgen <unit> --no-run` on the tree the proofs were made on).
# It is used for one thing only: to recognise that identifiers of the current function are *renamings* of baseline
# identifiers (same place in the same token context), so that they can be alpha-renamed back. The text that is verified is
# always the current tree's.


def _free_idents(m, toks):
    """identifiers used as plain names: not a field / method (`.x`), not a path segment (`a::x`, `x::a`), not a call or macro"""
    out = set()
    for t, a, b in toks:
        if not _IDENT.match(t):
            continue
        k = a - 1
        while k >= 0 and m[k].isspace():
            k -= 1
        j = b
        while j < len(m) and m[j].isspace():
            j += 1
        if (k >= 0 and m[k] == '.' and not (k >= 1 and m[k - 1] == '.')) or (k >= 1 and m[k - 1:k + 1] == '::') \
                or m.startswith('::', j) or m.startswith('(', j) or m.startswith('!', j):
            continue
        out.add(t)
    return out


def _alpha_recover_baseline(text, what, log):
    base = log.get('_base', {}).get(what)
    if not base:
        return text
    import difflib
    m = mask(text)
    toks = _tokens(m)
    cur = [t for t, _, _ in toks]
    if cur == base:
        return text
    cur_ids = _free_idents(m, toks)
    base_ids = set()
    for i, t in enumerate(base):
        if _IDENT.match(t):
            prev = base[i - 1] if i > 0 else ''
            prev2 = base[i - 2] if i > 1 else ''
            nxt = base[i + 1] if i + 1 < len(base) else ''
            nxt2 = base[i + 2] if i + 2 < len(base) else ''
            if (prev == '.' and prev2 != '.') or (prev == ':' and prev2 == ':') or nxt in ('(', '!') or (nxt == ':' and nxt2 == ':'):
                continue
            base_ids.add(t)
    votes = {}
    sm = difflib.SequenceMatcher(None, base, cur, autojunk=False)
    for tag, i1, i2, j1, j2 in sm.get_opcodes():
        if tag != 'replace' or i2 - i1 != j2 - j1:
            continue
        for b, c in zip(base[i1:i2], cur[j1:j2]):
            if b != c and _IDENT.match(b) and _IDENT.match(c) and b not in _KEYWORDS and c not in _KEYWORDS:
                votes.setdefault(c, set()).add(b)
    mapping = {}
    for c, bs in votes.items():
        if len(bs) != 1:
            continue
        b = next(iter(bs))
        # the new name is unknown to the baseline, the old name is gone from the function, the new name is a bound local / parameter
        if c in base_ids or b in cur_ids or not _bound_local(m, c):
            continue
        mapping[c] = b
    # one old name renamed into several new ones (it was bound more than once, in disjoint scopes): merging them back is only
    # known to be a renaming when the result is token for token the baseline; otherwise those names are left alone
    import collections as _c
    cnt = _c.Counter(mapping.values())
    if any(v > 1 for v in cnt.values()):
        merged = []
        for t, a, b in toks:
            if t in mapping:
                k = a - 1
                while k >= 0 and m[k].isspace():
                    k -= 1
                j = b
                while j < len(m) and m[j].isspace():
                    j += 1
                if not ((k >= 0 and m[k] == '.' and not (k >= 1 and m[k - 1] == '.')) or (k >= 1 and m[k - 1:k + 1] == '::')
                        or m.startswith('::', j) or m.startswith('(', j) or m.startswith('!', j)):
                    merged.append(mapping[t])
                    continue
            merged.append(t)
        if merged != base:
            mapping = {c: b for c, b in mapping.items() if cnt[b] == 1}
    if not mapping:
        return text
    out = []
    last = 0
    n = 0
    for t, a, b in toks:
        if t in mapping:
            k = a - 1
            while k >= 0 and m[k].isspace():
                k -= 1
            j = b
            while j < len(m) and m[j].isspace():
                j += 1
            if (k >= 0 and m[k] == '.' and not (k >= 1 and m[k - 1] == '.')) or (k >= 1 and m[k - 1:k + 1] == '::') \
                    or m.startswith('::', j) or m.startswith('(', j) or m.startswith('!', j):
                continue
            out.append(text[last:a])
            out.append(mapping[t])
            last = b
            n += 1
    out.append(text[last:])
    for new, old in sorted(mapping.items()):
        log['rewrites'].append({'rule': 'RA', 'item': what, 'count': n,
                                'note': 'local `%s` alpha-renamed back to `%s` (aligned with the recorded baseline of the item)' % (new, old)})
    return ''.join(out)


def _find_anchor(text, m, arg, what, span=False):
    mo = re.match(r'"((?:[^"\\]|\\.)*)"\s*(#\d+|#last)?\s*$', arg)
    if not mo:
        raise ExtractError('bad anchor syntax: %s' % arg)
    anchor = _unesc(mo.group(1))
    occ = mo.group(2)
    pos = []
    j = text.find(anchor)
    while j >= 0:
        pos.append((j, j + len(anchor)))
        j = text.find(anchor, j + 1)
    if not pos:
        # same tokens, different white space (the pretty-printer wraps lines by length)
        pos = _token_spans(m, anchor)
    if not pos:
        raise ExtractError('anchor lost in %s: "%s"' % (what, anchor))
    pick = (lambda p: p) if span else (lambda p: p[0])
    if occ == '#last':
        return pick(pos[-1])
    if occ:
        k = int(occ[1:])
        if k > len(pos):
            raise ExtractError('anchor "%s" occurrence %s lost in %s' % (anchor, occ, what))
        return pick(pos[k - 1])
    if len(pos) != 1:
        raise ExtractError('anchor "%s" ambiguous (%d) in %s' % (anchor, len(pos), what))
    return pick(pos[0])


def _header_end(m):
    """index of the body '{' of an fn item text (masked), or None if no body"""
    j = 0
    while j < len(m) and m[j] not in '{;':
        if m[j] in '([':
            j = match_close(m, j)
        j += 1
    if j < len(m) and m[j] == '{':
        return j
    return None


def _param_names(header):
    """names of the parameters of a fn header, in order (`self` for any receiver); None if it cannot be read"""
    m = mask(header)
    k = m.find('fn ')
    if k < 0:
        return None
    i = k + 3
    depth = 0
    p = -1
    while i < len(m):
        c = m[i]
        if c == '<':
            depth += 1
        elif c == '>' and m[i - 1] != '-':
            depth -= 1
        elif c == '(' and depth == 0:
            p = i
            break
        i += 1
    if p < 0:
        return None
    q = match_close(m, p)
    inner = m[p + 1:q]
    parts = []
    d = 0
    cur = ''
    for c in inner:
        if c in '([{<':
            d += 1
        elif c in ')]}>':
            d -= 1
        if c == ',' and d == 0:
            parts.append(cur)
            cur = ''
        else:
            cur += c
    if cur.strip():
        parts.append(cur)
    names = []
    for part in parts:
        part = part.strip()
        if not part:
            continue
        head = part.split(':')[0].strip()
        head = re.sub(r"^(&\s*('\w+\s+)?)?(mut\s+)?", '', head).strip()
        if head.endswith('self') or head == 'self':
            names.append('self')
        else:
            names.append(head)
    return names


def _name_return(header, ret):
    """`fn f(..) -> T where ..` => `fn f(..) -> (ret: T) where ..`"""
    m = mask(header)
    # find parameter list
    p = m.find('(', m.find('fn '))
    # generics may contain parens only in Fn bounds; find the '(' that follows the fn name/generics
    depth = 0
    i = m.find('fn ') + 3
    while i < len(m):
        c = m[i]
        if c == '<':
            depth += 1
        elif c == '>' and m[i - 1] != '-':
            depth -= 1
        elif c == '(' and depth == 0:
            p = i
            break
        i += 1
    q = match_close(m, p)
    rest = m[q + 1:]
    a = rest.find('->')
    if a < 0:
        return header
    tstart = q + 1 + a + 2
    # type ends at top-level `where` or end
    depth = 0
    i = tstart
    tend = len(m)
    while i < len(m):
        c = m[i]
        if c in '<([':
            depth += 1
        elif c in ')]' or (c == '>' and m[i - 1] != '-'):
            depth -= 1
        elif depth == 0 and m.startswith('where', i) and not (m[i - 1].isalnum() or m[i - 1] == '_') \
                and (i + 5 >= len(m) or not (m[i + 5].isalnum() or m[i + 5] == '_')):
            tend = i
            break
        i += 1
    ty = header[tstart:tend].strip()
    if ty.startswith('(') and re.match(r'\(\s*\w+\s*:', ty):
        return header
    return header[:tstart] + ' (' + ret + ': ' + ty + ') ' + header[tend:]


LOOP_KW = re.compile(r'(?<![A-Za-z0-9_])(while|loop|for)(?![A-Za-z0-9_])')


def _loop_body_open(m, body_from, nth):
    k = 0
    for mo in LOOP_KW.finditer(m, body_from):
        k += 1
        if k == nth:
            j = mo.end()
            while m[j] != '{':
                if m[j] in '([':
                    j = match_close(m, j)
                j += 1
            return j
    raise ExtractError('loop #%d not found' % nth)


def build_item(src, spec, idx, log, degrade=False):
    """-> list[GenLine] for one //@item"""
    it = src.resolve(spec.path)
    text = src.item_text(it)
    what = '%s :: %s' % (spec.crate, spec.path)
    # 1. catalogued rewrites
    text = rewrite.apply(text, spec.rules, what, log, lenient=degrade)

    def lost(msg):
        log.setdefault('degraded', {}).setdefault(what, []).append(msg)
    # 1b. RA: undo renamings of locals / parameters (hints and contracts are written with the old names)
    if log.get('_base_out') is not None:
        log['_base_out'][what] = [t for t, _, _ in _tokens(mask(text))]
    text = _alpha_recover_baseline(text, what, log)
    text = _alpha_recover(text, spec, what, log)
    # 2. logged literal substitutions
    for frm, to, which, tline in spec.subs:
        cnt = text.count(frm)
        if cnt == 0 and which == '#1!':
            sp = _token_spans(mask(text), frm)
            if len(sp) == 1:     # same tokens, different white space
                text = text[:sp[0][0]] + to + text[sp[0][1]:]
                log['subs'].append({'item': what, 'from': frm, 'to': to, 'count': 1})
                continue
        if which == 'opt':
            # optional: applied wherever it occurs (used for flat-namespace renames of call targets)
            if cnt:
                text = text.replace(frm, to)
                log['subs'].append({'item': what, 'from': frm, 'to': to, 'count': cnt})
            continue
        if cnt == 0 and degrade:
            lost('//@sub "%s" not applied (text gone)' % frm[:60])
            continue
        if cnt == 0:
            raise ExtractError('//@sub anchor lost in %s (template line %d): "%s"' % (what, tline, frm))
        if which == 'all':
            text = text.replace(frm, to)
            done = cnt
        elif which == '#1!':
            if cnt != 1:
                raise ExtractError('//@sub "%s" ambiguous (%d) in %s (template line %d)' % (frm, cnt, what, tline))
            text = text.replace(frm, to)
            done = 1
        else:
            k = int(which[1:])
            if k > cnt:
                raise ExtractError('//@sub "%s" occurrence %s lost in %s' % (frm, which, what))
            pos = -1
            for _ in range(k):
                pos = text.find(frm, pos + 1)
            text = text[:pos] + to + text[pos + len(frm):]
            done = 1
        log['subs'].append({'item': what, 'from': frm, 'to': to, 'count': done})
    # 2b. conditional hint lines: `//@?name <text>` is kept only while the function still has an identifier `name`
    #     (a proof hint about a local must not turn its removal into an extraction failure)
    nb = []
    for kind, arg, lines, tline in spec.blocks:
        keep = []
        for l in lines:
            mo = re.match(r'\s*//@\?([A-Za-z_][A-Za-z0-9_]*)\s(.*)$', l)
            if mo:
                nm = re.escape(mo.group(1))
                # the name must be *bound* in the function (let / parameter / closure parameter / pattern), not merely occur
                if re.search(r'(?:let\s+(?:mut\s+)?\(?|[(,|]\s*(?:mut\s+)?|Some\(|Ok\()%s\s*[:=,)|]' % nm, mask(text)):
                    keep.append(mo.group(2))
                else:
                    log['subs'].append({'item': what, 'from': 'hint on `%s`' % mo.group(1), 'to': '(dropped: identifier no longer in the function)', 'count': 1})
            else:
                keep.append(l)
        nb.append((kind, arg, keep, tline))
    spec.blocks = nb
    # 3a. closure annotations (R10): typed params + ensures spliced onto the N-th closure, body verbatim.
    #     Applied from the last closure to the first so ordinals stay valid.
    cls = [b for b in spec.blocks if b[0] == 'closure']
    for kind, arg, lines, tline in sorted(cls, key=lambda b: -int(b[1])):
        okey = (kind, arg, tline)
        m0 = mask(text)
        he = _header_end(m0) if it.kind == 'fn' else 0
        text_c = rewrite.annotate_closure(text, he or 0, int(arg), lines, lambda l: _tag(l, idx, okey))
        if text_c is None:
            log['rewrites'].append({'rule': 'R10', 'item': what, 'count': 0, 'note': 'closure #%s is gone: its annotation is not applied' % arg})
            continue
        text = text_c
        log['rewrites'].append({'rule': 'R10', 'item': what, 'count': 1, 'note': 'closure #%s given explicit signature/ensures' % arg})
    # 3. splices: collect (position, text, originkind) then apply back to front
    m = mask(text)
    inserts = []   # (pos, [lines], originkey)
    hdr_end = _header_end(m) if it.kind == 'fn' else None
    blocks = {k: [] for k in RAW_KINDS}
    for b in spec.blocks:
        blocks[b[0]].append(b)
    header_override = None
    for kind, arg, lines, tline in spec.blocks:
        try:
            okey = (kind, arg, tline)
            if kind == 'spec':
                if hdr_end is None:
                    raise ExtractError('//@spec on item without body: %s' % what)
                inserts.append((hdr_end, lines, okey))
            elif kind == 'loop':
                if hdr_end is None:
                    raise ExtractError('//@loop on item without body: %s' % what)
                pos = _loop_body_open(m, hdr_end, int(arg))
                inserts.append((pos, lines, okey))
            elif kind == 'before':
                a = _find_anchor(text, m, arg, what)
                ls = text.rfind('\n', 0, a) + 1
                if text[ls:a].strip() == '' and (hdr_end is None or ls > hdr_end):
                    inserts.append((ls, lines, okey))
                else:
                    inserts.append((a, [''] + lines, okey))
            elif kind == 'after':
                a = _find_anchor(text, m, arg, what)
                j = a
                depth = 0
                while True:
                    if j >= len(m):
                        raise ExtractError('//@after: statement end not found for %s in %s' % (arg, what))
                    c = m[j]
                    if c in '([{':
                        depth += 1
                    elif c in ')]}':
                        if depth == 0:
                            raise ExtractError('//@after: anchor %s is in a tail expression in %s' % (arg, what))
                        depth -= 1
                        if depth == 0 and c == '}':
                            # block-like statement (if/match/while) ends here unless followed by ; or an operator
                            k = j + 1
                            while k < len(m) and m[k] in ' \t':
                                k += 1
                            if k < len(m) and m[k] == '\n':
                                k2 = k
                                while k2 < len(m) and m[k2].isspace():
                                    k2 += 1
                                if not (m.startswith('else', k2) or m[k2] in '.?;'):
                                    j = j + 1
                                    break
                    elif c == ';' and depth == 0:
                        j += 1
                        break
                    j += 1
                inserts.append((j, [''] + lines, okey))
            elif kind == 'stmt':
                # before the statement whose (first) line contains the anchor
                a = _find_anchor(text, m, arg, what)
                ls = text.rfind('\n', 0, a) + 1
                k = ls - 1
                while k >= 0 and m[k].isspace():
                    k -= 1
                if k >= 0 and m[k] not in ';{}':
                    raise ExtractError('//@stmt: anchor %s is not on the first line of a statement in %s' % (arg, what))
                inserts.append((ls, lines, okey))
            elif kind == 'at':
                a, a_end = _find_anchor(text, m, arg, what, span=True)
                inserts.append((a_end, [''] + lines, okey))
            elif kind == 'head':
                inserts.append((hdr_end + 1, [''] + lines, okey))
            elif kind == 'loopstart':
                pos = _loop_body_open(m, hdr_end, int(arg))
                inserts.append((pos + 1, [''] + lines, ('loopstart', arg, tline)))
            elif kind == 'loopend':
                pos = match_close(m, _loop_body_open(m, hdr_end, int(arg)))
                inserts.append((pos, [''] + lines, ('loopend', arg, tline)))
            elif kind == 'tail':
                # before the tail expression of the fn body (or at its end if there is none)
                close = match_close(m, hdr_end)
                j = hdr_end + 1
                last = hdr_end + 1
                depth = 0
                while j < close:
                    c = m[j]
                    if c in '([{':
                        depth += 1
                    elif c in ')]}':
                        depth -= 1
                        if depth == 0 and c == '}':
                            # block statement end unless followed by an operator / method call / else
                            k = j + 1
                            while k < close and m[k].isspace():
                                k += 1
                            if not (m.startswith('else', k) or (k < close and m[k] in '.?')):
                                last = j + 1
                    elif c == ';' and depth == 0:
                        last = j + 1
                    j += 1
                if m[last:close].strip() == '':
                    inserts.append((close, [''] + lines, okey))
                else:
                    k = last
                    while m[k].isspace():
                        k += 1
                    ls = text.rfind('\n', 0, k) + 1
                    inserts.append((ls if text[ls:k].strip() == '' else k, lines if text[ls:k].strip() == '' else [''] + lines, okey))
            elif kind == 'sig':
                header_override = (lines, okey)
            elif kind == 'prefix':
                pass
            elif kind == 'closure':
                pass   # handled before the other splices (changes the text)
        except ExtractError as e:
            # degraded mode: a proof hint whose place is gone is left out (the function is then verified without it and a
            # failure of that function counts as undecided, see engine); contracts (//@spec) are never dropped
            if degrade and kind in ('before', 'after', 'stmt', 'at', 'loop', 'loopstart', 'loopend', 'tail', 'head'):
                lost('hint block //@%s %s not placed: %s' % (kind, arg[:50], str(e)[:120]))
                continue
            raise
    # apply inserts back to front, with markers
    inserts.sort(key=lambda x: x[0], reverse=True)
    for pos, lines, okey in inserts:
        if hdr_end is not None and pos < hdr_end:
            raise ExtractError('splice position inside the header of %s' % what)
        tagged = '\n'.join(_tag(l, idx, okey) for l in lines)
        pre = text[:pos]
        if okey[0] in ('spec', 'loop', 'closure'):
            text = pre + '\n' + tagged + '\n' + spec.indent + text[pos:]
        elif okey[0] == 'before':
            text = pre + tagged + '\n' + text[pos:]
        else:
            text = pre + tagged + '\n' + text[pos:]
    # header naming of return value / override (all inserts are at or after hdr_end, so the
    # header text is still text[:hdr_end])
    if it.kind == 'fn' and hdr_end is not None:
        header = text[:hdr_end]
        rest = text[hdr_end:]
        if header_override is not None:
            lines, okey = header_override
            # the override instantiates generic parameters; it must still describe the same parameters in the same order
            real_p, over_p = _param_names(header), _param_names('\n'.join(lines))
            fn_real = re.search(r'\bfn\s+(\w+)', mask(header))
            fn_over = re.search(r'\bfn\s+(\w+)', mask('\n'.join(lines)))
            same_fn = fn_real and fn_over and fn_real.group(1) == fn_over.group(1)
            # (an override that also renames the function re-purposes its body on purpose, e.g. the Drop body as `vx_commit`)
            if same_fn and real_p is not None and over_p is not None and real_p != over_p:
                raise ExtractError('//@sig of %s names the parameters %s but the function now has %s' % (what, over_p, real_p))
            header = '\n'.join(_tag(l, idx, okey) for l in lines) + '\n'
            log['rewrites'].append({'rule': 'R7', 'item': what, 'count': 1, 'note': 'header replaced by //@sig'})
        elif any(b[0] == 'spec' for b in spec.blocks):
            header = _name_return(header, spec.ret)
        text = header + rest
    out = []
    has_iso = False
    for kind, arg, lines, tline in spec.blocks:
        if kind == 'prefix':
            for l in lines:
                has_iso = has_iso or 'loop_isolation' in l
                out.append(GenLine(l, ('spec', idx, 'prefix', arg, tline)))
    # every extracted function with a loop is verified without loop isolation: what is known before the loop about
    # variables the loop does not assign stays known inside it, so that a refactoring which hoists a value into a
    # local ahead of the loop needs no new invariant (false alarm found by the benign-refactoring experiment, cred-2)
    if it.kind == 'fn' and not has_iso and re.search(r'\b(loop|while|for)\b', _strip_comments(text)):
        for l in ('#[verifier::loop_isolation(false)]', '#[verifier::allow_complex_invariants]'):
            out.append(GenLine(spec.indent + l, ('spec', idx, 'prefix', 'auto', 0)))
    for l in text.split('\n'):
        mo = re.search(r'\s*//@@(\d+):(\w+):([^:]*):(\d+)$', l)
        if mo:
            out.append(GenLine(l[:mo.start()], ('spec', idx, mo.group(2), mo.group(3), int(mo.group(4)))))
        else:
            out.append(GenLine(spec.indent + l if l.strip() else l, ('src', idx)))
    return out, it


def _strip_comments(text):
    text = re.sub(r'"(?:[^"\\]|\\.)*"', '""', text)
    return re.sub(r'//[^\n]*', '', text)


def _tag(line, idx, okey):
    kind, arg, tline = okey
    arg = re.sub(r'[^A-Za-z0-9_#.]', '_', arg)[:40]
    return '%s //@@%d:%s:%s:%d' % (line, idx, kind, arg, tline)


class Unit:
    def __init__(self, name, lines, items, log):
        self.name = name
        self.lines = lines      # [GenLine]
        self.items = items      # [(ItemSpec, Item, first_line, last_line)]
        self.log = log

    def text(self):
        return '\n'.join(l.text for l in self.lines) + '\n'

    def origin(self, lineno):
        if 1 <= lineno <= len(self.lines):
            return self.lines[lineno - 1].origin
        return ('tmpl', 0)

    def item_at(self, lineno):
        for spec, it, a, b in self.items:
            if a <= lineno <= b:
                return spec, it
        return None, None


def build_import(src, spec, log, read_template):
    """`//@import unit :: crate :: path`: the callee as an external_body declaration carrying exactly the contract
    that unit `unit` proves for it (same spec text, taken from that unit's template)."""
    other = parse_template(read_template(spec.import_from))
    found = None
    for p in other:
        if p[0] == 'item' and p[1].crate == spec.crate and norm(p[1].path) == norm(spec.path):
            found = p[1]
    if found is None:
        raise ExtractError('import: unit %s proves no contract for %s :: %s' % (spec.import_from, spec.crate, spec.path))
    it = src.resolve(spec.path)
    if it.kind != 'fn':
        raise ExtractError('import of a non-fn item: %s' % spec.path)
    text = src.item_text(it)
    text, _ = rewrite.r0_attrs(text)
    text, _ = rewrite.r0_vis(text)
    if 'R5' in found.rules:
        text = text.replace('mut self', 'self', 1)
    m = mask(text)
    he = _header_end(m)
    header = text[:he] if he is not None else text.rstrip().rstrip(';')
    sig = [b for b in found.blocks if b[0] == 'sig']
    specs = [b for b in found.blocks if b[0] == 'spec']
    if sig:
        header = '\n'.join(sig[0][2]) + '\n'
    elif specs:
        header = _name_return(header, found.ret)
    # mutable bindings in parameter position are irrelevant for a declaration
    header = re.sub(r'\(\s*mut\s+([a-z_][A-Za-z0-9_]*)\s*:', r'(\1:', header)
    header = re.sub(r',\s*mut\s+([a-z_][A-Za-z0-9_]*)\s*:', r', \1:', header)
    for frm, to, which, tline in found.subs:
        if frm in header:
            header = header.replace(frm, to)
    if spec.rename:
        header = re.sub(r'(?<![A-Za-z0-9_])fn\s+%s(?![A-Za-z0-9_])' % re.escape(it.name), 'fn ' + spec.rename, header, count=1)
    lines = ['#[verifier::external_body] // vx-import:%s' % spec.import_from] + header.rstrip().split('\n')
    for b in specs:
        lines += b[2]
    lines += getattr(spec, 'extra', [])
    lines.append('{ unimplemented!() }')
    log.setdefault('imports', []).append({'from_unit': spec.import_from, 'item': '%s :: %s' % (spec.crate, spec.path)})
    return [GenLine(spec.indent + l if l.strip() else l, ('tmpl', spec.tline)) for l in lines]


def build_importlemma(spec, log, read_template):
    text = read_template(spec.import_from)
    mo = re.search(r'^[ \t]*(?:pub\s+)?(?:broadcast\s+)?proof fn\s+%s\s*(?:<[^>]*>)?\(' % re.escape(spec.path), text, re.M)
    if not mo:
        raise ExtractError('importlemma: unit %s has no proof fn %s' % (spec.import_from, spec.path))
    m = mask(text)
    # the body is the first `{` at bracket depth 0 after the header that is not inside `ensures ({ .. })`
    j = mo.end() - 1
    j = match_close(m, j) + 1
    depth = 0
    while j < len(m):
        c = m[j]
        if c in '([':
            depth += 1
        elif c in ')]':
            depth -= 1
        elif c == '{' and depth == 0:
            break
        j += 1
    header = text[mo.start():j].rstrip()
    body_end = match_close(m, j)
    if 'admit()' in text[j:body_end] or 'assume(' in text[j:body_end]:
        raise ExtractError('importlemma: %s in unit %s is not proved (admit/assume in its body)' % (spec.path, spec.import_from))
    # it must not be an external_body declaration itself
    pre = text[max(0, mo.start() - 200):mo.start()]
    if re.search(r'external_body\]\s*$', pre.rstrip()):
        raise ExtractError('importlemma: %s in unit %s is itself unproved (external_body)' % (spec.path, spec.import_from))
    if spec.rename:
        header = re.sub(r'proof fn\s+%s' % re.escape(spec.path), 'proof fn ' + spec.rename, header, count=1)
    if not header.lstrip().startswith('pub'):
        header = 'pub ' + header.lstrip()
    log.setdefault('imports', []).append({'from_unit': spec.import_from, 'item': 'proof fn ' + spec.path})
    lines = ['#[verifier::external_body] // vx-import:%s' % spec.import_from] + header.split('\n') + ['{}']
    return [GenLine(spec.indent + l if l.strip() else l, ('tmpl', spec.tline)) for l in lines]


def build_unit(name, template_text, sources, read_template=None):
    """sources: {crate: Source}"""
    log = {'rewrites': [], 'subs': [], 'dropped': 'doc comments, attributes (#[derive], #[inline], ...), '
           'items not named by the unit'}
    parts = parse_template(template_text)
    import json as _json
    import os as _os
    import hashlib as _h
    # (per unit, kept in the unit's own log while it is built: units are built concurrently)
    bpath = _os.path.join(_os.path.dirname(_os.path.dirname(_os.path.abspath(__file__))), 'specs', 'baseline', name + '.json')
    log['_base'] = {}
    log['_base_out'] = {} if _os.environ.get('VX_BASELINE_RECORD') else None
    here = _os.path.dirname(_os.path.abspath(__file__))
    stamp = _h.sha256((template_text + open(_os.path.join(here, 'unit.py')).read()
                       + open(_os.path.join(here, 'rewrite.py')).read()).encode()).hexdigest()[:16]
    if log['_base_out'] is None and _os.path.isfile(bpath):
        with open(bpath) as fh:
            d = _json.load(fh)
        # a baseline recorded for another version of the template or of the extractor is not used (bin/mkbaseline re-records)
        if d.get('_stamp') == stamp:
            log['_base'] = {k: v.split(' ') for k, v in d.items() if k != '_stamp'}
        else:
            log['rewrites'].append({'rule': 'RA', 'item': name, 'count': 0, 'note': 'recorded baseline is stale (template or extractor changed): not used'})
    lines = []
    items = []
    idx = 0
    for p in parts:
        if p[0] == 'line':
            lines.append(GenLine(p[1], ('tmpl', p[2])))
        elif p[0] == 'consts':
            # every `const` item directly inside the named module, verbatim (new constants follow automatically)
            spec = p[1]
            src = sources[spec.crate]
            parent = src.resolve(spec.path) if spec.path else None
            have = '\n'.join(l.text for l in lines)
            for it in src.children(parent):
                if it.kind == 'const' and it.name:
                    # primitive-typed constants only (a const initialiser of a shimmed type cannot be const-evaluated)
                    if not re.search(r'const\s+%s\s*:\s*(u8|u16|u32|u64|u128|usize|i8|i16|i32|i64|isize|f32|f64|bool|char|&\s*(\'static\s+)?str)\s*=' % re.escape(it.name), src.item_text(it)) \
                            and not re.search(r'const\s+%s\s*:\s*Duration\s*=\s*Duration::from_(millis|secs)\(\s*[0-9_]+\s*\)' % re.escape(it.name), src.item_text(it)):
                        continue
                    if not getattr(spec, 'force', False):
                        mo_prev = re.search(r'(?<![A-Za-z0-9_])const\s+%s\s*:' % re.escape(it.name), have)
                        if mo_prev:
                            # same name already in the unit: it must be the same value (its initialiser text occurs in the
                            # existing definition, which may have been rewritten by R0c)
                            mo_new = re.search(r'=\s*([^;]*);', src.item_text(it))
                            seg = have[mo_prev.start():mo_prev.start() + 400]
                            if mo_new and norm(mo_new.group(1)) not in norm(seg):
                                raise ExtractError('constant %s of %s has another value than the same-named constant already in the unit'
                                                   % (it.name, spec.path))
                            continue
                    sub = ItemSpec(spec.crate, (spec.path + ' > ' if spec.path else '') + 'const ' + it.name, spec.tline)
                    sub.indent = spec.indent
                    gl, item = build_item(src, sub, idx, log)
                    first = len(lines) + 1
                    lines.extend(gl)
                    items.append((sub, item, first, len(lines)))
                    idx += 1
        elif p[0] == 'importlemma':
            spec = p[1]
            lines.extend(build_importlemma(spec, log, read_template))
        elif p[0] == 'import':
            spec = p[1]
            if spec.crate not in sources:
                raise ExtractError('unknown crate %s (template line %d)' % (spec.crate, spec.tline))
            lines.extend(build_import(sources[spec.crate], spec, log, read_template))
        else:
            spec = p[1]
            if spec.crate not in sources:
                raise ExtractError('unknown crate %s (template line %d)' % (spec.crate, spec.tline))
            n_rw, n_sb = len(log['rewrites']), len(log['subs'])
            try:
                gl, it = build_item(sources[spec.crate], spec, idx, log)
            except ExtractError as e0:
                # degraded mode: the item is extracted without the proof hints / optional rewrites whose place is gone; the engine
                # then accepts "verified" for it (fewer hints can only make a proof harder) and reports anything else as undecided
                del log['rewrites'][n_rw:]
                del log['subs'][n_sb:]
                what0 = '%s :: %s' % (spec.crate, spec.path)
                try:
                    gl, it = build_item(sources[spec.crate], spec, idx, log, degrade=True)
                except ExtractError:
                    log.get('degraded', {}).pop(what0, None)
                    raise e0
                if not log.get('degraded', {}).get(what0):
                    raise e0
                log['rewrites'].append({'rule': 'DEGRADED', 'item': what0, 'count': len(log['degraded'][what0]),
                                        'note': 'extracted without: ' + '; '.join(log['degraded'][what0])[:400]})
            first = len(lines) + 1
            lines.extend(gl)
            items.append((spec, it, first, len(lines)))
            idx += 1
    # RC: a constant that an extracted function names but the unit does not define is taken verbatim from the crate (a
    # refactoring that gives a literal a name must not cost the proof; a wrong value then fails the contract, as it should).
    # Only primitive-typed constants, and only when every module-level constant of that name in the crate has one value.
    have = '\n'.join(l.text for l in lines)
    used = {}
    for spec_i, it_i, first, last in items:
        for l in lines[first - 1:last]:
            if l.origin[0] == 'src':
                for nm in re.findall(r'(?<![A-Za-z0-9_:.])[A-Z][A-Z0-9]*(?:_[A-Z0-9]+)+(?![A-Za-z0-9_(!<])', mask(l.text)):
                    used.setdefault(nm, spec_i.crate)
    auto = []
    for nm, crate in sorted(used.items()):
        if re.search(r'(?<![A-Za-z0-9_])(?:const|static)\s+%s\s*:' % re.escape(nm), have):
            continue
        src = sources[crate]
        cands = []

        def walk(parent, path):
            for c in src.children(parent):
                if c.kind == 'mod' and c.name:
                    walk(c, path + ['mod ' + c.name])
                elif c.kind == 'const' and c.name == nm:
                    cands.append((path, c))
        walk(None, [])
        ok = [(pth, c) for pth, c in cands
              if re.search(r'const\s+%s\s*:\s*(u8|u16|u32|u64|u128|usize|i8|i16|i32|i64|isize|bool|char)\s*=' % re.escape(nm), src.item_text(c))]
        vals = {norm(re.search(r'=\s*([^;]*);', src.item_text(c)).group(1)) for pth, c in ok}
        if len(ok) != len(cands) or len(vals) != 1:
            continue
        pth, c = ok[0]
        sub = ItemSpec(crate, ' > '.join(pth + ['const ' + nm]), 0)
        sub.indent = ''
        try:
            gl, item = build_item(src, sub, idx, log)
        except ExtractError:
            continue
        idx += 1
        auto.append((sub, item, gl))
        log['rewrites'].append({'rule': 'RC', 'item': '%s :: %s' % (crate, sub.path), 'count': 1,
                                'note': 'constant named by an extracted function, taken verbatim from the crate'})
    if auto:
        k = len(lines) - 1
        while k >= 0 and not lines[k].text.startswith('} // verus!'):
            k -= 1
        if k < 0:
            raise ExtractError('template has no `} // verus!` line')
        for sub, item, gl in auto:
            lines[k:k] = gl
            items.append((sub, item, k + 1, k + len(gl)))
            k += len(gl)
    # declarations generated by rewrite rules (R9) go right before the end of the verus! block
    have = '\n'.join(l.text for l in lines)
    decls = [d for d in log.get('decls', [])
             if re.search(r'spec fn (vxs_f32_[A-Za-z0-9_]+)\(', d) and
             ('spec fn ' + re.search(r'spec fn (vxs_f32_[A-Za-z0-9_]+)\(', d).group(1) + '(') not in have]
    if decls:
        k = len(lines) - 1
        while k >= 0 and not lines[k].text.startswith('} // verus!'):
            k -= 1
        if k < 0:
            raise ExtractError('template has no `} // verus!` line')
        gen = [GenLine(l, ('tmpl', 0)) for d in decls for l in d.split('\n')]
        lines[k:k] = gen
    base_out = log.pop('_base_out', None)
    log.pop('_base', None)
    if base_out is not None:
        _os.makedirs(_os.path.dirname(bpath), exist_ok=True)
        with open(bpath, 'w') as fh:
            out = {k: ' '.join(v) for k, v in sorted(base_out.items())}
            out['_stamp'] = stamp
            _json.dump(out, fh, indent=0)
    return Unit(name, lines, items, log)
