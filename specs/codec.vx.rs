#![feature(allocator_api)]
#![allow(unused, non_snake_case, non_camel_case_types, dead_code)]
use vstd::prelude::*;
verus! {
//@include prelude/core.rs
//@include prelude/std_misc.rs
//@include inc/codec_common.rs
//@include inc/raw_header.rs

// ---------------------------------------------------------------- message encoder (context.rs)
//@item! stun_rs :: mod attributes > struct AttributeType
impl Clone for AttributeType { fn clone(&self) -> (r: Self) ensures r == *self { *self } }
impl Copy for AttributeType {}
impl vstd::std_specs::convert::FromSpecImpl<AttributeType> for u16 {
    open spec fn obeys_from_spec() -> bool { true }
    open spec fn from_spec(v: AttributeType) -> Self { v.0 }
}
impl From<AttributeType> for u16 {
//@item stun_rs :: mod attributes > impl From<AttributeType> for u16 > fn from
//@spec
    ensures r == val.0,
//@end
}
impl AttributeType {
//@item stun_rs :: mod attributes > impl AttributeType > fn new
//@spec
    ensures r.0 == attr_type,
//@end
//@item stun_rs :: mod attributes > impl AttributeType > fn as_u16
//@spec
    ensures r == self.0,
//@end
}

//@include prelude/err_levels.rs
//@item! stun_rs :: mod context > struct EncoderContext
impl Clone for EncoderContext {
//@item! stun_rs :: mod context > impl ::core::clone::Clone for EncoderContext > fn clone
}
impl EncoderContext {
//@item stun_rs :: mod context > impl EncoderContext > fn padding
//@spec
    ensures r == 0,
//@end
}
//@item! stun_rs :: mod context > struct AttributeEncoderContext
impl<'a> AttributeEncoderContext<'a> {
//@item stun_rs :: mod context > impl<'a> AttributeEncoderContext<'a> > fn new
//@spec
    ensures r.ctx == ctx, r.encoded_msg == encoded_msg, r.raw_value@ == old(raw_value)@,
        final(raw_value)@ == final(r.raw_value)@,
//@end
}

// The attribute is abstract in this unit. Its methods carry the *attribute contract*
// (DESIGN.md section 6), which unit `attrs` discharges kind by kind.
#[verifier::external_body]
pub struct StunAttribute { _p: () }
impl StunAttribute {
    pub uninterp spec fn spec_type(&self) -> u16;
    // value bytes produced by `encode` given the already encoded prefix
    pub uninterp spec fn wire(&self, enc: Seq<u8>) -> Seq<u8>;
    pub uninterp spec fn encodable(&self, enc: Seq<u8>) -> bool;
    // value bytes after `post_encode` (identity for everything but integrity / fingerprint attributes)
    pub uninterp spec fn post_wire(&self, enc: Seq<u8>, val: Seq<u8>) -> Seq<u8>;
    pub uninterp spec fn post_ok(&self, enc: Seq<u8>, val: Seq<u8>) -> bool;

    // the three functions below are declared with exactly the contracts unit `attrs` proves for the real
    // `StunAttribute` (the enum over all 39 kinds and its generated dispatch); the one added clause is a fact of Rust's type
    // system (the length of the slice behind a `&mut [u8]` cannot change), which `attrs` does not restate
//@import attrs :: stun_rs :: mod attributes > impl StunAttribute > fn attribute_type
//@import! attrs :: stun_rs :: mod attributes > impl EncodeAttributeValue for StunAttribute > fn encode
            final(ctx.raw_value)@.len() == old(ctx.raw_value)@.len(),
//@end
//@import! attrs :: stun_rs :: mod attributes > impl EncodeAttributeValue for StunAttribute > fn post_encode
            final(ctx.raw_value)@.len() == old(ctx.raw_value)@.len(),
//@end
}

//@item! stun_rs :: mod message > struct StunMessage
impl StunMessage {
//@item stun_rs :: mod message > impl StunMessage > fn method
//@spec
    ensures r == self.method,
//@end
//@item stun_rs :: mod message > impl StunMessage > fn class
//@spec
    ensures r == self.class,
//@end
//@item stun_rs :: mod message > impl StunMessage > fn transaction_id
//@spec
    ensures *r == self.transaction_id,
//@end
//@item stun_rs :: mod message > impl StunMessage > fn attributes
//@spec
    ensures r@ == self.attributes@,
//@end
}

//@include inc/post_n.rs
//@include inc/img_vocab.rs
// the pieces written by one loop iteration make up tlv_step
proof fn lemma_compose(rf: Seq<u8>, af: Seq<u8>, p: Seq<u8>, a: StunAttribute, l2: int, n: int, vl: int)
    requires
        n == p.len(), vl == a.wire(p).len(),
        n >= 20,
        l2 == n - 20 + 4 + vl + pad4(vl),
        rf == set_len(p, l2),
        af.len() >= 4 + vl + pad4(vl),
        af[0] == (a.spec_type() / 256) as u8, af[1] == (a.spec_type() % 256) as u8,
        af[2] == ((vl as u16) / 256) as u8, af[3] == ((vl as u16) % 256) as u8,
        vl <= 65535,
        af.subrange(4, 4 + vl) == post_n(a, set_len(p, l2), a.wire(p)),
        forall|i: int| 4 + vl <= i < 4 + vl + pad4(vl) ==> af[i] == 0u8,
    ensures (rf + af).subrange(0, 20 + l2) == tlv_step(p, a),
{
    let t = tlv_step(p, a);
    let buf = rf + af;
    let s = buf.subrange(0, 20 + l2);
    assert(s.len() == t.len());
    assert forall|i: int| 0 <= i < s.len() implies s[i] == t[i] by {
        if i < n {
        } else if i < n + 2 {
        } else if i < n + 4 {
        } else if i < n + 4 + vl {
            assert(af.subrange(4, 4 + vl)[i - n - 4] == af[i - n]);
        } else {
        }
    }
    assert(s =~= t);
}

//@item! stun_rs :: mod context > struct MessageEncoder
impl MessageEncoder {
//@item stun_rs :: mod context > impl MessageEncoder > fn encode
//@tags C14 C01 C02 C04 C10 C13
//@rules R3
//@spec
    ensures final(buffer)@.len() == old(buffer)@.len(),
        msg.method.0 <= 0x0FFF ==> (r is Ok <==> enc_ok(*msg, msg.attributes@.len() as int)
            && old(buffer)@.len() >= img(*msg, msg.attributes@.len() as int).len()),
        (msg.method.0 <= 0x0FFF && r is Ok) ==> {
            let n = r->Ok_0 as int;
            &&& n == img(*msg, msg.attributes@.len() as int).len()
            &&& n <= old(buffer)@.len()
            &&& final(buffer)@.subrange(0, n) == img(*msg, msg.attributes@.len() as int)
            &&& forall|i: int| n <= i < old(buffer)@.len() ==> final(buffer)@[i] == old(buffer)@[i]
            &&& (n - 20) % 4 == 0
            &&& n - 20 <= 65535
            &&& be16(final(buffer)@.subrange(2, 4)) == n - 20
        },
//@loop 1
    invariant
        buffer@.len() == old(buffer)@.len(),
        vx_s0@ == msg.attributes@,
        position <= vx_s0@.len(),
        20 + length <= buffer@.len(),
        length <= 65535,
        length % 4 == 0,
        msg.method.0 <= 0x0FFF ==> {
            &&& 20 + length == img(*msg, position as int).len()
            &&& buffer@.subrange(0, 20 + length as int) == img(*msg, position as int)
            &&& enc_ok(*msg, position as int)
            &&& be16(buffer@.subrange(2, 4)) == length
        },
        forall|i: int| 20 + length <= i < buffer@.len() ==> buffer@[i] == old(buffer)@[i],
    decreases vx_s0@.len() - position,
//@prefix
#[verifier::rlimit(60)]
//@head
    proof { lemma_img_ge20(*msg, msg.attributes@.len() as int); }
//@before "let mut length"
    proof { lemma_img0(*msg); }
//@before "let vx_s0 ="
    proof {
        if msg.method.0 <= 0x0FFF {
            assert(buffer@.subrange(0, 20) =~= hdr_img(*msg));
        }
        assert(buffer@.subrange(2, 4) =~= seq![0u8, 0u8]);
    }
//@loopstart 1
    proof {
        lemma_fail_prefix(*msg, position as int + 1, msg.attributes@.len() as int, buffer@.len() as int);
        lemma_img_grows(*msg, position as int + 1);
        lemma_img_unfold(*msg, position as int + 1);
    }
    let ghost buf0 = buffer@;
    let ghost p = buffer@.subrange(0, 20 + length as int);
    let ghost length0 = length;
//@before "let coded_value ="
    let ghost a_pad = attributes@;
    proof {
        if msg.method.0 <= 0x0FFF {
            assert(raw_msg@ =~= set_len(p, length as int));
            assert(attributes@.subrange(4, 4 + value_size as int) =~= attr.wire(p));
        }
    }
//@loopend 1
    let ghost af = attributes@;
    let ghost rf = raw_msg@;
    proof {
        let v = attr.wire(p);
        assert(buffer@ == rf + af);
        assert(af.len() == a_pad.len());
        assert(forall|i: int| 4 + value_size <= i < af.len() ==> af[i] == a_pad[i]);
        assert(forall|i: int| 0 <= i < 4 ==> af[i] == a_pad[i]);
        if msg.method.0 <= 0x0FFF {
            assert(af.subrange(4, 4 + v.len() as int) =~= post_n(*attr, set_len(p, length as int), v));
            lemma_compose(rf, af, p, *attr, length as int, p.len() as int, v.len() as int);
        }
        assert(forall|i: int| 20 + length <= i < buffer@.len() ==> buffer@[i] == old(buffer)@[i]);
    }
//@end
}
proof fn vx_sentinel() ensures false {}
} // verus!
fn main() {}
