#![feature(allocator_api)]
#![allow(unused, non_snake_case, non_camel_case_types, dead_code)]
use vstd::prelude::*;
verus! {
//@include inc/attr_abs.rs
//@include prelude/std_misc.rs
//@include inc/std_retain.rs

// ---------------------------------------------------------------- stun-agent/src/message.rs
//@include inc/attrset_vocab.rs
impl StunAttributes {
//@item stun_agent :: mod message > impl StunAttributes > fn add
//@tags C13
//@rules R6P?
//@sig
pub fn add(&mut self, attribute: StunAttribute)
//@sub "let attr = attribute.into();" => "let attr = attribute;"
//@closure 1
|a: &StunAttribute| -> (b: bool)
    ensures b == (a.ty() == attr.ty()),
//@head
    proof { reveal(distinct_types); reveal(seq_index_of); }
//@spec
    requires old(self).wf(),
    ensures final(self).wf(),
        attribute.ty() == TY_MESSAGE_INTEGRITY ==> final(self).integrity == Some(attribute)
            && final(self).attributes@ == old(self).attributes@ && final(self).integrity_sha256 == old(self).integrity_sha256
            && final(self).fingerprint == old(self).fingerprint,
        attribute.ty() == TY_MESSAGE_INTEGRITY_SHA256 ==> final(self).integrity_sha256 == Some(attribute)
            && final(self).attributes@ == old(self).attributes@ && final(self).integrity == old(self).integrity
            && final(self).fingerprint == old(self).fingerprint,
        attribute.ty() == TY_FINGERPRINT ==> final(self).fingerprint == Some(attribute)
            && final(self).attributes@ == old(self).attributes@ && final(self).integrity == old(self).integrity
            && final(self).integrity_sha256 == old(self).integrity_sha256,
        !is_trailer_ty(attribute.ty()) ==> final(self).integrity == old(self).integrity
            && final(self).integrity_sha256 == old(self).integrity_sha256 && final(self).fingerprint == old(self).fingerprint
            // replaced in place (first-insertion order kept) if the type is present, appended otherwise
            && match old(self).index_of(attribute.ty()) {
                Some(i) => final(self).attributes@ == old(self).attributes@.update(i, attribute),
                None => final(self).attributes@ == old(self).attributes@.push(attribute),
            },
//@end
//@item stun_agent :: mod message > impl StunAttributes > fn remove
//@tags C13
//@rules R6P?
//@closure 1
|a: &StunAttribute| -> (b: bool)
    ensures b == (a.ty() == T::spec_type()),
//@head
    proof { reveal(distinct_types); reveal(seq_index_of); }
//@spec
    requires old(self).wf(),
    ensures final(self).wf(),
        // afterwards no attribute of type T is left anywhere, everything else is unchanged and in the same order
        forall|i: int| 0 <= i < final(self).flat().len() ==> #[trigger] final(self).flat()[i].ty() != T::spec_type(),
        T::spec_type() == TY_MESSAGE_INTEGRITY ==> final(self).integrity is None && r == old(self).integrity
            && final(self).attributes@ == old(self).attributes@ && final(self).integrity_sha256 == old(self).integrity_sha256
            && final(self).fingerprint == old(self).fingerprint,
        T::spec_type() == TY_MESSAGE_INTEGRITY_SHA256 ==> final(self).integrity_sha256 is None && r == old(self).integrity_sha256
            && final(self).attributes@ == old(self).attributes@ && final(self).integrity == old(self).integrity
            && final(self).fingerprint == old(self).fingerprint,
        T::spec_type() == TY_FINGERPRINT ==> final(self).fingerprint is None && r == old(self).fingerprint
            && final(self).attributes@ == old(self).attributes@ && final(self).integrity == old(self).integrity
            && final(self).integrity_sha256 == old(self).integrity_sha256,
        !is_trailer_ty(T::spec_type()) ==> final(self).integrity == old(self).integrity
            && final(self).integrity_sha256 == old(self).integrity_sha256 && final(self).fingerprint == old(self).fingerprint
            && match old(self).index_of(T::spec_type()) {
                Some(i) => final(self).attributes@ == old(self).attributes@.remove(i) && r == Some(old(self).attributes@[i]),
                None => final(self).attributes@ == old(self).attributes@ && r is None,
            },
//@end
}


impl vstd::std_specs::convert::FromSpecImpl<StunAttributes> for Vec<StunAttribute> {
    open spec fn obeys_from_spec() -> bool { false }
    open spec fn from_spec(v: StunAttributes) -> Self { arbitrary() }
}
impl From<StunAttributes> for Vec<StunAttribute> {
//@item stun_agent :: mod message > impl From<StunAttributes> for Vec<StunAttribute> > fn from
//@tags C13
//@spec
    ensures r@ == val.flat(),
//@end
}

// ---- stun-rs message builder (real code): the message carries the attributes in the order given
//@include inc/txid.rs
impl Default for TransactionId {
    // a random 96-bit id (rand); its freshness is an assumption of the client properties
    #[verifier::external_body]
    fn default() -> Self { unimplemented!() }
}
//@item! stun_rs :: mod message > struct MessageMethod
//@item! stun_rs :: mod message > enum MessageClass
impl Clone for MessageMethod { fn clone(&self) -> (r: Self) ensures r == *self { *self } }
impl Copy for MessageMethod {}
impl Clone for MessageClass { fn clone(&self) -> (r: Self) ensures r == *self { *self } }
impl Copy for MessageClass {}
//@item! stun_rs :: mod message > struct StunMessageParameters
//@item! stun_rs :: mod message > struct StunMessageBuilder
//@item! stun_rs :: mod message > struct StunMessage
impl StunMessageBuilder {
//@item stun_rs :: mod message > impl StunMessageBuilder > fn new
//@spec
    ensures r.0.method == method, r.0.class == class, r.0.transaction_id is None, r.0.attributes@.len() == 0,
//@end
//@item stun_rs :: mod message > impl StunMessageBuilder > fn with_transaction_id
//@rules R5
//@spec
    ensures r.0.method == self.0.method, r.0.class == self.0.class, r.0.transaction_id == Some(transaction_id),
        r.0.attributes@ == self.0.attributes@,
//@end
//@item stun_rs :: mod message > impl StunMessageBuilder > fn with_attribute
//@rules R5
//@sig
pub fn with_attribute(self, attribute: StunAttribute) -> (r: Self)
//@sub "attribute.into()" => "attribute"
//@spec
    ensures r.0.method == self.0.method, r.0.class == self.0.class, r.0.transaction_id == self.0.transaction_id,
        r.0.attributes@ == self.0.attributes@.push(attribute),
//@end
//@item stun_rs :: mod message > impl StunMessageBuilder > fn build
//@spec
    ensures r.method == self.0.method, r.class == self.0.class, r.attributes@ == self.0.attributes@,
        self.0.transaction_id is Some ==> r.transaction_id == self.0.transaction_id->Some_0,
//@end
}
//@item stun_agent :: mod message > fn create_stun_message
//@tags C13
//@rules R4N
//@head
    let ghost flat = attributes.flat();
//@loop 1
    invariant
        builder.0.method == method, builder.0.class == class, builder.0.transaction_id == transaction_id,
        builder.0.attributes@ =~= vx_it0.history@,
//@spec
    ensures r.method == method, r.class == class, r.attributes@ == attributes.flat(),
        transaction_id is Some ==> r.transaction_id == transaction_id->Some_0,
//@end

// ---------------------------------------------------------------- lib.rs: the agent's view of the RFC 8489 ordering rule
//@include inc/admission.rs
//@include inc/protiter_vocab.rs
// (R7) the trait method is verified as an inherent method: Verus forbids `requires` on trait impls
impl<'a> ProtectedAttributeIteratorObject<'a> {
//@item stun_agent :: impl<'a> Iterator for ProtectedAttributeIteratorObject<'a> > fn next
//@tags C09 C07 C08
//@rules R4
//@sub "Self::Item" => "&'a StunAttribute"
//@head
    let ghost ts = self.ts();
    let ghost p0 = self.iter.pos as int;
//@at "Some(attr) => {"
    let ghost k = self.iter.pos - 1;
    proof {
        lemma_flags_admit(ts, k);
        assert(ts[k] == attr.ty());
    }
//@loop 1
    invariant
        self.iter.s == old(self).iter.s, ts == types_of(self.iter.s@), ts == old(self).ts(), p0 == old(self).iter.pos,
        p0 <= self.iter.pos <= self.iter.s@.len(),
        (AdmFlags { mi: self.integrity, sha: self.integrity_sha256, fp: self.fingerprint }) == flags_at(ts, self.iter.pos as int),
        forall|j: int| p0 <= j < self.iter.pos ==> !admitted(ts, j),
    ensures
        self.iter.pos == self.iter.s@.len(),
    decreases self.iter.s@.len() - self.iter.pos,
//@spec
    requires old(self).wf(),
    ensures final(self).wf(), final(self).iter.s == old(self).iter.s,
        // the next wire attribute admitted by the rule, skipping those that are not
        match r {
            Some(a) => {
                let k = final(self).iter.pos - 1;
                &&& old(self).iter.pos <= k < old(self).iter.s@.len()
                &&& *a == old(self).iter.s@[k]
                &&& admitted(old(self).ts(), k)
                &&& forall|j: int| old(self).iter.pos <= j < k ==> !admitted(old(self).ts(), j)
            },
            None => final(self).iter.pos == old(self).iter.s@.len()
                && forall|j: int| old(self).iter.pos <= j < old(self).iter.s@.len() ==> !admitted(old(self).ts(), j),
        },
//@end
}
pub fn vx_slice_iter<'a, T>(s: &'a [T]) -> (r: Iter<'a, T>)
    ensures r.s == s, r.pos == 0,
{ Iter { s, pos: 0 } }
// (R7) `impl ProtectedAttributeIterator for &[StunAttribute]`, as a free-standing inherent-style function of the slice
pub struct VxSliceRef<'a>(pub &'a [StunAttribute]);
impl<'a> VxSliceRef<'a> {
//@item stun_agent :: impl<'a> ProtectedAttributeIterator<'a> for &'a [StunAttribute] > fn protected_iter
//@tags C09 C07 C08
//@sub "self.iter()" => "vx_slice_iter(self.0)"
//@head
    proof { assert(flags_at(types_of(self.0@), 0) == (AdmFlags { mi: false, sha: false, fp: false })); }
//@spec
    ensures r.wf(), r.iter.s == self.0, r.iter.pos == 0,
//@end
}

// ---------------------------------------------------------------- fingerprint.rs (agent side of C10)
// `E.iter().find(f)`: the first element satisfying f
pub fn vx_find<'a, T, F: Fn(&&'a T) -> bool>(v: &'a Vec<T>, f: F) -> (r: Option<&'a T>)
    requires forall|i: int| 0 <= i < v@.len() ==> call_requires(f, (&&v@[i],)),
    ensures match r {
        Some(x) => exists|k: int| 0 <= k < v@.len() && *x == v@[k] && call_ensures(f, (&&v@[k],), true)
            && forall|j: int| 0 <= j < k ==> call_ensures(f, (&&v@[j],), false),
        None => forall|j: int| 0 <= j < v@.len() ==> call_ensures(f, (&&v@[j],), false),
    },
{
    let mut i: usize = 0;
    while i < v.len()
        invariant i <= v@.len(),
            forall|j: int| 0 <= j < v@.len() ==> call_requires(f, (&&v@[j],)),
            forall|j: int| 0 <= j < i ==> call_ensures(f, (&&v@[j],), false),
        decreases v@.len() - i,
    {
        let x = &v[i];
        if f(&x) { return Some(x); }
        i += 1;
    }
    None
}
//@item! stun_agent :: enum StunAgentError
#[verifier::external_body]
pub struct StunError { _p: () }
//@include inc/fp_vocab.rs
impl Fingerprint {
    #[verifier::external_body]
    pub fn validate(&self, input: &[u8]) -> (r: bool) ensures r == fp_validates(*self, input@) { unimplemented!() }
}
impl Default for Fingerprint { #[verifier::external_body] fn default() -> Self { unimplemented!() } }
impl StunAttributeType for Fingerprint {
    open spec fn spec_type() -> u16 { TY_FINGERPRINT }
    #[verifier::external_body]
    fn get_type() -> (r: AttributeType) { unimplemented!() }
}
impl StunAttribute {
    #[verifier::external_body]
    pub fn as_fingerprint(&self) -> (r: Result<&Fingerprint, StunError>)
        ensures r is Ok <==> self.ty() == TY_FINGERPRINT, r is Ok ==> *r->Ok_0 == fp_of(*self),
    { unimplemented!() }
}
#[verifier::external_body]
pub fn get_input_text<A: StunAttributeType>(buffer: &[u8]) -> (r: Option<Vec<u8>>)
    requires A::spec_type() == TY_FINGERPRINT,
    ensures match fp_input(buffer@) { Some(t) => r is Some && r->Some_0@ == t, None => r is None },
{ unimplemented!() }
impl StunMessage {
    pub open spec fn attrs_view(&self) -> Seq<StunAttribute> { self.attributes@ }
//@item stun_rs :: mod message > impl StunMessage > fn get
//@tags C10
//@rules R6F
//@closure 1
|attr: &&StunAttribute| -> (b: bool)
    ensures b == (attr.ty() == A::spec_type()),
//@spec
    ensures match r {
        Some(x) => exists|k: int| 0 <= k < self.attributes@.len() && *x == self.attributes@[k] && x.ty() == A::spec_type()
            && forall|j: int| 0 <= j < k ==> self.attributes@[j].ty() != A::spec_type(),
        None => forall|j: int| 0 <= j < self.attributes@.len() ==> self.attributes@[j].ty() != A::spec_type(),
    },
//@end
}
//@item stun_agent :: mod fingerprint > fn validate_fingerprint_attribute
//@tags C10
//@closure 1
|_e: StunError| -> (x: StunAgentError)
    ensures x is StunCheckFailed,
//@sub "|_|" => "|_e|"
//@sub "&input" => "input.as_slice()"
//@spec
    ensures attr.ty() != TY_FINGERPRINT ==> r is Err && r->Err_0 is StunCheckFailed,
        attr.ty() == TY_FINGERPRINT ==> match fp_input(raw_buffer@) {
            Some(t) => r == Ok::<bool, StunAgentError>(fp_validates(fp_of(*attr), t)),
            None => r is Err && r->Err_0 is StunCheckFailed,
        },
//@end
//@item stun_agent :: mod fingerprint > fn validate_fingerprint
//@tags C10
//@spec
    ensures match fp_verdict_of(raw_buffer@, msg.attrs_view()) {
        Some(b) => r == Ok::<bool, StunAgentError>(b),
        None => r is Err && r->Err_0 is StunCheckFailed,
    },
//@end
impl VxIntoAttrF for Fingerprint {}
pub trait VxIntoAttrF {}
//@item stun_agent :: mod fingerprint > fn add_fingerprint_attribute
//@tags C10 C13
//@sub "attributes.add(Fingerprint::default());" => "attributes.add(vx_fp_default_attr());"
//@spec
    requires old(attributes).wf(),
    ensures final(attributes).wf(), final(attributes).fingerprint == Some(fp_default_attr()),
        final(attributes).attributes@ == old(attributes).attributes@, final(attributes).integrity == old(attributes).integrity,
        final(attributes).integrity_sha256 == old(attributes).integrity_sha256,
//@end
// `Fingerprint::default().into()`
#[verifier::external_body]
pub fn vx_fp_default_attr() -> (r: StunAttribute) ensures r == fp_default_attr(), r.ty() == TY_FINGERPRINT { unimplemented!() }

impl Default for StunAttributes {
//@item stun_agent :: mod message > impl ::core::default::Default for StunAttributes > fn default
//@tags C13 C19
//@spec
    // the empty attribute set satisfies the representation invariant
    ensures r.wf(), r.flat() == Seq::<StunAttribute>::empty(),
//@head
    proof { reveal(distinct_types); }
//@end
}
proof fn vx_sentinel() ensures false {}
} // verus!
fn main() {}
