#![feature(allocator_api)]
#![allow(unused, non_snake_case, non_camel_case_types, dead_code)]
use vstd::prelude::*;
use std::collections::HashSet;
use vstd::std_specs::hash::*;
verus! {
broadcast use vstd::std_specs::hash::group_hash_axioms;
//@include prelude/cred_env.rs
//@include prelude/std_misc.rs


// ---------------------------------------------------------------- more of stun-rs, abstract
//@item! stun_rs :: mod message > enum MessageClass
impl Clone for MessageClass { fn clone(&self) -> (r: Self) ensures r == *self { *self } }
impl Copy for MessageClass {}
impl vstd::std_specs::cmp::PartialEqSpecImpl for MessageClass {
    open spec fn obeys_eq_spec() -> bool { true }
    open spec fn eq_spec(&self, other: &MessageClass) -> bool { *self == *other }
}
impl PartialEq for MessageClass {
    #[verifier::external_body]
    fn eq(&self, other: &MessageClass) -> (r: bool) { unimplemented!() }
}
pub mod stun_rs { pub use super::MessageClass; }
#[verifier::external_body]
pub struct HMACKey { _p: () }
impl Clone for HMACKey { #[verifier::external_body] fn clone(&self) -> (r: Self) ensures r == *self { unimplemented!() } }
#[verifier::external_body]
pub struct StunMessage { _p: () }
impl StunMessage {
    pub uninterp spec fn sid(&self) -> TransactionId;
    pub uninterp spec fn sclass(&self) -> MessageClass;
    pub uninterp spec fn attrs(&self) -> Seq<StunAttribute>;
    #[verifier::external_body]
    pub fn transaction_id(&self) -> (r: &TransactionId) ensures *r == self.sid() { unimplemented!() }
    #[verifier::external_body]
    pub fn class(&self) -> (r: MessageClass) ensures r == self.sclass() { unimplemented!() }
    #[verifier::external_body]
    pub fn attributes(&self) -> (r: &[StunAttribute]) ensures r@ == self.attrs() { unimplemented!() }
}
// RFC 8489 14.5/14.6 (unit codec/attrs): the text a MAC is computed over, and whether an attribute's MAC matches it
pub uninterp spec fn mac_input(raw: Seq<u8>, ty: u16) -> Option<Seq<u8>>;
pub uninterp spec fn mi_validates(a: MessageIntegrity, input: Seq<u8>, key: HMACKey) -> bool;
pub uninterp spec fn sha_validates(a: MessageIntegritySha256, input: Seq<u8>, key: HMACKey) -> bool;
#[verifier::external_body]
pub fn get_input_text<A: StunAttributeType>(buffer: &[u8]) -> (r: Option<Vec<u8>>)
    ensures match mac_input(buffer@, A::spec_type()) { Some(t) => r is Some && r->Some_0@ == t, None => r is None },
{ unimplemented!() }
impl MessageIntegrity {
    pub uninterp spec fn key(&self) -> HMACKey;
    #[verifier::external_body]
    pub fn new(key: HMACKey) -> (r: Self) ensures r.key() == key { unimplemented!() }
    #[verifier::external_body]
    pub fn validate(&self, input: &[u8], key: &HMACKey) -> (r: bool) ensures r == mi_validates(*self, input@, *key) { unimplemented!() }
}
impl MessageIntegritySha256 {
    pub uninterp spec fn key(&self) -> HMACKey;
    #[verifier::external_body]
    pub fn new(key: HMACKey) -> (r: Self) ensures r.key() == key { unimplemented!() }
    #[verifier::external_body]
    pub fn validate(&self, input: &[u8], key: &HMACKey) -> (r: bool) ensures r == sha_validates(*self, input@, *key) { unimplemented!() }
}
// "attribute `a` of the received bytes `raw` carries a MAC that verifies under `key`"
pub open spec fn mac_ok(a: StunAttribute, key: HMACKey, raw: Seq<u8>) -> bool {
    match a {
        StunAttribute::MessageIntegrity(m) => mac_input(raw, TY_MESSAGEINTEGRITY) is Some
            && mi_validates(m, mac_input(raw, TY_MESSAGEINTEGRITY)->Some_0, key),
        StunAttribute::MessageIntegritySha256(m) => mac_input(raw, TY_MESSAGEINTEGRITYSHA256) is Some
            && sha_validates(m, mac_input(raw, TY_MESSAGEINTEGRITYSHA256)->Some_0, key),
        _ => false,
    }
}

// ---------------------------------------------------------------- integrity.rs
//@item! stun_agent :: mod integrity > enum IntegrityError
//@item! stun_agent :: enum Integrity
impl Clone for Integrity { fn clone(&self) -> (r: Self) ensures r == *self { *self } }
impl Copy for Integrity {}
impl Clone for IntegrityError { fn clone(&self) -> (r: Self) ensures r == *self { *self } }
impl Copy for IntegrityError {}
//@item! stun_agent :: mod integrity > struct TransportIntegrity
pub broadcast proof fn axiom_txid_key_model()
    ensures #[trigger] obeys_key_model::<TransactionId>(),
{ admit(); }
impl core::hash::Hash for TransactionId {
    #[verifier::external_body]
    fn hash<H: core::hash::Hasher>(&self, state: &mut H) { unimplemented!() }
}
//@item stun_agent :: mod integrity > fn validate_message_integrity
//@tags C07 C08 C04 C13
//@spec
    ensures r == mac_ok(*integrity, *key, raw_buffer@),
//@end
impl TransportIntegrity {
    // the documented marker of C17: transactions one of whose responses failed authentication (unreliable transport)
    pub open spec fn violated(&self) -> Set<TransactionId> { self.transactions@ }
    pub open spec fn discard_outcome(&self, message: &StunMessage) -> (IntegrityError, Set<TransactionId>) {
        if message.sclass() is Indication { (IntegrityError::Discarded, self.violated()) }
        else if self.is_reliable { (IntegrityError::ProtectionViolated, self.violated()) }
        else { (IntegrityError::Discarded, self.violated().insert(message.sid())) }
    }
//@item stun_agent :: mod integrity > impl TransportIntegrity > fn new
//@spec
    ensures r.is_reliable == is_reliable, r.violated() == Set::<TransactionId>::empty(),
//@end
//@item stun_agent :: mod integrity > impl TransportIntegrity > fn discard_message
//@tags C07 C08 C17 C13
//@head
    broadcast use axiom_txid_key_model;
//@spec
    ensures final(self).is_reliable == old(self).is_reliable,
        r == old(self).discard_outcome(message).0, final(self).violated() == old(self).discard_outcome(message).1,
//@end
//@item stun_agent :: mod integrity > impl TransportIntegrity > fn compute_message_integrity
//@tags C07 C08 C17 C13
//@head
    broadcast use axiom_txid_key_model;
//@spec
    ensures final(self).is_reliable == old(self).is_reliable,
        // accepted exactly when an integrity attribute was selected and its MAC verifies under the key
        r is Ok <==> integrity is Some && mac_ok(*integrity->Some_0, *key, raw_buffer@),
        r is Ok ==> final(self).violated() == (if message.sclass() is Indication { old(self).violated() }
            else { old(self).violated().remove(message.sid()) }),
        // otherwise: protection-violated on reliable transport; ignored and marked on unreliable; indications ignored
        r is Err ==> r->Err_0 == old(self).discard_outcome(message).0
            && final(self).violated() == old(self).discard_outcome(message).1,
//@end
//@item stun_agent :: mod integrity > impl TransportIntegrity > fn signal_protection_violated_on_timeout
//@tags C07 C17 C13
//@head
    broadcast use axiom_txid_key_model;
//@spec
    ensures final(self).is_reliable == old(self).is_reliable,
        r == old(self).violated().contains(*transaction_id),
        final(self).violated() == old(self).violated().remove(*transaction_id),
//@end
}

// ---------------------------------------------------------------- attribute set and ordering rule (contracts from unit attrset)
//@include inc/attrset_vocab.rs
impl StunAttributes {
//@import attrset :: stun_agent :: mod message > impl StunAttributes > fn add as vx_add
//@import attrset :: stun_agent :: mod message > impl StunAttributes > fn remove
    // `add<T: Into<StunAttribute>>`: the generic front of vx_add
    pub fn add<T: VxIntoAttr>(&mut self, attribute: T)
        requires old(self).wf(),
        ensures final(self).wf(),
            attribute.vx_attr().ty() == TY_MESSAGE_INTEGRITY ==> final(self).integrity == Some(attribute.vx_attr())
                && final(self).integrity_sha256 == old(self).integrity_sha256 && final(self).fingerprint == old(self).fingerprint,
            attribute.vx_attr().ty() == TY_MESSAGE_INTEGRITY_SHA256 ==> final(self).integrity_sha256 == Some(attribute.vx_attr())
                && final(self).integrity == old(self).integrity && final(self).fingerprint == old(self).fingerprint,
            attribute.vx_attr().ty() == TY_FINGERPRINT ==> final(self).fingerprint == Some(attribute.vx_attr())
                && final(self).integrity == old(self).integrity && final(self).integrity_sha256 == old(self).integrity_sha256,
            !is_trailer_ty(attribute.vx_attr().ty()) ==> final(self).integrity == old(self).integrity
                && final(self).integrity_sha256 == old(self).integrity_sha256 && final(self).fingerprint == old(self).fingerprint,
            // replaced in place when the type is present ...
            (!is_trailer_ty(attribute.vx_attr().ty()) && !lacks(old(self).attributes@, attribute.vx_attr().ty()))
                ==> added(*old(self), *final(self), attribute.vx_attr()),
            // ... appended when no attribute of that type is present; absence of other types is preserved
            (!is_trailer_ty(attribute.vx_attr().ty()) && lacks(old(self).attributes@, attribute.vx_attr().ty()))
                ==> final(self).attributes@ == old(self).attributes@.push(attribute.vx_attr()),
            forall|t: u16| t != attribute.vx_attr().ty() && lacks(old(self).attributes@, t) ==> #[trigger] lacks(final(self).attributes@, t),
            is_trailer_ty(attribute.vx_attr().ty()) ==> final(self).attributes@ == old(self).attributes@,
    {
        let ghost a = attribute.vx_attr();
        let ghost s0 = self.attributes@;
        self.vx_add(attribute.vx_into());
        proof {
            reveal(lacks); reveal(seq_index_of);
            if !is_trailer_ty(a.ty()) {
                if lacks(s0, a.ty()) {
                    assert(seq_index_of(s0, a.ty()) is None) by {
                        if exists|i: int| 0 <= i < s0.len() && s0[i].ty() == a.ty() {
                            let i = choose|i: int| 0 <= i < s0.len() && s0[i].ty() == a.ty();
                            assert(s0[i].ty() != a.ty());
                        }
                    }
                }
                assert forall|t: u16| t != a.ty() && lacks(s0, t) implies #[trigger] lacks(self.attributes@, t) by {
                    let s1 = self.attributes@;
                    assert forall|i: int| 0 <= i < s1.len() implies (#[trigger] s1[i]).ty() != t by {
                        match seq_index_of(s0, a.ty()) {
                            Some(k) => { if i != k { assert(s1[i] == s0[i]); } },
                            None => { if i < s0.len() { assert(s1[i] == s0[i]); } },
                        }
                    }
                }
            }
        }
    }
}
// the effect of StunAttributes::add, as a relation (restating the contract proved in unit attrset)
pub open spec fn added(s0: StunAttributes, s1: StunAttributes, a: StunAttribute) -> bool {
    &&& (a.ty() == TY_MESSAGE_INTEGRITY ==> s1.integrity == Some(a) && s1.attributes@ == s0.attributes@
            && s1.integrity_sha256 == s0.integrity_sha256 && s1.fingerprint == s0.fingerprint)
    &&& (a.ty() == TY_MESSAGE_INTEGRITY_SHA256 ==> s1.integrity_sha256 == Some(a) && s1.attributes@ == s0.attributes@
            && s1.integrity == s0.integrity && s1.fingerprint == s0.fingerprint)
    &&& (a.ty() == TY_FINGERPRINT ==> s1.fingerprint == Some(a) && s1.attributes@ == s0.attributes@
            && s1.integrity == s0.integrity && s1.integrity_sha256 == s0.integrity_sha256)
    &&& (!is_trailer_ty(a.ty()) ==> s1.integrity == s0.integrity && s1.integrity_sha256 == s0.integrity_sha256
            && s1.fingerprint == s0.fingerprint
            && match s0.index_of(a.ty()) {
                Some(i) => s1.attributes@ == s0.attributes@.update(i, a),
                None => s1.attributes@ == s0.attributes@.push(a),
            })
}
pub spec const TY_MESSAGE_INTEGRITY: u16 = 0x0008;
pub spec const TY_MESSAGE_INTEGRITY_SHA256: u16 = 0x001C;
//@include inc/admission.rs
//@include inc/protiter_vocab.rs
impl<'a> ProtectedAttributeIteratorObject<'a> {
//@import attrset :: stun_agent :: impl<'a> Iterator for ProtectedAttributeIteratorObject<'a> > fn next
}
pub struct VxSliceRef<'a>(pub &'a [StunAttribute]);
impl<'a> VxSliceRef<'a> {
//@import attrset :: stun_agent :: impl<'a> ProtectedAttributeIterator<'a> for &'a [StunAttribute] > fn protected_iter
}

// ---------------------------------------------------------------- st_cred_mech.rs (RFC 8489 9.1)
// the admitted attribute of a given type among the first n wire attributes (the rule admits at most one MI and one SHA256)
pub open spec fn sel(attrs: Seq<StunAttribute>, n: int, t: u16) -> Option<int>
    decreases n
{
    if n <= 0 { None }
    else if admitted(types_of(attrs), n - 1) && attrs[n - 1].ty() == t { Some(n - 1) }
    else { sel(attrs, n - 1, t) }
}
proof fn lemma_sel_skip(attrs: Seq<StunAttribute>, a: int, b: int, t: u16)
    requires 0 <= a <= b <= attrs.len(), forall|j: int| a <= j < b ==> !admitted(types_of(attrs), j),
    ensures sel(attrs, b, t) == sel(attrs, a, t),
    decreases b - a,
{
    if a < b { lemma_sel_skip(attrs, a, b - 1, t); }
}
proof fn lemma_sel_mono(attrs: Seq<StunAttribute>, a: int, b: int, t: u16)
    requires 0 <= a <= b <= attrs.len(), sel(attrs, a, t) is Some,
    ensures sel(attrs, b, t) is Some,
    decreases b - a,
{
    if a < b { lemma_sel_mono(attrs, a, b - 1, t); }
}
proof fn lemma_sel_range(attrs: Seq<StunAttribute>, n: int, t: u16)
    requires 0 <= n <= attrs.len(),
    ensures sel(attrs, n, t) is Some ==> 0 <= sel(attrs, n, t)->Some_0 < n && attrs[sel(attrs, n, t)->Some_0].ty() == t
        && admitted(types_of(attrs), sel(attrs, n, t)->Some_0),
    decreases n,
{
    if n > 0 { lemma_sel_range(attrs, n - 1, t); }
}
pub assume_specification<T> [std::option::Option::<T>::or] (a: Option<T>, b: Option<T>) -> (r: Option<T>)
    where T: std::marker::Destruct,
    ensures r == (if a is Some { a } else { b });
// An `Unknown` attribute is what MessageDecoder::decode builds when the registry has no handler for the type code, so in a
// *decoded* message its type is none of the registered ones. This is a fact about decoder output, not about every value of
// the type (Unknown::new accepts any code): it is carried as the precondition `decoder_made()` of everything that receives a
// message, discharged by the client from the decoder's contract (theorem_unknown_unregistered, unit rt, over the contract
// of MessageDecoder::decode proved in unit dec and the per-kind decoders proved in unit attrs).
pub open spec fn stun_registered(t: u16) -> bool {
    t == TY_ALTERNATESERVER || t == TY_ERRORCODE || t == TY_FINGERPRINT || t == TY_MAPPEDADDRESS || t == TY_MESSAGEINTEGRITY
    || t == TY_MESSAGEINTEGRITYSHA256 || t == TY_NONCE || t == TY_PASSWORDALGORITHM || t == TY_PASSWORDALGORITHMS || t == TY_REALM
    || t == TY_SOFTWARE || t == TY_UNKNOWNATTRIBUTES || t == TY_USERHASH || t == TY_USERNAME || t == TY_XORMAPPEDADDRESS
}
pub open spec fn unknown_ok(a: StunAttribute) -> bool { a is Unknown ==> !stun_registered(a.ty()) }
impl StunMessage {
    pub open spec fn decoder_made(&self) -> bool {
        forall|k: int| 0 <= k < self.attrs().len() ==> unknown_ok(#[trigger] self.attrs()[k])
    }
}
pub proof fn lemma_variant_ty(a: StunAttribute)
    requires unknown_ok(a),
    ensures a is MessageIntegrity <==> a.ty() == TY_MESSAGEINTEGRITY,
        a is MessageIntegritySha256 <==> a.ty() == TY_MESSAGEINTEGRITYSHA256,
        a is Fingerprint <==> a.ty() == TY_FINGERPRINT,
        a is ErrorCode <==> a.ty() == TY_ERRORCODE,
        a is Realm <==> a.ty() == TY_REALM,
        a is Nonce <==> a.ty() == TY_NONCE,
        a is PasswordAlgorithms <==> a.ty() == TY_PASSWORDALGORITHMS,
{
}
pub assume_specification<T, U, D: FnOnce() -> U, F: FnOnce(T) -> U> [std::option::Option::<T>::map_or_else] (o: Option<T>, default: D, f: F) -> (r: U)
    requires o is None ==> call_requires(default, ()), o is Some ==> call_requires(f, (o->Some_0,)),
    ensures o is None ==> call_ensures(default, (), r), o is Some ==> call_ensures(f, (o->Some_0,), r);
pub open spec fn opt_ref_is(o: Option<&StunAttribute>, attrs: Seq<StunAttribute>, idx: Option<int>) -> bool {
    match o { Some(a) => idx is Some && *a == attrs[idx->Some_0], None => idx is None }
}
pub open spec fn opt_some(o: Option<&StunAttribute>) -> bool { o is Some }
//@item! stun_agent :: mod st_cred_mech > struct ShortTermCredentialClient
pub open spec fn kind_integrity(a: StunAttribute) -> Integrity {
    if a is MessageIntegrity { Integrity::MessageIntegrity } else { Integrity::MessageIntegritySha256 }
}
// which integrity attribute of a message the short-term client looks at, given what has been agreed so far
pub open spec fn st_chosen(agreed: Option<Integrity>, attrs: Seq<StunAttribute>) -> Option<int> {
    let mi = sel(attrs, attrs.len() as int, TY_MESSAGEINTEGRITY);
    let sha = sel(attrs, attrs.len() as int, TY_MESSAGEINTEGRITYSHA256);
    match agreed {
        Some(Integrity::MessageIntegrity) => mi,
        Some(Integrity::MessageIntegritySha256) => sha,
        None => if mi is Some { mi } else { sha },
    }
}
pub open spec fn st_both(msg: &StunMessage) -> bool {
    !(msg.sclass() is Indication)
    && sel(msg.attrs(), msg.attrs().len() as int, TY_MESSAGEINTEGRITY) is Some
    && sel(msg.attrs(), msg.attrs().len() as int, TY_MESSAGEINTEGRITYSHA256) is Some
}
impl ShortTermCredentialClient {
    pub open spec fn violated(&self) -> Set<TransactionId> { self.validator.violated() }
//@item stun_agent :: mod st_cred_mech > impl ShortTermCredentialClient > fn new
//@tags C07 C13
//@spec
    ensures r.user_name == user_name, r.key == key, r.integrity == integrity, r.validator.is_reliable == is_reliable,
        r.violated() == Set::<TransactionId>::empty(),
//@end
//@item stun_agent :: mod st_cred_mech > impl ShortTermCredentialClient > fn process_message
//@tags C07 C17 C13
//@rules R4
//@sub "msg.attributes().protected_iter()" => "VxSliceRef(msg.attributes()).protected_iter()"
//@head
    let ghost attrs = msg.attrs();
    let ghost n = attrs.len() as int;
//@loop 1
    invariant
        vx_it0.wf(), vx_it0.iter.s@ == attrs, n == attrs.len(), attrs == msg.attrs(),
        opt_ref_is(integrity, attrs, sel(attrs, vx_it0.iter.pos as int, TY_MESSAGEINTEGRITY)),
        opt_ref_is(integrity_sha256, attrs, sel(attrs, vx_it0.iter.pos as int, TY_MESSAGEINTEGRITYSHA256)),
        !(!(msg.sclass() is Indication) && opt_some(integrity) && opt_some(integrity_sha256)),
        *self == *old(self),
    ensures
        vx_it0.iter.pos == n,
    decreases n - vx_it0.iter.pos,
//@loopstart 1
    let ghost p0 = vx_it0.iter.pos as int;
//@at "Some(attr) => {"
    proof {
        let k = vx_it0.iter.pos - 1;
        lemma_sel_skip(attrs, p0, k, TY_MESSAGEINTEGRITY);
        lemma_sel_skip(attrs, p0, k, TY_MESSAGEINTEGRITYSHA256);
        assert(types_of(attrs)[k] == attrs[k].ty());
        lemma_variant_ty(attrs[k]);
        assert(*attr == attrs[k]);
        assert(admitted(types_of(attrs), k));
    }
//@stmt "return Err(IntegrityError::Discarded);"
    proof {
        let k1 = vx_it0.iter.pos as int;
        assert(sel(attrs, k1, TY_MESSAGEINTEGRITY) == (if admitted(types_of(attrs), k1 - 1) && attrs[k1 - 1].ty() == TY_MESSAGEINTEGRITY { Some(k1 - 1) } else { sel(attrs, k1 - 1, TY_MESSAGEINTEGRITY) }));
        assert(sel(attrs, k1, TY_MESSAGEINTEGRITYSHA256) == (if admitted(types_of(attrs), k1 - 1) && attrs[k1 - 1].ty() == TY_MESSAGEINTEGRITYSHA256 { Some(k1 - 1) } else { sel(attrs, k1 - 1, TY_MESSAGEINTEGRITYSHA256) }));
        assert(sel(attrs, k1, TY_MESSAGEINTEGRITY) is Some);
        assert(sel(attrs, k1, TY_MESSAGEINTEGRITYSHA256) is Some);
        lemma_sel_mono(attrs, vx_it0.iter.pos as int, n, TY_MESSAGEINTEGRITY);
        lemma_sel_mono(attrs, vx_it0.iter.pos as int, n, TY_MESSAGEINTEGRITYSHA256);
    }
//@before "break; }"
    proof {
        lemma_sel_skip(attrs, p0, n, TY_MESSAGEINTEGRITY);
        lemma_sel_skip(attrs, p0, n, TY_MESSAGEINTEGRITYSHA256);
    }
//@spec
    requires msg.decoder_made(),
    ensures
        final(self).user_name == old(self).user_name, final(self).key == old(self).key,
        final(self).validator.is_reliable == old(self).validator.is_reliable,
        // a response carrying both integrity attributes is rejected outright
        st_both(msg) ==> r == Err::<(), IntegrityError>(IntegrityError::Discarded) && *final(self) == *old(self),
        !st_both(msg) ==> {
            let c = st_chosen(old(self).integrity, msg.attrs());
            // accepted exactly when the attribute of the agreed (or, if none is agreed yet, the offered) algorithm verifies
            &&& (r is Ok <==> c is Some && mac_ok(msg.attrs()[c->Some_0], old(self).key, raw_buffer@))
            &&& (r is Ok ==> final(self).violated() == (if msg.sclass() is Indication { old(self).violated() }
                    else { old(self).violated().remove(msg.sid()) })
                && final(self).integrity == (if old(self).integrity is Some { old(self).integrity }
                    else if msg.sclass() is Indication { None } else { Some(kind_integrity(msg.attrs()[c->Some_0])) }))
            &&& (r is Err ==> r->Err_0 == old(self).validator.discard_outcome(msg).0
                && final(self).violated() == old(self).validator.discard_outcome(msg).1
                && final(self).integrity == old(self).integrity)
        },
//@end
//@item stun_agent :: mod st_cred_mech > impl ShortTermCredentialClient > fn recv_message
//@tags C07 C17 C13
//@spec
    requires msg.decoder_made(),
    ensures
        final(self).user_name == old(self).user_name, final(self).key == old(self).key,
        final(self).validator.is_reliable == old(self).validator.is_reliable,
        // requests are never accepted
        msg.sclass() is Request ==> r == Err::<(), IntegrityError>(IntegrityError::Discarded) && *final(self) == *old(self),
        msg.sclass() is Indication ==> (r is Ok || r->Err_0 is Discarded),
        (!(msg.sclass() is Request) && st_both(msg)) ==> r == Err::<(), IntegrityError>(IntegrityError::Discarded) && *final(self) == *old(self),
        (!(msg.sclass() is Request) && !st_both(msg)) ==> {
            let c = st_chosen(old(self).integrity, msg.attrs());
            &&& (r is Ok <==> c is Some && mac_ok(msg.attrs()[c->Some_0], old(self).key, raw_buffer@))
            &&& (r is Ok ==> final(self).violated() == (if msg.sclass() is Indication { old(self).violated() }
                    else { old(self).violated().remove(msg.sid()) })
                && final(self).integrity == (if old(self).integrity is Some { old(self).integrity }
                    else if msg.sclass() is Indication { None } else { Some(kind_integrity(msg.attrs()[c->Some_0])) }))
            &&& (r is Err ==> r->Err_0 == old(self).validator.discard_outcome(msg).0
                && final(self).violated() == old(self).validator.discard_outcome(msg).1
                && final(self).integrity == old(self).integrity)
        },
//@end
//@item stun_agent :: mod st_cred_mech > impl ShortTermCredentialClient > fn prepare_request_or_indication
//@tags C07 C13
//@subopt "remove_auth_and_integrity_attrs(" => "st_remove_auth_and_integrity_attrs("
//@spec
    requires old(attributes).wf(),
    ensures final(attributes).wf(), st_prepared(*self, *old(attributes), *final(attributes)),
//@end
//@item stun_agent :: mod st_cred_mech > impl ShortTermCredentialClient > fn add_attributes
//@tags C07 C13
//@spec
    requires old(attributes).wf(),
    ensures final(attributes).wf(), st_prepared(*self, *old(attributes), *final(attributes)),
//@end
//@item stun_agent :: mod st_cred_mech > impl ShortTermCredentialClient > fn signal_protection_violated_on_timeout
//@tags C07 C17 C13
//@spec
    ensures final(self).user_name == old(self).user_name, final(self).key == old(self).key, final(self).integrity == old(self).integrity,
        final(self).validator.is_reliable == old(self).validator.is_reliable,
        r == old(self).violated().contains(*transaction_id),
        final(self).violated() == old(self).violated().remove(*transaction_id),
//@end
}

// ordinary attributes of `s` without the one of type t (order of the others kept)
pub open spec fn without_ty(s: StunAttributes, t: u16) -> Seq<StunAttribute> { seq_without(s.attributes@, t) }
pub open spec fn is_mi_with(o: Option<StunAttribute>, key: HMACKey) -> bool {
    o is Some && o->Some_0 is MessageIntegrity && o->Some_0->MessageIntegrity_0.key() == key
}
pub open spec fn is_sha_with(o: Option<StunAttribute>, key: HMACKey) -> bool {
    o is Some && o->Some_0 is MessageIntegritySha256 && o->Some_0->MessageIntegritySha256_0.key() == key
}
// C07/C13: what the short-term mechanism makes of the application's attribute set: any USERNAME / integrity supplied
// by the application is replaced (not duplicated); USERNAME(user) is appended after the other attributes in their
// original order; the integrity attribute(s) carry the configured key; FINGERPRINT slot untouched
pub open spec fn st_prepared(c: ShortTermCredentialClient, s0: StunAttributes, s1: StunAttributes) -> bool {
    &&& s1.attributes@ == without_ty(s0, TY_USERNAME).push(StunAttribute::UserName(c.user_name))
    &&& s1.fingerprint == s0.fingerprint
    &&& match c.integrity {
        Some(Integrity::MessageIntegrity) => is_mi_with(s1.integrity, c.key) && s1.integrity_sha256 is None,
        Some(Integrity::MessageIntegritySha256) => is_sha_with(s1.integrity_sha256, c.key) && s1.integrity is None,
        None => is_mi_with(s1.integrity, c.key) && is_sha_with(s1.integrity_sha256, c.key),
    }
}
// (flat namespace) st_cred_mech.rs and lt_cred_mech.rs each have a private fn of this name: prefixed st_ / lt_
//@item stun_agent :: mod st_cred_mech > fn remove_auth_and_integrity_attrs
//@tags C07 C13
//@sub "fn remove_auth_and_integrity_attrs" => "fn st_remove_auth_and_integrity_attrs"
//@spec
    requires old(attributes).wf(),
    ensures final(attributes).wf(),
        final(attributes).attributes@ == without_ty(*old(attributes), TY_USERNAME),
        final(attributes).integrity is None, final(attributes).integrity_sha256 is None,
        final(attributes).fingerprint == old(attributes).fingerprint,
        lacks(final(attributes).attributes@, TY_USERNAME),
//@tail
    proof { lemma_without(old(attributes).attributes@, TY_USERNAME, TY_USERNAME); }
//@end

// ---------------------------------------------------------------- lt_cred_mech.rs (RFC 8489 9.2)
//@item! stun_rs :: mod algorithm > enum AlgorithmId
//@item! stun_rs :: mod attributes > mod stun > mod nonce_cookie > enum StunSecurityFeatures
#[verifier::external_body]
pub struct StunError { _p: () }
#[verifier::external_body]
pub struct Algorithm { _p: () }
impl Clone for Algorithm { #[verifier::external_body] fn clone(&self) -> (r: Self) ensures r == *self { unimplemented!() } }
pub uninterp spec fn algorithm_of(id: AlgorithmId) -> Algorithm;
impl vstd::std_specs::convert::FromSpecImpl<AlgorithmId> for Algorithm {
    open spec fn obeys_from_spec() -> bool { true }
    open spec fn from_spec(v: AlgorithmId) -> Self { algorithm_of(v) }
}
impl From<AlgorithmId> for Algorithm {
    #[verifier::external_body]
    fn from(v: AlgorithmId) -> (r: Algorithm) { unimplemented!() }
}
#[verifier::external_body]
pub struct BitFlagsSec { _p: () }
impl BitFlagsSec {
    pub uninterp spec fn has(&self, f: StunSecurityFeatures) -> bool;
    #[verifier::external_body]
    pub fn contains(&self, f: StunSecurityFeatures) -> (r: bool) ensures r == self.has(f) { unimplemented!() }
}
// the text of string-valued attributes
#[verifier::external_body]
pub struct VxStr { _p: () }
impl Nonce {
    pub uninterp spec fn cookie(&self) -> bool;
    pub uninterp spec fn features(&self) -> Option<BitFlagsSec>;
    #[verifier::external_body]
    pub fn is_nonce_cookie(&self) -> (r: bool) ensures r == self.cookie() { unimplemented!() }
    #[verifier::external_body]
    pub fn security_features(&self) -> (r: Result<BitFlagsSec, StunError>)
        ensures r is Ok <==> self.features() is Some, r is Ok ==> r->Ok_0 == self.features()->Some_0,
    { unimplemented!() }
}
impl PasswordAlgorithm {
    pub uninterp spec fn alg_id(&self) -> AlgorithmId;
    pub uninterp spec fn alg(&self) -> Algorithm;
    #[verifier::external_body]
    pub fn algorithm(&self) -> (r: AlgorithmId) ensures r == self.alg_id() { unimplemented!() }
    #[verifier::external_body]
    pub fn as_ref(&self) -> (r: &Algorithm) ensures *r == self.alg() { unimplemented!() }
}
impl PasswordAlgorithms {
    pub uninterp spec fn algs(&self) -> Seq<PasswordAlgorithm>;
    // `iter()` over the offered algorithms, as the (slice, position) iterator model
    #[verifier::external_body]
    pub fn iter(&self) -> (r: Iter<'_, PasswordAlgorithm>) ensures r.s@ == self.algs(), r.pos == 0 { unimplemented!() }
}
#[verifier::external_body]
pub struct TypesErrorCode { _p: () }
impl TypesErrorCode {
    pub uninterp spec fn code(&self) -> u16;
    #[verifier::external_body]
    pub fn error_code(&self) -> (r: u16) ensures r == self.code() { unimplemented!() }
}
impl ErrorCode {
    pub uninterp spec fn ec(&self) -> TypesErrorCode;
    #[verifier::external_body]
    pub fn error_code(&self) -> (r: &TypesErrorCode) ensures *r == self.ec() { unimplemented!() }
}
// key derivation and USERHASH (RFC 8489 9.2.2, 14.4): named functions of user, realm, password, algorithm
pub uninterp spec fn lt_key(user: UserName, realm: Realm, password: Seq<char>, alg: Algorithm) -> Option<HMACKey>;
pub uninterp spec fn user_hash_of(user: UserName, realm: Realm) -> Option<UserHash>;
impl HMACKey {
    #[verifier::external_body]
    pub fn new_long_term(user_name: &UserName, realm: &Realm, password: &str, algorithm: Algorithm) -> (r: Result<HMACKey, StunError>)
        ensures r is Ok <==> lt_key(*user_name, *realm, password@, algorithm) is Some,
            r is Ok ==> r->Ok_0 == lt_key(*user_name, *realm, password@, algorithm)->Some_0,
    { unimplemented!() }
}
impl UserHash {
    #[verifier::external_body]
    pub fn new(user_name: &UserName, realm: &Realm) -> (r: Result<UserHash, StunError>)
        ensures r is Ok <==> user_hash_of(*user_name, *realm) is Some,
            r is Ok ==> r->Ok_0 == user_hash_of(*user_name, *realm)->Some_0,
    { unimplemented!() }
}
//@item! stun_agent :: enum StunAgentError
//@consts stun_agent :: mod lt_cred_mech
//@item! stun_agent :: mod lt_cred_mech > struct LongTermCredentialAttributes
//@item! stun_agent :: mod lt_cred_mech > enum RetryCause
//@item! stun_agent :: mod lt_cred_mech > enum LongTermCredentialState
//@item! stun_agent :: mod lt_cred_mech > struct LongTermCredentialClient
//@item! stun_agent :: mod lt_cred_mech > struct LongTermAttributes
impl Clone for LongTermCredentialAttributes {
//@item! stun_agent :: mod lt_cred_mech > impl ::core::clone::Clone for LongTermCredentialAttributes > fn clone
}
impl vstd::std_specs::cmp::PartialEqSpecImpl for LongTermCredentialState {
    open spec fn obeys_eq_spec() -> bool { true }
    open spec fn eq_spec(&self, other: &LongTermCredentialState) -> bool { *self == *other }
}
impl PartialEq for LongTermCredentialState {
    #[verifier::external_body]
    fn eq(&self, other: &LongTermCredentialState) -> (r: bool) { unimplemented!() }
}

//@item stun_agent :: mod lt_cred_mech > fn create_user_hash_attr
//@tags C08 C13
//@sig
fn create_user_hash_attr(transaction_id: &TransactionId, user_name: &UserName, realm: &Realm) -> (r: Result<UserHash, IntegrityError>)
//@closure 1
|e: StunError| -> (x: IntegrityError)
    ensures x is Discarded,
//@spec
    ensures r is Ok <==> user_hash_of(*user_name, *realm) is Some,
        r is Ok ==> r->Ok_0 == user_hash_of(*user_name, *realm)->Some_0,
        r is Err ==> r->Err_0 is Discarded,
//@end

// what TransportIntegrity::compute_message_integrity does (its contract, as a relation usable by the callers' contracts)
pub open spec fn compute_post(v0: TransportIntegrity, v1: TransportIntegrity, key: HMACKey, chosen: Option<&StunAttribute>,
    raw: Seq<u8>, msg: &StunMessage, r: Result<(), IntegrityError>) -> bool {
    &&& v1.is_reliable == v0.is_reliable
    &&& (r is Ok <==> chosen is Some && mac_ok(*chosen->Some_0, key, raw))
    &&& (r is Ok ==> v1.violated() == (if msg.sclass() is Indication { v0.violated() } else { v0.violated().remove(msg.sid()) }))
    &&& (r is Err ==> r->Err_0 == v0.discard_outcome(msg).0 && v1.violated() == v0.discard_outcome(msg).1)
}
//@item stun_agent :: mod lt_cred_mech > fn authenticate_message
//@tags C08 C17 C13
//@spec
    ensures compute_post(*old(validator), *final(validator), *key,
        (match integrity { Integrity::MessageIntegrity => message_integrity, Integrity::MessageIntegritySha256 => message_integrity_sha256 }),
        raw_buffer@, msg, r),
//@end
// the algorithm the key is derived with: the chosen PASSWORD-ALGORITHM, MD5 if the server offered none (RFC 8489 9.2.4)
pub open spec fn lt_alg(pa: Option<PasswordAlgorithm>) -> Algorithm {
    match pa { Some(a) => a.alg(), None => algorithm_of(AlgorithmId::MD5) }
}
//@item stun_agent :: mod lt_cred_mech > fn create_long_term_auth_attrs
//@tags C08 C13
//@closure 1
|| -> (x: IntegrityError)
    ensures x is Discarded,
//@closure 2
|| -> (x: IntegrityError)
    ensures x is Discarded,
//@closure 3
|e: StunError| -> (x: IntegrityError)
    ensures x is Discarded,
//@spec
    ensures
        r is Ok <==> attrs.realm is Some && attrs.nonce is Some
            && (user_anonymity ==> user_hash_of(*user_name, attrs.realm->Some_0) is Some)
            && lt_key(*user_name, attrs.realm->Some_0, password@, lt_alg(attrs.password_algorithm)) is Some,
        r is Err ==> r->Err_0 is Discarded,
        r is Ok ==> {
            let p = r->Ok_0;
            &&& p.realm == attrs.realm->Some_0 && p.nonce == attrs.nonce->Some_0
            &&& p.password_algorithms == attrs.password_algorithms && p.password_algorithm == attrs.password_algorithm
            // the key is H(user:realm:password) under the chosen algorithm; the password itself goes nowhere else
            &&& p.key == lt_key(*user_name, attrs.realm->Some_0, password@, lt_alg(attrs.password_algorithm))->Some_0
            &&& p.user_hash == (if user_anonymity { Some(user_hash_of(*user_name, attrs.realm->Some_0)->Some_0) } else { None })
            // SHA-256 integrity iff the server offered password algorithms
            &&& p.integrity == (if attrs.password_algorithms is Some { Integrity::MessageIntegritySha256 } else { Integrity::MessageIntegrity })
        },
//@end
// application-supplied credential attributes are removed before the mechanism adds its own (overridden, not duplicated)
#[verifier::opaque]
pub open spec fn lacks(s: Seq<StunAttribute>, t: u16) -> bool { forall|i: int| 0 <= i < s.len() ==> (#[trigger] s[i]).ty() != t }
proof fn lemma_without(s: Seq<StunAttribute>, t: u16, u: u16)
    requires distinct_types(s),
    ensures distinct_types(seq_without(s, t)), lacks(seq_without(s, t), t),
        lacks(s, u) ==> lacks(seq_without(s, t), u),
        forall|i: int| 0 <= i < seq_without(s, t).len() ==> s.contains(#[trigger] seq_without(s, t)[i]),
{
    reveal(lacks); reveal(distinct_types); reveal(seq_index_of);
    let w = seq_without(s, t);
    match seq_index_of(s, t) {
        Some(k) => {
            assert(0 <= k < s.len() && s[k].ty() == t);
            assert forall|i: int| 0 <= i < w.len() implies (#[trigger] w[i]).ty() != t && s.contains(w[i]) && (lacks(s, u) ==> w[i].ty() != u) by {
                if i < k { assert(w[i] == s[i]); } else { assert(w[i] == s[i + 1]); }
            }
            assert forall|i: int, j: int| 0 <= i < j < w.len() implies w[i].ty() != w[j].ty() by {
                let a = if i < k { i } else { i + 1 };
                let b = if j < k { j } else { j + 1 };
                assert(w[i] == s[a] && w[j] == s[b]);
            }
        },
        None => {
            assert forall|i: int| 0 <= i < s.len() implies (#[trigger] s[i]).ty() != t by {}
        },
    }
}
pub open spec fn lt_cleared(s: Seq<StunAttribute>) -> Seq<StunAttribute> {
    seq_without(seq_without(seq_without(seq_without(seq_without(seq_without(s, TY_USERNAME), TY_USERHASH), TY_REALM), TY_NONCE),
        TY_PASSWORDALGORITHM), TY_PASSWORDALGORITHMS)
}
//@item stun_agent :: mod lt_cred_mech > fn remove_auth_and_integrity_attrs
//@tags C08 C13
//@sub "fn remove_auth_and_integrity_attrs" => "fn lt_remove_auth_and_integrity_attrs"
//@spec
    requires old(attributes).wf(),
    ensures final(attributes).wf(),
        final(attributes).attributes@ == lt_cleared(old(attributes).attributes@),
        final(attributes).integrity is None, final(attributes).integrity_sha256 is None,
        final(attributes).fingerprint == old(attributes).fingerprint,
        lacks(final(attributes).attributes@, TY_USERNAME), lacks(final(attributes).attributes@, TY_USERHASH),
        lacks(final(attributes).attributes@, TY_REALM), lacks(final(attributes).attributes@, TY_NONCE),
        lacks(final(attributes).attributes@, TY_PASSWORDALGORITHM), lacks(final(attributes).attributes@, TY_PASSWORDALGORITHMS),
//@tail
    proof {
        let s0 = old(attributes).attributes@;
        let s1 = seq_without(s0, TY_USERNAME);
        let s2 = seq_without(s1, TY_USERHASH);
        let s3 = seq_without(s2, TY_REALM);
        let s4 = seq_without(s3, TY_NONCE);
        let s5 = seq_without(s4, TY_PASSWORDALGORITHM);
        let s6 = seq_without(s5, TY_PASSWORDALGORITHMS);
        lemma_without(s0, TY_USERNAME, TY_USERNAME);
        lemma_without(s1, TY_USERHASH, TY_USERNAME);
        lemma_without(s2, TY_REALM, TY_USERNAME); lemma_without(s2, TY_REALM, TY_USERHASH);
        lemma_without(s3, TY_NONCE, TY_USERNAME); lemma_without(s3, TY_NONCE, TY_USERHASH); lemma_without(s3, TY_NONCE, TY_REALM);
        lemma_without(s4, TY_PASSWORDALGORITHM, TY_USERNAME); lemma_without(s4, TY_PASSWORDALGORITHM, TY_USERHASH);
        lemma_without(s4, TY_PASSWORDALGORITHM, TY_REALM); lemma_without(s4, TY_PASSWORDALGORITHM, TY_NONCE);
        lemma_without(s5, TY_PASSWORDALGORITHMS, TY_USERNAME); lemma_without(s5, TY_PASSWORDALGORITHMS, TY_USERHASH);
        lemma_without(s5, TY_PASSWORDALGORITHMS, TY_REALM); lemma_without(s5, TY_PASSWORDALGORITHMS, TY_NONCE);
        lemma_without(s5, TY_PASSWORDALGORITHMS, TY_PASSWORDALGORITHM);
        assert(attributes.attributes@ == s6);
    }
//@prefix
#[verifier::rlimit(60)]
//@end

// ---- what the long-term client reads out of an error response (admitted attributes only)
pub open spec fn from_msg(attrs: Seq<StunAttribute>, a: StunAttribute) -> bool {
    exists|k: int| 0 <= k < attrs.len() && admitted(types_of(attrs), k) && #[trigger] attrs[k] == a
}
pub open spec fn ec_inv(e: Option<&ErrorCode>, attrs: Seq<StunAttribute>) -> bool {
    e is Some ==> from_msg(attrs, StunAttribute::ErrorCode(*e->Some_0))
}
pub open spec fn realm_inv(r: Option<Realm>, attrs: Seq<StunAttribute>) -> bool {
    r is Some ==> from_msg(attrs, StunAttribute::Realm(r->Some_0))
}
pub open spec fn nonce_flag(x: Nonce, f: StunSecurityFeatures) -> bool {
    x.cookie() && x.features() is Some && x.features()->Some_0.has(f)
}
pub open spec fn nonce_inv(nonce: Option<Nonce>, anon: bool, pas: bool, attrs: Seq<StunAttribute>) -> bool {
    match nonce {
        Some(x) => from_msg(attrs, StunAttribute::Nonce(x)) && anon == nonce_flag(x, StunSecurityFeatures::UserNameAnonymity)
            && pas == nonce_flag(x, StunSecurityFeatures::PasswordAlgorithms),
        None => !anon && !pas,
    }
}
// the chosen algorithm is one of the offered ones and is MD5 or SHA-256
pub open spec fn pa_inv(pa: Option<PasswordAlgorithm>, offered: PasswordAlgorithms) -> bool {
    pa is Some ==> (exists|j: int| 0 <= j < offered.algs().len() && #[trigger] offered.algs()[j] == pa->Some_0)
        && (pa->Some_0.alg_id() is MD5 || pa->Some_0.alg_id() is SHA256)
}
pub open spec fn pas_inv(pas: Option<PasswordAlgorithms>, pa: Option<PasswordAlgorithm>, attrs: Seq<StunAttribute>) -> bool {
    match pas {
        Some(x) => from_msg(attrs, StunAttribute::PasswordAlgorithms(x)) && pa is Some && pa_inv(pa, x),
        None => pa is None,
    }
}
// "msg carries an admitted integrity attribute of the agreed algorithm that verifies under the long-term key"
pub open spec fn lt_verified(p: LongTermCredentialAttributes, msg: &StunMessage, raw: Seq<u8>) -> bool {
    let t = match p.integrity { Integrity::MessageIntegrity => TY_MESSAGEINTEGRITY, Integrity::MessageIntegritySha256 => TY_MESSAGEINTEGRITYSHA256 };
    let i = sel(msg.attrs(), msg.attrs().len() as int, t);
    i is Some && mac_ok(msg.attrs()[i->Some_0], p.key, raw)
}
// the credential attributes every request after the 401 challenge carries (RFC 8489 9.2.4), in the order added
pub open spec fn lt_cred_seq(c: LongTermCredentialClient, with_algorithms: bool) -> Seq<StunAttribute> {
    let p = c.params->Some_0;
    seq![(if p.user_hash is Some { StunAttribute::UserHash(p.user_hash->Some_0) } else { StunAttribute::UserName(c.user_name) }),
         StunAttribute::Realm(p.realm), StunAttribute::Nonce(p.nonce)]
    + (if with_algorithms && p.password_algorithms is Some { seq![StunAttribute::PasswordAlgorithms(p.password_algorithms->Some_0)] } else { Seq::<StunAttribute>::empty() })
    + (if with_algorithms && p.password_algorithm is Some { seq![StunAttribute::PasswordAlgorithm(p.password_algorithm->Some_0)] } else { Seq::<StunAttribute>::empty() })
}
pub open spec fn lt_integrity_ok(c: LongTermCredentialClient, s1: StunAttributes) -> bool {
    match c.params->Some_0.integrity {
        Integrity::MessageIntegrity => is_mi_with(s1.integrity, c.params->Some_0.key) && s1.integrity_sha256 is None,
        Integrity::MessageIntegritySha256 => is_sha_with(s1.integrity_sha256, c.params->Some_0.key) && s1.integrity is None,
    }
}
// C08: what every request after the challenge must look like: USERNAME or USERHASH, REALM, the latest NONCE, the offered
// PASSWORD-ALGORITHMS and the chosen PASSWORD-ALGORITHM, and an integrity attribute under the derived key
pub open spec fn lt_prepared(c: LongTermCredentialClient, s0: StunAttributes, s1: StunAttributes) -> bool {
    &&& s1.attributes@ == lt_cleared(s0.attributes@) + lt_cred_seq(c, true)
    &&& s1.fingerprint == s0.fingerprint
    &&& lt_integrity_ok(c, s1)
}
impl LongTermCredentialClient {
    pub open spec fn violated(&self) -> Set<TransactionId> { self.validator.violated() }
    // invariant: credentials exist in every state but the first
    pub open spec fn wf(&self) -> bool { !(self.state is FirstRequest) ==> self.params is Some }
//@item stun_agent :: mod lt_cred_mech > impl LongTermCredentialClient > fn change_state
//@spec
    ensures final(self).state == new_state, final(self).user_name == old(self).user_name, final(self).password == old(self).password,
        final(self).params == old(self).params, final(self).validator == old(self).validator,
//@end
//@item stun_agent :: mod lt_cred_mech > impl LongTermCredentialClient > fn first_request
//@tags C08 C13
//@subopt "remove_auth_and_integrity_attrs(" => "lt_remove_auth_and_integrity_attrs("
//@spec
    requires old(attributes).wf(),
    ensures final(attributes).wf(), *final(self) == *old(self), r is Ok,
        // the first request carries no credential attributes at all
        final(attributes).attributes@ == lt_cleared(old(attributes).attributes@),
        final(attributes).integrity is None, final(attributes).integrity_sha256 is None,
        final(attributes).fingerprint == old(attributes).fingerprint,
//@end
//@item stun_agent :: mod lt_cred_mech > impl LongTermCredentialClient > fn subsequent_request
//@tags C08 C13
//@subopt "remove_auth_and_integrity_attrs(" => "lt_remove_auth_and_integrity_attrs("
//@spec
    requires old(attributes).wf(),
    ensures final(attributes).wf(), *final(self) == *old(self),
        old(self).params is None ==> r is Err && r->Err_0 is InternalError && *final(attributes) == *old(attributes),
        old(self).params is Some ==> r is Ok && lt_prepared(*old(self), *old(attributes), *final(attributes)),
//@tail
    proof {
        assert(attributes.attributes@ =~= lt_cleared(old(attributes).attributes@) + lt_cred_seq(*self, true));
        assert(lt_integrity_ok(*self, *attributes));
    }
//@end
//@item stun_agent :: mod lt_cred_mech > impl LongTermCredentialClient > fn retry_from_unauthenticated_error_response
//@tags C08
//@subopt "remove_auth_and_integrity_attrs(" => "lt_remove_auth_and_integrity_attrs("
//@tail
    proof {
        assert(attributes.attributes@ =~= lt_cleared(old(attributes).attributes@) + lt_cred_seq(*self, true));
    }
//@spec
    requires old(attributes).wf(),
    ensures final(attributes).wf(), *final(self) == *old(self),
        old(self).params is None ==> r is Err && r->Err_0 is InternalError && *final(attributes) == *old(attributes),
        old(self).params is Some ==> r is Ok
            && final(attributes).attributes@ == lt_cleared(old(attributes).attributes@) + lt_cred_seq(*old(self), true)
            && final(attributes).fingerprint == old(attributes).fingerprint,
        // C08: the retry after the 401 challenge must carry an integrity attribute under the derived key
        old(self).params is Some ==> lt_integrity_ok(*old(self), *final(attributes)),
//@end
//@item stun_agent :: mod lt_cred_mech > impl LongTermCredentialClient > fn retry_from_stale_nonce_error_response
//@tags C08
//@subopt "remove_auth_and_integrity_attrs(" => "lt_remove_auth_and_integrity_attrs("
//@tail
    proof {
        assert(attributes.attributes@ =~= lt_cleared(old(attributes).attributes@) + lt_cred_seq(*self, false));
        assert(lt_integrity_ok(*self, *attributes));
    }
//@spec
    requires old(attributes).wf(),
    ensures final(attributes).wf(), *final(self) == *old(self),
        old(self).params is None ==> r is Err && r->Err_0 is InternalError && *final(attributes) == *old(attributes),
        old(self).params is Some ==> r is Ok
            && final(attributes).attributes@ == lt_cleared(old(attributes).attributes@) + lt_cred_seq(*old(self), false)
            && final(attributes).fingerprint == old(attributes).fingerprint
            && lt_integrity_ok(*old(self), *final(attributes)),
        // C08: the retry after a 438 must still carry the offered PASSWORD-ALGORITHMS and the chosen PASSWORD-ALGORITHM
        old(self).params is Some ==> final(attributes).attributes@ == lt_cleared(old(attributes).attributes@) + lt_cred_seq(*old(self), true),
//@end
//@item stun_agent :: mod lt_cred_mech > impl LongTermCredentialClient > fn prepare_request
//@tags C08 C13
//@spec
    requires old(attributes).wf(), old(self).wf(),
    ensures final(attributes).wf(), *final(self) == *old(self),
        r is Ok, !(r is Err && r->Err_0 is MaxOutstandingRequestsReached),
        final(attributes).fingerprint == old(attributes).fingerprint,
        // first request: no credential attributes at all
        old(self).state is FirstRequest ==> final(attributes).attributes@ == lt_cleared(old(attributes).attributes@)
            && final(attributes).integrity is None && final(attributes).integrity_sha256 is None,
        // every later request (see the two known findings for the Retry states)
        old(self).state is SubsequentRequest ==> lt_prepared(*old(self), *old(attributes), *final(attributes)),
        old(self).state is Retry ==> lt_prepared(*old(self), *old(attributes), *final(attributes)),
//@end
//@item stun_agent :: mod lt_cred_mech > impl LongTermCredentialClient > fn prepare_indication
//@tags C08 C13
//@spec
    ensures r is Err && r->Err_0 is Ignored, *final(self) == *old(self), *final(_attributes) == *old(_attributes),
//@end
//@item stun_agent :: mod lt_cred_mech > impl LongTermCredentialClient > fn signal_protection_violated_on_timeout
//@tags C08 C17 C13
//@spec
    ensures final(self).user_name == old(self).user_name, final(self).password == old(self).password,
        final(self).params == old(self).params, final(self).state == old(self).state,
        final(self).validator.is_reliable == old(self).validator.is_reliable,
        r == old(self).violated().contains(*transaction_id),
        final(self).violated() == old(self).violated().remove(*transaction_id),
//@end
    pub open spec fn same_ident(&self, o: &LongTermCredentialClient) -> bool {
        self.user_name == o.user_name && self.password == o.password && self.validator.is_reliable == o.validator.is_reliable
    }
//@item stun_agent :: mod lt_cred_mech > impl LongTermCredentialClient > fn process_unauthenticated_error_response
//@tags C08 C17 C13
//@spec
    ensures final(self).same_ident(old(self)),
        ({
            let needs_auth = message_integrity is Some || message_integrity_sha256 is Some;
            let chosen = match auth_params.integrity { Integrity::MessageIntegrity => message_integrity, Integrity::MessageIntegritySha256 => message_integrity_sha256 };
            let verified = chosen is Some && mac_ok(*chosen->Some_0, auth_params.key, raw_buffer@);
            if needs_auth && !verified {
                // a challenge that carries an integrity attribute must verify under the freshly derived key
                r == Err::<(), IntegrityError>(old(self).validator.discard_outcome(msg).0)
                && final(self).violated() == old(self).validator.discard_outcome(msg).1
                && final(self).params == old(self).params && final(self).state == old(self).state
            } else {
                // otherwise: adopt the new credentials and tell the application to retry
                r == Err::<(), IntegrityError>(IntegrityError::Retry)
                && final(self).params == Some(auth_params)
                && final(self).state == LongTermCredentialState::Retry(RetryCause::Unauthenticated)
                && final(self).violated() == (if needs_auth && !(msg.sclass() is Indication) { old(self).violated().remove(msg.sid()) } else { old(self).violated() })
            }
        }),
//@end
//@item stun_agent :: mod lt_cred_mech > impl LongTermCredentialClient > fn process_stale_nonce_error_response
//@tags C08 C17 C13
//@closure 1
|| -> (x: IntegrityError)
    ensures x is Discarded,
//@spec
    ensures final(self).same_ident(old(self)),
        (nonce is None || old(self).params is None) ==> r == Err::<(), IntegrityError>(IntegrityError::Discarded) && *final(self) == *old(self),
        (nonce is Some && old(self).params is Some) ==> {
            let p = old(self).params->Some_0;
            let needs_auth = message_integrity is Some || message_integrity_sha256 is Some;
            let chosen = match p.integrity { Integrity::MessageIntegrity => message_integrity, Integrity::MessageIntegritySha256 => message_integrity_sha256 };
            let verified = chosen is Some && mac_ok(*chosen->Some_0, p.key, raw_buffer@);
            if needs_auth && !verified {
                r == Err::<(), IntegrityError>(old(self).validator.discard_outcome(msg).0)
                && final(self).violated() == old(self).validator.discard_outcome(msg).1
                && final(self).params == old(self).params && final(self).state == old(self).state
            } else {
                // switch to the new nonce (everything else, the key included, is kept) and retry
                r == Err::<(), IntegrityError>(IntegrityError::Retry)
                && final(self).params == Some(LongTermCredentialAttributes { nonce: nonce->Some_0, ..p })
                && final(self).state == LongTermCredentialState::Retry(RetryCause::StaleNonce)
                && final(self).violated() == (if needs_auth && !(msg.sclass() is Indication) { old(self).violated().remove(msg.sid()) } else { old(self).violated() })
            }
        },
//@end
//@item stun_agent :: mod lt_cred_mech > impl LongTermCredentialClient > fn process_error
//@tags C08 C17 C13
//@spec
    ensures final(self).same_ident(old(self)), final(self).params == old(self).params, final(self).state == old(self).state,
        old(self).params is None ==> r == Err::<(), IntegrityError>(IntegrityError::Discarded) && *final(self) == *old(self),
        old(self).params is Some ==> compute_post(old(self).validator, final(self).validator, old(self).params->Some_0.key,
            (match old(self).params->Some_0.integrity { Integrity::MessageIntegrity => message_integrity, Integrity::MessageIntegritySha256 => message_integrity_sha256 }),
            raw_buffer@, msg, r),
//@end
//@item stun_agent :: mod lt_cred_mech > impl LongTermCredentialClient > fn process_success_response
//@tags C08 C17 C13
//@rules R4
//@sub "msg.attributes().protected_iter()" => "VxSliceRef(msg.attributes()).protected_iter()"
//@closure 1
|| -> (x: Result<(HMACKey, Integrity), IntegrityError>)
    ensures x == Err::<(HMACKey, Integrity), IntegrityError>(IntegrityError::Discarded),
//@closure 2
|params: &LongTermCredentialAttributes| -> (x: Result<(HMACKey, Integrity), IntegrityError>)
    ensures x == Ok::<(HMACKey, Integrity), IntegrityError>((params.key, params.integrity)),
//@head
    let ghost attrs = msg.attrs();
    let ghost n = attrs.len() as int;
//@loop 1
    invariant
        vx_it0.wf(), vx_it0.iter.s@ == attrs, n == attrs.len(), attrs == msg.attrs(),
        *self == *old(self), old(self).params is Some,
        key == old(self).params->Some_0.key, integrity == old(self).params->Some_0.integrity,
        // no admitted integrity attribute of the other kind so far; the one of the agreed kind is tracked
        match integrity {
            Integrity::MessageIntegrity => opt_ref_is(message_integrity, attrs, sel(attrs, vx_it0.iter.pos as int, TY_MESSAGEINTEGRITY))
                && sel(attrs, vx_it0.iter.pos as int, TY_MESSAGEINTEGRITYSHA256) is None && message_integrity_sha256 is None,
            Integrity::MessageIntegritySha256 => opt_ref_is(message_integrity_sha256, attrs, sel(attrs, vx_it0.iter.pos as int, TY_MESSAGEINTEGRITYSHA256))
                && sel(attrs, vx_it0.iter.pos as int, TY_MESSAGEINTEGRITY) is None && message_integrity is None,
        },
    ensures
        vx_it0.iter.pos == n,
    decreases n - vx_it0.iter.pos,
//@loopstart 1
    let ghost p0 = vx_it0.iter.pos as int;
//@at "Some(attribute) => {"
    proof {
        let k = vx_it0.iter.pos - 1;
        lemma_sel_skip(attrs, p0, k, TY_MESSAGEINTEGRITY);
        lemma_sel_skip(attrs, p0, k, TY_MESSAGEINTEGRITYSHA256);
        assert(types_of(attrs)[k] == attrs[k].ty());
        lemma_variant_ty(attrs[k]);
        assert(*attribute == attrs[k]);
        assert(admitted(types_of(attrs), k));
        if sel(attrs, k + 1, TY_MESSAGEINTEGRITY) is Some { lemma_sel_mono(attrs, k + 1, n, TY_MESSAGEINTEGRITY); }
        if sel(attrs, k + 1, TY_MESSAGEINTEGRITYSHA256) is Some { lemma_sel_mono(attrs, k + 1, n, TY_MESSAGEINTEGRITYSHA256); }
    }
//@before "break; }"
    proof {
        lemma_sel_skip(attrs, p0, n, TY_MESSAGEINTEGRITY);
        lemma_sel_skip(attrs, p0, n, TY_MESSAGEINTEGRITYSHA256);
    }
//@spec
    requires msg.decoder_made(),
    ensures final(self).same_ident(old(self)), final(self).params == old(self).params, final(self).state == old(self).state,
        old(self).params is None ==> r == Err::<(), IntegrityError>(IntegrityError::Discarded) && *final(self) == *old(self),
        old(self).params is Some ==> {
            let p = old(self).params->Some_0;
            let mi = sel(msg.attrs(), msg.attrs().len() as int, TY_MESSAGEINTEGRITY);
            let sha = sel(msg.attrs(), msg.attrs().len() as int, TY_MESSAGEINTEGRITYSHA256);
            let (mine, other) = match p.integrity { Integrity::MessageIntegrity => (mi, sha), Integrity::MessageIntegritySha256 => (sha, mi) };
            // a response protected with the other algorithm is ignored; otherwise it is accepted exactly when the
            // integrity attribute of the agreed algorithm verifies under the long-term key
            if other is Some {
                r == Err::<(), IntegrityError>(IntegrityError::Discarded) && *final(self) == *old(self)
            } else {
                &&& (r is Ok <==> mine is Some && mac_ok(msg.attrs()[mine->Some_0], p.key, raw_buffer@))
                &&& (r is Ok ==> final(self).violated() == (if msg.sclass() is Indication { old(self).violated() } else { old(self).violated().remove(msg.sid()) }))
                &&& (r is Err ==> r->Err_0 == old(self).validator.discard_outcome(msg).0
                        && final(self).violated() == old(self).validator.discard_outcome(msg).1)
            }
        },
//@end
//@item stun_agent :: mod lt_cred_mech > impl LongTermCredentialClient > fn process_error_response
//@tags C08 C17 C03 C13
//@rules R4
//@sub "msg.attributes().protected_iter()" => "VxSliceRef(msg.attributes()).protected_iter()"
//@closure 1
|| -> (x: IntegrityError)
    ensures x is Discarded,
//@head
    let ghost attrs = msg.attrs();
    let ghost n = attrs.len() as int;
//@loop 1
    invariant
        vx_it0.wf(), vx_it0.iter.s@ == attrs, n == attrs.len(), attrs == msg.attrs(),
        *self == *old(self), old(self).wf(),
        opt_ref_is(integrity, attrs, sel(attrs, vx_it0.iter.pos as int, TY_MESSAGEINTEGRITY)),
        opt_ref_is(integrity_sha256, attrs, sel(attrs, vx_it0.iter.pos as int, TY_MESSAGEINTEGRITYSHA256)),
        ec_inv(error_code, attrs), realm_inv(realm, attrs),
        nonce_inv(nonce, set_user_anonymity, set_password_algorithms, attrs),
        pas_inv(password_algorithms, password_algorithm, attrs),
    ensures
        vx_it0.iter.pos == n,
    decreases n - vx_it0.iter.pos,
//@loop 2
    invariant
        vx_it1.pos <= vx_it1.s@.len(), vx_it1.s@ == attr.algs(),
        pa_inv(password_algorithm, *attr),
    decreases vx_it1.s@.len() - vx_it1.pos,
//@loopstart 1
    let ghost p0 = vx_it0.iter.pos as int;
//@at "Some(attribute) => {"
    proof {
        let k = vx_it0.iter.pos - 1;
        lemma_sel_skip(attrs, p0, k, TY_MESSAGEINTEGRITY);
        lemma_sel_skip(attrs, p0, k, TY_MESSAGEINTEGRITYSHA256);
        assert(types_of(attrs)[k] == attrs[k].ty());
        lemma_variant_ty(attrs[k]);
        assert(*attribute == attrs[k]);
        assert(admitted(types_of(attrs), k));
        assert(from_msg(attrs, attrs[k]));
    }
//@before "break; }" #2
    proof {
        lemma_sel_skip(attrs, p0, n, TY_MESSAGEINTEGRITY);
        lemma_sel_skip(attrs, p0, n, TY_MESSAGEINTEGRITYSHA256);
    }
//@spec
    requires old(self).wf(), msg.decoder_made(),
    ensures final(self).same_ident(old(self)), final(self).wf(),
        // C17: anything that is not a retry instruction leaves the credentials and the state alone
        (r is Ok || !(r->Err_0 is Retry)) ==> final(self).params == old(self).params && final(self).state == old(self).state,
        (r is Err && r->Err_0 is Discarded) ==> (final(self).violated() == old(self).violated()
            || final(self).violated() == old(self).validator.discard_outcome(msg).1),
        // ordinary error responses are delivered only if they verify under the long-term key
        r is Ok ==> old(self).params is Some && lt_verified(old(self).params->Some_0, msg, raw_buffer@),
        // 401 challenge / 438 stale nonce
        (r is Err && r->Err_0 is Retry) ==> final(self).params is Some && final(self).state is Retry && {
            let p = final(self).params->Some_0;
            &&& from_msg(msg.attrs(), StunAttribute::Nonce(p.nonce))
            &&& (final(self).state == LongTermCredentialState::Retry(RetryCause::Unauthenticated) ==> {
                    &&& from_msg(msg.attrs(), StunAttribute::Realm(p.realm))
                    // key = H(user:realm:password) under the chosen algorithm (MD5 if none was offered)
                    &&& lt_key(old(self).user_name, p.realm, old(self).password@, lt_alg(p.password_algorithm)) == Some(p.key)
                    &&& p.integrity == (if p.password_algorithms is Some { Integrity::MessageIntegritySha256 } else { Integrity::MessageIntegrity })
                    &&& pas_inv(p.password_algorithms, p.password_algorithm, msg.attrs())
                    // USERHASH instead of USERNAME exactly when the nonce cookie asks for anonymity
                    &&& (p.user_hash is Some <==> nonce_flag(p.nonce, StunSecurityFeatures::UserNameAnonymity))
                    &&& (p.user_hash is Some ==> user_hash_of(old(self).user_name, p.realm) == p.user_hash)
                    // a nonce cookie announcing password algorithms must come with the list
                    &&& (nonce_flag(p.nonce, StunSecurityFeatures::PasswordAlgorithms) ==> p.password_algorithms is Some)
                })
            &&& (final(self).state == LongTermCredentialState::Retry(RetryCause::StaleNonce) ==>
                    old(self).params is Some && p == (LongTermCredentialAttributes { nonce: p.nonce, ..old(self).params->Some_0 }))
        },
//@end
//@item stun_agent :: mod lt_cred_mech > impl LongTermCredentialClient > fn new
//@tags C08 C13
//@sig
pub fn new(user_name: UserName, password: String, is_reliable: bool) -> (r: Self)
//@sub "password: password.into()," => "password,"
//@spec
    ensures r.user_name == user_name, r.password == password, r.params is None, r.state is FirstRequest, r.wf(),
        r.validator.is_reliable == is_reliable, r.violated() == Set::<TransactionId>::empty(),
//@end
//@item stun_agent :: mod lt_cred_mech > impl LongTermCredentialClient > fn recv_message
//@tags C08 C17 C03 C13
//@spec
    requires old(self).wf(), msg.decoder_made(),
    ensures final(self).same_ident(old(self)), final(self).wf(),
        // requests and indications are refused
        (msg.sclass() is Request || msg.sclass() is Indication) ==> r == Err::<(), IntegrityError>(IntegrityError::Discarded) && *final(self) == *old(self),
        // C17
        (r is Err && !(r->Err_0 is Retry)) ==> final(self).params == old(self).params && final(self).state == old(self).state,
        (r is Err && r->Err_0 is Discarded) ==> (final(self).violated() == old(self).violated()
            || (!(msg.sclass() is Indication) && final(self).violated() == old(self).violated().insert(msg.sid()))),
        // C08: responses are delivered only if they verify under the derived key
        r is Ok ==> old(self).params is Some && final(self).params == old(self).params
            && final(self).state is SubsequentRequest && lt_verified(old(self).params->Some_0, msg, raw_buffer@),
        (r is Err && r->Err_0 is Retry) ==> msg.sclass() is ErrorResponse && final(self).params is Some && final(self).state is Retry
            && from_msg(msg.attrs(), StunAttribute::Nonce(final(self).params->Some_0.nonce)),
//@end
}

// ---------------------------------------------------------------- client.rs: the mechanism as the client sees it
pub ghost struct StView { pub user_name: UserName, pub key: HMACKey, pub integrity: Option<Integrity> }
pub ghost struct LtView { pub user_name: UserName, pub password: Seq<char>, pub params: Option<LongTermCredentialAttributes>, pub state: LongTermCredentialState }
pub ghost enum MechState { St(StView), Lt(LtView) }
//@item! stun_agent :: mod client > enum CredentialMechanismClient
// C13: the attribute set after the mechanism has prepared a request / an indication
pub open spec fn mech_prepared_request(m: CredentialMechanismClient, s0: StunAttributes, s1: StunAttributes) -> bool {
    match m {
        CredentialMechanismClient::ShortTerm(c) => st_prepared(c, s0, s1),
        CredentialMechanismClient::LongTerm(c) => s1.fingerprint == s0.fingerprint && (
            if c.state is FirstRequest {
                s1.attributes@ == lt_cleared(s0.attributes@) && s1.integrity is None && s1.integrity_sha256 is None
            } else { lt_prepared(c, s0, s1) }),
    }
}
pub open spec fn mech_prepared_indication(m: CredentialMechanismClient, s0: StunAttributes, s1: StunAttributes) -> bool {
    match m {
        CredentialMechanismClient::ShortTerm(c) => st_prepared(c, s0, s1),
        CredentialMechanismClient::LongTerm(c) => false,    // long-term credentials refuse indications (Err(Ignored))
    }
}
impl CredentialMechanismClient {
    // everything but the protection-violated markers
    pub open spec fn st(&self) -> MechState {
        match self {
            CredentialMechanismClient::ShortTerm(m) => MechState::St(StView { user_name: m.user_name, key: m.key, integrity: m.integrity }),
            CredentialMechanismClient::LongTerm(m) => MechState::Lt(LtView { user_name: m.user_name, password: m.password@, params: m.params, state: m.state }),
        }
    }
    pub open spec fn violated(&self) -> Set<TransactionId> {
        match self {
            CredentialMechanismClient::ShortTerm(m) => m.violated(),
            CredentialMechanismClient::LongTerm(m) => m.violated(),
        }
    }
    pub open spec fn wf(&self) -> bool {
        match self { CredentialMechanismClient::ShortTerm(m) => true, CredentialMechanismClient::LongTerm(m) => m.wf() }
    }
//@item stun_agent :: mod client > impl CredentialMechanismClient > fn recv_message
//@tags C17 C07 C08 C05 C13
//@spec
    requires old(self).wf(), message.decoder_made(),
    ensures final(self).wf(),
            // a message that is to be ignored changes nothing but, for a response on unreliable transport, the marker
            (r is Err && r->Err_0 is Discarded) ==> final(self).st() == old(self).st()
                && (final(self).violated() == old(self).violated()
                    || (message.sclass() != MessageClass::Indication
                        && final(self).violated() == old(self).violated().insert(message.sid()))),
            // an indication is either accepted or silently discarded: no verdict about a request can come out of it
            message.sclass() is Indication ==> (r is Ok || r->Err_0 is Discarded),
//@end
//@item stun_agent :: mod client > impl CredentialMechanismClient > fn signal_protection_violated_on_timeout
//@tags C17 C07 C05 C13
//@spec
    requires old(self).wf(),
    ensures final(self).wf(),
            r == old(self).violated().contains(*transaction_id),
            final(self).violated() == old(self).violated().remove(*transaction_id),
            final(self).st() == old(self).st(),
//@end
//@item stun_agent :: mod client > impl CredentialMechanismClient > fn prepare_request
//@tags C13 C07 C08
//@spec
    requires old(self).wf(), old(attributes).wf(),
    ensures final(self).wf(), final(attributes).wf(),
            final(self).violated() == old(self).violated(), final(self).st() == old(self).st(),
            r is Err ==> !(r->Err_0 is MaxOutstandingRequestsReached),
            // C13: what the mechanism makes of the application's attributes (see st_prepared / lt_prepared)
            r is Ok ==> mech_prepared_request(*old(self), *old(attributes), *final(attributes)),
//@end
//@item stun_agent :: mod client > impl CredentialMechanismClient > fn prepare_indication
//@tags C13 C07 C08
//@spec
    requires old(self).wf(), old(attributes).wf(),
    ensures final(self).wf(), final(attributes).wf(),
            final(self).violated() == old(self).violated(), final(self).st() == old(self).st(),
            r is Err ==> !(r->Err_0 is MaxOutstandingRequestsReached),
            r is Ok ==> mech_prepared_indication(*old(self), *old(attributes), *final(attributes)),
//@end
}
proof fn vx_sentinel() ensures false {}
} // verus!
fn main() {}
