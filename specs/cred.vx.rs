#![feature(allocator_api)]
#![allow(unused, non_snake_case, non_camel_case_types, dead_code)]
use vstd::prelude::*;
use std::collections::HashSet;
use vstd::std_specs::hash::*;
verus! {
broadcast use vstd::std_specs::hash::group_hash_axioms;
//@include prelude/cred_env.rs

proof fn vx_sentinel() ensures false {}
} // verus!
fn main() {}
