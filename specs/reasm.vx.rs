#![feature(allocator_api)]
#![allow(unused, non_snake_case, non_camel_case_types, dead_code)]
use vstd::prelude::*;
use std::sync::Arc;
verus! {
//@include prelude/core.rs
//@include prelude/std_misc.rs

//@item stun_rs :: mod common > fn check_buffer_boundaries
//@spec
    ensures r is Ok <==> buffer@.len() >= limit,
//@end
//@item! stun_rs :: trait Decode
//@item! stun_rs :: mod raw > const MESSAGE_HEADER_SIZE
//@item! stun_rs :: mod types > const MAGIC_COOKIE_SIZE
//@item! stun_rs :: mod types > const TRANSACTION_ID_SIZE
//@item! stun_rs :: mod types > struct Cookie
//@item! stun_rs :: mod types > const MAGIC_COOKIE
//@include inc/raw_header.rs

impl<'a> vstd::std_specs::convert::TryFromSpecImpl<&'a [u8; MESSAGE_HEADER_SIZE]> for MessageHeader<'a> {
    open spec fn obeys_try_from_spec() -> bool { false }
    open spec fn try_from_spec(v: &'a [u8; MESSAGE_HEADER_SIZE]) -> Result<Self, StunError> { arbitrary() }
}
impl<'a> TryFrom<&'a [u8; MESSAGE_HEADER_SIZE]> for MessageHeader<'a> {
    type Error = StunError;
//@item stun_rs :: mod raw > impl<'a> TryFrom<&'a [u8; MESSAGE_HEADER_SIZE]> for MessageHeader<'a> > fn try_from
//@sub "Self::Error" => "StunError"
//@spec
    ensures r is Ok <==> header_ok(buff@),
        r is Ok ==> r->Ok_0.msg_length as int == be16(buff@.subrange(2, 4)),
//@end
}

// ---------------------------------------------------------------- stun-agent/src/lib.rs : stream reassembly
//@item! stun_agent :: struct StunPacketInternal
//@item! stun_agent :: struct StunPacket
impl StunPacket {
    pub open spec fn view(&self) -> Seq<u8> { self.0.buffer@.subrange(0, self.0.size as int) }
//@item stun_agent :: impl StunPacket > fn new
//@spec
    requires size <= buffer@.len(),
    ensures r@ == buffer@.subrange(0, size as int), r.0.size <= r.0.buffer@.len(),
//@end
}
//@item! stun_agent :: struct StunPacketDecoder
//@item! stun_agent :: enum StunPacketDecodedValue
//@item! stun_agent :: enum StunPacketErrorType
//@item! stun_agent :: struct StunPacketDecodedError

// ---- abstract reassembler: state = (capacity, bytes accumulated so far); one step = one call of decode
pub enum ROut {
    Need { acc: Seq<u8>, missing: Option<int> },
    Packet { bytes: Seq<u8>, consumed: int },
    Bad { consumed: int },
    Small { consumed: int },
}
pub open spec fn need_of(h: Seq<u8>) -> int { 20 + be16(h.subrange(2, 4)) }
pub open spec fn r_wf(cap: int, acc: Seq<u8>) -> bool {
    cap >= 20 && acc.len() <= cap
    && (acc.len() >= 20 ==> header_ok(acc.subrange(0, 20)) && need_of(acc) <= cap && acc.len() < need_of(acc))
}
// the contract of StunPacketDecoder::decode, transcribed from the property statement
pub open spec fn r_step(cap: int, acc: Seq<u8>, data: Seq<u8>) -> ROut {
    let s = acc + data;
    if s.len() < 20 {
        ROut::Need { acc: s, missing: None }
    } else if acc.len() < 20 && !header_ok(s.subrange(0, 20)) {
        ROut::Bad { consumed: 20 - acc.len() }
    } else if acc.len() < 20 && need_of(s) > cap {
        ROut::Small { consumed: 20 - acc.len() }
    } else if s.len() >= need_of(s) {
        ROut::Packet { bytes: s.subrange(0, need_of(s)), consumed: need_of(s) - acc.len() }
    } else {
        ROut::Need { acc: s, missing: Some(need_of(s) - s.len()) }
    }
}

impl StunPacketDecoder {
    pub open spec fn acc(&self) -> Seq<u8> { self.buffer@.subrange(0, self.current_size as int) }
    pub open spec fn cap(&self) -> int { self.buffer@.len() as int }
    // representation invariant (established by new, preserved by decode)
    pub open spec fn wf(&self) -> bool {
        &&& self.buffer@.len() >= 20
        &&& self.current_size <= self.buffer@.len()
        &&& (self.expected_size is Some <==> self.current_size >= 20)
        &&& (self.expected_size is Some ==> {
            &&& self.expected_size->Some_0 as int == need_of(self.buffer@)
            &&& need_of(self.buffer@) <= self.buffer@.len()
            &&& self.current_size < need_of(self.buffer@)
            &&& header_ok(self.buffer@)
        })
    }
    pub proof fn lemma_wf_abs(&self)
        requires self.wf(),
        ensures r_wf(self.cap(), self.acc()),
    {
        if self.current_size >= 20 {
            assert(self.acc().subrange(2, 4) =~= self.buffer@.subrange(2, 4));
            assert(self.acc().subrange(0, 20) =~= self.buffer@.subrange(0, 20));
        }
    }
//@item stun_agent :: impl StunPacketDecoder > fn new
//@tags C16 C03
//@spec
    ensures r is Ok <==> buffer@.len() >= 20,
        r is Ok ==> r->Ok_0.wf() && r->Ok_0.acc() == Seq::<u8>::empty() && r->Ok_0.cap() == buffer@.len(),
        r is Err ==> r->Err_0.buffer@ == buffer@ && r->Err_0.consumed == 0,
//@end
//@item stun_agent :: impl StunPacketDecoder > fn decode
//@tags C16 C03
//@rules R5
//@prefix
#[verifier::rlimit(40)]
//@after "let mut vx_self = self;"
    proof {
        axiom_slice_len_limit(data);
        axiom_vec_len_limit(&vx_self.buffer);
        vx_self.lemma_wf_abs();
    }
    let ghost acc0 = vx_self.acc();
    let ghost s = acc0 + data@;
//@before "Ok(StunPacketDecodedValue::Decoded((packet" #1
    proof {
        assert(s.subrange(2, 4) =~= self.buffer@.subrange(2, 4));
        assert(packet@ =~= s.subrange(0, size as int));
    }
//@before "Ok(StunPacketDecodedValue::MoreBytesNeeded((vx_self" #1
    proof {
        assert(s.subrange(2, 4) =~= self.buffer@.subrange(2, 4));
        assert(vx_self.buffer@.subrange(2, 4) =~= self.buffer@.subrange(2, 4));
        assert(vx_self.acc() =~= s);
    }
//@before "let slice:"
    proof {
        assert(vx_self.buffer@.subrange(0, 20) =~= s.subrange(0, 20));
    }
    let ghost buf1 = vx_self.buffer@;
//@before "let msg_length ="
    proof {
        assert(slice@.subrange(2, 4) =~= s.subrange(2, 4));
        assert(buf1.subrange(2, 4) =~= s.subrange(2, 4));
    }
//@before "Ok(StunPacketDecodedValue::Decoded((packet" #2
    proof {
        assert(packet@ =~= s.subrange(0, msg_length + 20));
    }
//@before "Ok(StunPacketDecodedValue::MoreBytesNeeded((vx_self" #2
    proof {
        assert(vx_self.buffer@.subrange(2, 4) =~= s.subrange(2, 4));
        assert(vx_self.acc() =~= s);
        assert(header_ok(s.subrange(0, 20)) == header_ok(vx_self.buffer@));
    }
//@before "Ok(StunPacketDecodedValue::MoreBytesNeeded((vx_self" #3
    proof {
        assert(vx_self.acc() =~= s);
    }
//@sub "vx_self.buffer[..MESSAGE_HEADER_SIZE].try_into().unwrap()" => "<&[u8; MESSAGE_HEADER_SIZE]>::try_from(&vx_self.buffer.as_slice()[..MESSAGE_HEADER_SIZE]).unwrap()"
//@sub "vx_self.buffer[" => "vx_self.buffer.as_mut_slice()[" all
//@spec
    requires self.wf(),
    ensures
        match r_step(self.cap(), self.acc(), data@) {
            ROut::Need { acc, missing } => r is Ok && r->Ok_0 is MoreBytesNeeded && {
                let d = r->Ok_0->MoreBytesNeeded_0.0;
                let m = r->Ok_0->MoreBytesNeeded_0.1;
                &&& d.wf() && d.acc() == acc && d.cap() == self.cap()
                &&& (m is Some <==> missing is Some)
                &&& (m is Some ==> m->Some_0 as int == missing->Some_0)
            },
            ROut::Packet { bytes, consumed } => r is Ok && r->Ok_0 is Decoded && {
                &&& r->Ok_0->Decoded_0.0@ == bytes
                &&& r->Ok_0->Decoded_0.1 as int == consumed
            },
            ROut::Bad { consumed } => r is Err && r->Err_0.error_type is InvalidStunPacket
                && r->Err_0.consumed as int == consumed && r->Err_0.buffer@.len() == self.cap(),
            ROut::Small { consumed } => r is Err && r->Err_0.error_type is SmallBuffer
                && r->Err_0.consumed as int == consumed && r->Err_0.buffer@.len() == self.cap(),
        },
//@end
}


// ---------------------------------------------------------------- C16: independence of the chunking
pub open spec fn r_shift(o: ROut, n: int) -> ROut {
    match o {
        ROut::Need { acc, missing } => o,
        ROut::Packet { bytes, consumed } => ROut::Packet { bytes, consumed: consumed + n },
        ROut::Bad { consumed } => ROut::Bad { consumed: consumed + n },
        ROut::Small { consumed } => ROut::Small { consumed: consumed + n },
    }
}
// Two-chunk law. Feeding d1 and then d2 gives what feeding d1 ++ d2 at once gives: the same packet / error,
// reported at the chunk that completes it, with consumed counts that add up; a terminal outcome reached
// inside d1 does not depend on what follows.
// props: C16
pub proof fn lemma_two_chunks(cap: int, acc: Seq<u8>, d1: Seq<u8>, d2: Seq<u8>)
    requires r_wf(cap, acc),
    ensures
        match r_step(cap, acc, d1) {
            ROut::Need { acc: a1, missing } => a1 == acc + d1 && r_wf(cap, a1)
                && r_shift(r_step(cap, a1, d2), d1.len() as int) == r_step(cap, acc, d1 + d2),
            _ => r_step(cap, acc, d1 + d2) == r_step(cap, acc, d1),
        },
{
    let s1 = acc + d1;
    let s = acc + (d1 + d2);
    assert(s =~= s1 + d2);
    if s1.len() >= 20 {
        assert(s.subrange(0, 20) =~= s1.subrange(0, 20));
        assert(s.subrange(2, 4) =~= s1.subrange(2, 4));
        if s1.len() >= need_of(s1) {
            assert(s.subrange(0, need_of(s1)) =~= s1.subrange(0, need_of(s1)));
        }
    }
    if acc.len() >= 20 {
        assert(s1.subrange(0, 20) =~= acc.subrange(0, 20));
        assert(s1.subrange(2, 4) =~= acc.subrange(2, 4));
    }
}
// once the header has been seen the reported number of missing bytes is exact, and consumed never exceeds the chunk
// props: C16
pub proof fn lemma_missing_exact(cap: int, acc: Seq<u8>, d: Seq<u8>)
    requires r_wf(cap, acc),
    ensures
        match r_step(cap, acc, d) {
            ROut::Need { acc: a1, missing } => (missing is Some <==> a1.len() >= 20)
                && (missing is Some ==> a1.len() + missing->Some_0 == need_of(a1) && missing->Some_0 > 0),
            ROut::Packet { bytes, consumed } => 0 <= consumed <= d.len() && bytes.len() == acc.len() + consumed
                && bytes == (acc + d).subrange(0, acc.len() + consumed) && bytes.len() <= cap && header_ok(bytes),
            ROut::Bad { consumed } => 0 < consumed <= d.len() && acc.len() + consumed == 20,
            ROut::Small { consumed } => 0 < consumed <= d.len() && acc.len() + consumed == 20,
        },
{
    let s = acc + d;
    if acc.len() >= 20 {
        assert(s.subrange(0, 20) =~= acc.subrange(0, 20));
        assert(s.subrange(2, 4) =~= acc.subrange(2, 4));
    }
    if s.len() >= 20 && s.len() >= need_of(s) {
        let b = s.subrange(0, need_of(s));
        assert(forall|i: int| 0 <= i < 20 ==> b[i] == s.subrange(0, 20)[i]);
    }
}
pub open spec fn r_concat(chunks: Seq<Seq<u8>>) -> Seq<u8>
    decreases chunks.len(),
{
    if chunks.len() == 0 { Seq::<u8>::empty() } else { chunks[0] + r_concat(chunks.drop_first()) }
}
// feeding a list of chunks in order, each to the decoder returned by the previous call
pub open spec fn r_feed(cap: int, acc: Seq<u8>, chunks: Seq<Seq<u8>>) -> ROut
    decreases chunks.len(),
{
    if chunks.len() == 0 {
        r_step(cap, acc, Seq::<u8>::empty())
    } else {
        match r_step(cap, acc, chunks[0]) {
            ROut::Need { acc: a1, missing } =>
                if chunks.len() == 1 { r_step(cap, acc, chunks[0]) }
                else { r_shift(r_feed(cap, a1, chunks.drop_first()), chunks[0].len() as int) },
            o => o,
        }
    }
}
// C16: for every stream, every cut into chunks (empty and one-byte chunks included) and every decoder state
// reachable from a fresh decoder, feeding the chunks equals feeding their concatenation.
// props: C16
pub proof fn lemma_c16_chunking(cap: int, acc: Seq<u8>, chunks: Seq<Seq<u8>>)
    requires r_wf(cap, acc), chunks.len() >= 1,
    ensures r_feed(cap, acc, chunks) == r_step(cap, acc, r_concat(chunks)),
    decreases chunks.len(),
{
    let c0 = chunks[0];
    let tail = chunks.drop_first();
    if chunks.len() == 1 {
        assert(r_concat(tail) =~= Seq::<u8>::empty());
        assert(r_concat(chunks) =~= c0);
    } else {
        lemma_two_chunks(cap, acc, c0, r_concat(tail));
        match r_step(cap, acc, c0) {
            ROut::Need { acc: a1, missing } => {
                lemma_c16_chunking(cap, a1, tail);
            },
            _ => {},
        }
    }
}
// a fresh decoder (established by StunPacketDecoder::new) is a well-formed start state
// props: C16
pub proof fn lemma_fresh_wf(cap: int)
    requires cap >= 20,
    ensures r_wf(cap, Seq::<u8>::empty()),
{
}
proof fn vx_sentinel() ensures false {}
} // verus!
fn main() {}
