#![feature(allocator_api, sized_hierarchy)]
#![allow(unused, non_snake_case, non_camel_case_types, dead_code)]
use vstd::prelude::*;
use vstd::string::*;
use std::sync::Arc;
use vstd::std_specs::cmp::PartialEqSpec;
verus! {
//@include prelude/core.rs
//@include prelude/std_misc.rs
//@include prelude/strings.rs
//@include prelude/arc.rs
//@include inc/codec_common.rs
//@include inc/raw_header.rs
//@item! stun_rs :: mod attributes > struct AttributeType
impl Clone for AttributeType { fn clone(&self) -> (r: Self) ensures r == *self { *self } }
impl Copy for AttributeType {}
impl vstd::std_specs::convert::FromSpecImpl<u16> for AttributeType {
    open spec fn obeys_from_spec() -> bool { true }
    open spec fn from_spec(v: u16) -> Self { AttributeType(v) }
}
impl From<u16> for AttributeType {
//@item stun_rs :: mod attributes > impl From<u16> for AttributeType > fn from
//@spec
    ensures r.0 == val,
//@end
}
impl AttributeType {
//@item stun_rs :: mod attributes > impl AttributeType > fn new
//@spec
    ensures r.0 == attr_type,
//@end
}
//@item! stun_rs :: mod context > struct EncoderContext
impl Clone for EncoderContext {
//@item! stun_rs :: mod context > impl ::core::clone::Clone for EncoderContext > fn clone
}
impl Default for EncoderContext {
//@item! stun_rs :: mod context > impl ::core::default::Default for EncoderContext > fn default
}
impl EncoderContext {
//@item stun_rs :: mod context > impl EncoderContext > fn padding
//@spec
    ensures r == DEFAULT_PADDING_VALUE,
//@end
}
//@item! stun_rs :: mod context > struct AttributeEncoderContext
impl<'a> AttributeEncoderContext<'a> {
//@item stun_rs :: mod context > impl<'a> AttributeEncoderContext<'a> > fn new
//@spec
    ensures r.ctx == ctx, r.encoded_msg == encoded_msg, r.raw_value@ == old(raw_value)@, final(r.raw_value)@ == final(raw_value)@,
//@end
//@item stun_rs :: mod context > impl<'a> AttributeEncoderContext<'a> > fn context
//@spec
    ensures r == self.ctx,
//@end
//@item stun_rs :: mod context > impl<'a> AttributeEncoderContext<'a> > fn encoded_message
//@spec
    ensures r == self.encoded_msg,
//@end
//@item stun_rs :: mod context > impl<'a> AttributeEncoderContext<'a> > fn raw_value
//@spec
    ensures r@ == old(self.raw_value)@,
//@end
//@item stun_rs :: mod context > impl<'a> AttributeEncoderContext<'a> > fn raw_value_mut
//@spec
    ensures r@ == old(self).raw_value@, final(self).raw_value@ == final(r)@,
        final(final(self).raw_value)@ == final(old(self).raw_value)@,
        final(self).encoded_msg == old(self).encoded_msg, final(self).ctx == old(self).ctx,
//@end
}
//@item! stun_rs :: mod context > struct DecoderContext
//@item! stun_rs :: mod context > struct AttributeDecoderContext
impl Clone for DecoderContext {
//@item stun_rs :: mod context > impl ::core::clone::Clone for DecoderContext > fn clone
//@spec
    ensures r.validation == self.validation, r.unknown_data == self.unknown_data, r.not_ignore == self.not_ignore, r.key is Some <==> self.key is Some,
//@end
}
impl Clone for HMACKey { #[verifier::external_body] fn clone(&self) -> (r: Self) ensures r == *self { unimplemented!() } }
impl<'a> AttributeDecoderContext<'a> {
//@item stun_rs :: mod context > impl<'a> AttributeDecoderContext<'a> > fn new
//@spec
    ensures r.ctx == ctx, r.decoded_msg == decoded_msg, r.raw_value == raw_value,
//@end
//@item stun_rs :: mod context > impl<'a> AttributeDecoderContext<'a> > fn context
//@end
//@item stun_rs :: mod context > impl<'a> AttributeDecoderContext<'a> > fn raw_value
//@spec
    ensures r == self.raw_value,
//@end
//@item stun_rs :: mod context > impl<'a> AttributeDecoderContext<'a> > fn decoded_message
//@spec
    ensures r == self.decoded_msg,
//@end
}

// ---- the attribute contract (DESIGN.md section 6), as the trait the 38 kinds implement.
// `wire` is what the RFC section of the kind says the value bytes are; `encodable` = value within the kind's limits.
pub trait EncodeAttributeValue {
    spec fn wire(&self, enc: Seq<u8>) -> Seq<u8>;
    spec fn encodable(&self, enc: Seq<u8>) -> bool;
    // value bytes after `post_encode` (the value unchanged for everything but integrity / fingerprint attributes)
    spec fn post_wire(&self, enc: Seq<u8>, val: Seq<u8>) -> Seq<u8>;
    spec fn post_ok(&self, enc: Seq<u8>, val: Seq<u8>) -> bool;
    fn post_encode(&self, ctx: AttributeEncoderContext) -> (r: Result<(), StunError>)
        ensures
            self.post_wire(ctx.encoded_msg@, old(ctx.raw_value)@).len() == old(ctx.raw_value)@.len(),
            r is Ok <==> self.post_ok(ctx.encoded_msg@, old(ctx.raw_value)@),
            r is Ok ==> final(ctx.raw_value)@ == self.post_wire(ctx.encoded_msg@, old(ctx.raw_value)@);
    fn encode(&self, ctx: AttributeEncoderContext) -> (r: Result<usize, StunError>)
        // (that the value buffer keeps its length is a fact of Rust's `&mut [u8]`, not a property an implementation can
        // break; the caller - unit codec - takes it from the type, it is not restated here)
        ensures
            r is Ok <==> self.encodable(ctx.encoded_msg@) && old(ctx.raw_value)@.len() >= self.wire(ctx.encoded_msg@).len(),
            r is Ok ==> r->Ok_0 == self.wire(ctx.encoded_msg@).len()
                && final(ctx.raw_value)@.subrange(0, r->Ok_0 as int) == self.wire(ctx.encoded_msg@)
                && (forall|i: int| r->Ok_0 <= i < old(ctx.raw_value)@.len() ==> final(ctx.raw_value)@[i] == old(ctx.raw_value)@[i]);
}

// post_encode is a provided method of the real trait (default: nothing to do); kinds that override it are
// verified individually (Fingerprint, MessageIntegrity, MessageIntegritySha256)
pub trait DecodeAttributeValue: Sized {
    // what the kind's RFC section says a value means; None = malformed
    spec fn unwire(raw: Seq<u8>, prefix: Seq<u8>) -> Option<Self>;
    fn decode(ctx: AttributeDecoderContext) -> (r: Result<(Self, usize), StunError>)
        // contexts are only built inside the crate (AttributeDecoderContext::new is pub(crate)): by MessageDecoder::decode from a
        // raw attribute whose length field is 16 bits (proved at that call, unit `dec`), and by PasswordAlgorithms::decode from sub-slices
        requires ctx.raw_value@.len() <= 0xFFFF,
        ensures r is Ok <==> Self::unwire(ctx.raw_value@, ctx.decoded_msg@) is Some,
            r is Ok ==> r->Ok_0.0 == Self::unwire(ctx.raw_value@, ctx.decoded_msg@)->Some_0 && r->Ok_0.1 <= ctx.raw_value@.len();
}
pub trait StunAttributeType {
    spec fn spec_type() -> u16;
    fn get_type() -> (r: AttributeType) where Self: Sized
        ensures r.0 == Self::spec_type();
    fn attribute_type(&self) -> (r: AttributeType)
        ensures r.0 == Self::spec_type();
}
proof fn lemma_be16_roundtrip(v: int)
    requires 0 <= v < 65536,
    ensures be16(be16_seq(v)) == v,
{
}
proof fn lemma_be32_roundtrip(v: int)
    requires 0 <= v < 4294967296,
    ensures be32(be32_seq(v)) == v,
{
    let x = v as u32;
    assert((x / 16777216u32) * 16777216u32 + ((x / 65536u32) % 256u32) * 65536u32 + ((x / 256u32) % 256u32) * 256u32 + x % 256u32 == x) by (bit_vector);
    assert(x / 16777216u32 < 256u32) by (bit_vector);
    assert(((x / 16777216u32) * 16777216u32) as int == (v / 16777216) * 16777216);
}
proof fn lemma_be64_roundtrip(v: int)
    requires 0 <= v < 18446744073709551616,
    ensures be64(be64_seq(v)) == v,
{
    let s = be64_seq(v);
    lemma_be32_roundtrip(v / 4294967296);
    lemma_be32_roundtrip(v % 4294967296);
    assert(s.subrange(0, 4) =~= be32_seq(v / 4294967296));
    assert(s.subrange(4, 8) =~= be32_seq(v % 4294967296));
}
pub open spec fn zeros(n: int) -> Seq<u8> { Seq::new(n as nat, |i: int| 0u8) }
//@include inc/attrs_types.rs
//@include inc/attrs_addr.rs
//@include inc/attrs_gen.rs
//@include inc/attrs_turn.rs
//@include inc/attrs_stun.rs


// ---------------------------------------------------------------- FINGERPRINT (RFC 8489 14.7)
pub uninterp spec fn crc32_iso_hdlc(data: Seq<u8>) -> u32;
// crc::Crc::<u32>::new(&crc::CRC_32_ISO_HDLC).checksum(data)  (third-party crate `crc`)
#[verifier::external_body]
pub fn vx_crc32(data: &[u8]) -> (r: u32) ensures r == crc32_iso_hdlc(data@) { unimplemented!() }
//@consts stun_rs :: mod attributes > mod stun > mod fingerprint
//@item! stun_rs :: mod attributes > mod stun > mod fingerprint > struct EncodableFingerprint
//@item! stun_rs :: mod attributes > mod stun > mod fingerprint > struct DecodableFingerprint
//@item! stun_rs :: mod attributes > mod stun > mod fingerprint > enum Fingerprint
impl StunAttributeType for Fingerprint {
    open spec fn spec_type() -> u16 { 0x8028 }
//@item stun_rs :: mod attributes > mod stun > mod fingerprint > impl crate::attributes::StunAttributeType for Fingerprint > fn get_type
//@tags C02 C10
//@end
//@item stun_rs :: mod attributes > mod stun > mod fingerprint > impl crate::attributes::StunAttributeType for Fingerprint > fn attribute_type
//@tags C02 C10
//@end
}
impl DecodableFingerprint {
//@item stun_rs :: mod attributes > mod stun > mod fingerprint > impl DecodableFingerprint > fn validate
//@tags C10
//@sub "crc::Crc::<u32>::new(&crc::CRC_32_ISO_HDLC).checksum(input)" => "vx_crc32(input)"
//@spec
    ensures r == (self.0 == crc32_iso_hdlc(input@)),
//@end
}
impl Decode<'_> for DecodableFingerprint {
//@item stun_rs :: mod attributes > mod stun > mod fingerprint > impl crate::Decode<'_> for DecodableFingerprint > fn decode
//@tags C10 C02
//@spec
    ensures r is Ok <==> buffer@.len() >= 4,
        // the stored value is the wire value XOR 0x5354554e ("STUN")
        r is Ok ==> r->Ok_0.1 == 4 && r->Ok_0.0.0 == (be32(buffer@.subrange(0, 4)) as u32) ^ 0x5354_554eu32,
//@end
}
impl Fingerprint {
//@item stun_rs :: mod attributes > mod stun > mod fingerprint > impl Fingerprint > fn validate
//@tags C10
//@spec
    ensures r == (self is Decodable && self->Decodable_0.0 == crc32_iso_hdlc(input@)),
//@end
}
impl Fingerprint {
    // `impl Verifiable for Fingerprint` (what validate_attribute calls through the trait object): no key involved
//@item stun_rs :: mod attributes > mod stun > mod fingerprint > impl crate::attributes::Verifiable for Fingerprint > fn verify
//@tags C10 C09
//@spec
    ensures r == (self is Decodable && self->Decodable_0.0 == crc32_iso_hdlc(input@)),
//@end
}
impl EncodeAttributeValue for Fingerprint {
    open spec fn wire(&self, enc: Seq<u8>) -> Seq<u8> { seq![0u8, 0u8, 0u8, 0u8] }   // placeholder until post_encode
    open spec fn encodable(&self, enc: Seq<u8>) -> bool { self is Encodable }
    open spec fn post_wire(&self, enc: Seq<u8>, val: Seq<u8>) -> Seq<u8> {
        if self is Encodable && val.len() >= 4 { be32_seq((crc32_iso_hdlc(enc) ^ 0x5354_554eu32) as int) + val.subrange(4, val.len() as int) } else { val }
    }
    open spec fn post_ok(&self, enc: Seq<u8>, val: Seq<u8>) -> bool { self is Encodable && val.len() >= 4 }
    // EncodeAttributeValue::post_encode (overrides the default): the CRC of everything before the attribute, with the
    // header length already covering it (MessageEncoder::encode writes the length first), XOR 0x5354554e, big-endian
//@item stun_rs :: mod attributes > mod stun > mod fingerprint > impl EncodeAttributeValue for Fingerprint > fn post_encode
//@tags C10 C02
//@rules R5P
//@sub "crc::Crc::<u32>::new(&crc::CRC_32_ISO_HDLC).checksum(ctx.encoded_message())" => "vx_crc32(ctx.encoded_message())"
//@spec
    ensures final(ctx.raw_value)@.len() == old(ctx.raw_value)@.len(),
        r is Ok <==> self is Encodable && old(ctx.raw_value)@.len() >= 4,
        r is Ok ==> final(ctx.raw_value)@.subrange(0, 4) == be32_seq((crc32_iso_hdlc(ctx.encoded_msg@) ^ 0x5354_554eu32) as int)
            && (forall|i: int| 4 <= i < old(ctx.raw_value)@.len() ==> final(ctx.raw_value)@[i] == old(ctx.raw_value)@[i]),
//@end
//@item stun_rs :: mod attributes > mod stun > mod fingerprint > impl EncodeAttributeValue for Fingerprint > fn encode
//@tags C10 C01 C14
//@rules R5P R16?
//@stmt "Ok(FINGERPRINT_SIZE)"
//@?raw_value     proof { assert(raw_value@.subrange(0, 4) =~= seq![0u8, 0u8, 0u8, 0u8]); }
//@end
}
impl DecodeAttributeValue for Fingerprint {
    open spec fn unwire(raw: Seq<u8>, prefix: Seq<u8>) -> Option<Self> {
        if raw.len() >= 4 { Some(Fingerprint::Decodable(DecodableFingerprint((be32(raw.subrange(0, 4)) as u32) ^ 0x5354_554eu32))) } else { None }
    }
//@item stun_rs :: mod attributes > mod stun > mod fingerprint > impl DecodeAttributeValue for Fingerprint > fn decode
//@tags C10 C01 C03
//@end
}
// C10: the encoder's own output validates: decoding what post_encode wrote and validating against the same text
// props: C10
proof fn lemma_c10_own_valid(enc: Seq<u8>)
    ensures ({
        let written = be32_seq((crc32_iso_hdlc(enc) ^ 0x5354_554eu32) as int);
        let d = Fingerprint::unwire(written, enc)->Some_0;
        d is Decodable && d->Decodable_0.0 == crc32_iso_hdlc(enc)
    }),
{
    let c = crc32_iso_hdlc(enc);
    let x = c ^ 0x5354_554eu32;
    lemma_be32_roundtrip(x as int);
    assert(be32_seq(x as int).subrange(0, 4) =~= be32_seq(x as int));
    assert((c ^ 0x5354_554eu32) ^ 0x5354_554eu32 == c) by (bit_vector);
}
//@include inc/attrs_sum.rs
//@include inc/post_n.rs
//@include inc/attrs_registry.rs
proof fn vx_sentinel() ensures false {}
} // verus!
fn main() {}
