// ===== prelude/agent.rs : the stun-rs API as seen by stun-agent's client (abstract; contracts proved in unit codec)
#[verifier::external_body]
pub fn vx_fmt() -> String { unimplemented!() }

//@include inc/txid.rs
//@item! stun_rs :: mod message > struct MessageMethod
//@item! stun_rs :: mod message > enum MessageClass
impl Clone for MessageMethod { fn clone(&self) -> (r: Self) ensures r == *self { *self } }
impl Copy for MessageMethod {}
impl Clone for MessageClass { fn clone(&self) -> (r: Self) ensures r == *self { *self } }
impl Copy for MessageClass {}
impl vstd::std_specs::cmp::PartialEqSpecImpl for MessageClass {
    open spec fn obeys_eq_spec() -> bool { true }
    open spec fn eq_spec(&self, other: &MessageClass) -> bool { *self == *other }
}
impl PartialEq for MessageClass {
    #[verifier::external_body]
    fn eq(&self, other: &MessageClass) -> (r: bool) { unimplemented!() }
}

// a decoded / built STUN message: only what the client logic looks at
#[verifier::external_body]
pub struct StunMessage { _p: () }
impl StunMessage {
    pub uninterp spec fn sid(&self) -> TransactionId;
    pub uninterp spec fn sclass(&self) -> MessageClass;
    pub uninterp spec fn smethod(&self) -> MessageMethod;
    #[verifier::external_body]
    pub fn transaction_id(&self) -> (r: &TransactionId) ensures *r == self.sid() { unimplemented!() }
    #[verifier::external_body]
    pub fn class(&self) -> (r: MessageClass) ensures r == self.sclass() { unimplemented!() }
    #[verifier::external_body]
    pub fn method(&self) -> (r: MessageMethod) ensures r == self.smethod() { unimplemented!() }
}
#[verifier::external_body]
pub struct StunEncodeError { _p: () }
#[verifier::external_body]
pub struct StunDecodeError { _p: () }

//@item! stun_agent :: struct StunPacketInternal
//@item! stun_agent :: struct StunPacket
impl StunPacket {
    pub open spec fn view(&self) -> Seq<u8> { self.0.buffer@.subrange(0, self.0.size as int) }
//@import reasm :: stun_agent :: impl StunPacket > fn new
}
impl Clone for StunPacket {
    // derived Clone = Arc::clone: the same shared, immutable packet
    #[verifier::external_body]
    fn clone(&self) -> (r: Self) ensures r == *self { unimplemented!() }
}
