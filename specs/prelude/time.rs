// ===== prelude/time.rs : std::time::{Instant, Duration} as mathematical nanosecond counts.
// Machine arithmetic treated as mathematical here (listed in every evidence file): std's Instant/Duration
// panic on overflow of a 2^64-second range; that range is not modelled. Durations are non-negative by
// construction (the nanosecond count is a natural number);
// `Instant - Instant` saturates at zero as in std (since Rust 1.60).
#[derive(Clone, Copy)]
pub struct Duration { pub ns: Ghost<nat> }
#[derive(Clone, Copy)]
pub struct Instant { pub ns: Ghost<int> }

pub open spec fn dur(n: int) -> Duration { Duration { ns: Ghost(if n >= 0 { n as nat } else { 0nat }) } }
pub open spec fn inst(n: int) -> Instant { Instant { ns: Ghost(n) } }

impl Duration {
    #[verifier::external_body]
    pub const fn from_secs(s: u64) -> (r: Duration) ensures r.ns@ == s as int * 1_000_000_000 { Duration { ns: Ghost::assume_new() } }
    #[verifier::external_body]
    pub const fn from_millis(s: u64) -> (r: Duration) ensures r.ns@ == s as int * 1_000_000 { Duration { ns: Ghost::assume_new() } }
    #[verifier::external_body]
    pub fn mul_f32(self, f: f32) -> (r: Duration) ensures r == dur_mul_f32(self, f) { unimplemented!() }
    #[verifier::external_body]
    pub fn is_zero(&self) -> (r: bool) ensures r == (self.ns@ == 0) { unimplemented!() }
    // Ord::min / Ord::max on durations
    #[verifier::external_body]
    pub fn min(self, o: Duration) -> (r: Duration) ensures r.ns@ == (if self.ns@ <= o.ns@ { self.ns@ } else { o.ns@ }) { unimplemented!() }
    #[verifier::external_body]
    pub fn max(self, o: Duration) -> (r: Duration) ensures r.ns@ == (if self.ns@ >= o.ns@ { self.ns@ } else { o.ns@ }) { unimplemented!() }
}
// single-precision scaling has no theory in the installed Verus/Z3: uninterpreted (C15 residual)
pub uninterp spec fn dur_mul_f32(d: Duration, f: f32) -> Duration;

impl Default for Duration {
    #[verifier::external_body]
    fn default() -> (r: Duration) ensures r.ns@ == 0 { unimplemented!() }
}
impl vstd::std_specs::ops::AddSpecImpl<Duration> for Instant {
    open spec fn obeys_add_spec() -> bool { true }
    open spec fn add_req(self, rhs: Duration) -> bool { true }
    open spec fn add_spec(self, rhs: Duration) -> Instant { inst(self.ns@ + rhs.ns@) }
}
impl core::ops::Add<Duration> for Instant {
    type Output = Instant;
    #[verifier::external_body]
    fn add(self, rhs: Duration) -> Instant { unimplemented!() }
}
impl vstd::std_specs::ops::AddAssignSpecImpl<Duration> for Instant {
    open spec fn obeys_add_assign_spec() -> bool { true }
    open spec fn add_assign_req(self, rhs: Duration) -> bool { true }
    open spec fn add_assign_spec(self, rhs: Duration) -> Instant { inst(self.ns@ + rhs.ns@) }
}
impl core::ops::AddAssign<Duration> for Instant {
    #[verifier::external_body]
    fn add_assign(&mut self, rhs: Duration) { unimplemented!() }
}
impl vstd::std_specs::ops::SubSpecImpl<Instant> for Instant {
    open spec fn obeys_sub_spec() -> bool { true }
    open spec fn sub_req(self, rhs: Instant) -> bool { true }
    open spec fn sub_spec(self, rhs: Instant) -> Duration {
        dur(if self.ns@ >= rhs.ns@ { self.ns@ - rhs.ns@ } else { 0 })
    }
}
impl Instant {
    // std: "Returns the amount of time elapsed from another instant to this one, or None if that instant is later than this one"
    #[verifier::external_body]
    pub fn checked_duration_since(&self, earlier: Instant) -> (r: Option<Duration>)
        ensures r == (if self.ns@ >= earlier.ns@ { Some(dur(self.ns@ - earlier.ns@)) } else { None::<Duration> }),
    { unimplemented!() }
    // std: "... or zero duration if that instant is later than this one"
    #[verifier::external_body]
    pub fn saturating_duration_since(&self, earlier: Instant) -> (r: Duration)
        ensures r == dur(if self.ns@ >= earlier.ns@ { self.ns@ - earlier.ns@ } else { 0 }),
    { unimplemented!() }
}
impl core::ops::Sub<Instant> for Instant {
    type Output = Duration;
    #[verifier::external_body]
    fn sub(self, rhs: Instant) -> Duration { unimplemented!() }
}
impl vstd::std_specs::ops::AddSpecImpl<Duration> for Duration {
    open spec fn obeys_add_spec() -> bool { true }
    open spec fn add_req(self, rhs: Duration) -> bool { true }
    open spec fn add_spec(self, rhs: Duration) -> Duration { dur(self.ns@ as int + rhs.ns@ as int) }
}
impl core::ops::Add<Duration> for Duration {
    type Output = Duration;
    #[verifier::external_body]
    fn add(self, rhs: Duration) -> Duration { unimplemented!() }
}
// `Duration - Duration` panics when the result would be negative (std): a precondition
impl vstd::std_specs::ops::SubSpecImpl<Duration> for Duration {
    open spec fn obeys_sub_spec() -> bool { true }
    open spec fn sub_req(self, rhs: Duration) -> bool { self.ns@ >= rhs.ns@ }
    open spec fn sub_spec(self, rhs: Duration) -> Duration { dur(self.ns@ as int - rhs.ns@ as int) }
}
impl core::ops::Sub<Duration> for Duration {
    type Output = Duration;
    #[verifier::external_body]
    fn sub(self, rhs: Duration) -> Duration { unimplemented!() }
}
impl vstd::std_specs::ops::MulSpecImpl<u32> for Duration {
    open spec fn obeys_mul_spec() -> bool { true }
    open spec fn mul_req(self, rhs: u32) -> bool { true }
    open spec fn mul_spec(self, rhs: u32) -> Duration { dur(self.ns@ as int * rhs as int) }
}
impl core::ops::Mul<u32> for Duration {
    type Output = Duration;
    #[verifier::external_body]
    fn mul(self, rhs: u32) -> Duration { unimplemented!() }
}
impl vstd::std_specs::ops::DivSpecImpl<u32> for Duration {
    open spec fn obeys_div_spec() -> bool { true }
    open spec fn div_req(self, rhs: u32) -> bool { rhs != 0 }
    open spec fn div_spec(self, rhs: u32) -> Duration { dur(self.ns@ as int / rhs as int) }
}
impl core::ops::Div<u32> for Duration {
    type Output = Duration;
    #[verifier::external_body]
    fn div(self, rhs: u32) -> Duration { unimplemented!() }
}

pub open spec fn spec_ord(a: int, b: int) -> core::cmp::Ordering {
    if a < b { core::cmp::Ordering::Less } else if a == b { core::cmp::Ordering::Equal } else { core::cmp::Ordering::Greater }
}
impl vstd::std_specs::cmp::PartialEqSpecImpl for Instant {
    open spec fn obeys_eq_spec() -> bool { true }
    open spec fn eq_spec(&self, other: &Instant) -> bool { self.ns@ == other.ns@ }
}
impl PartialEq for Instant {
    #[verifier::external_body]
    fn eq(&self, other: &Instant) -> bool { unimplemented!() }
}
impl Eq for Instant {}
impl vstd::std_specs::cmp::PartialOrdSpecImpl for Instant {
    open spec fn obeys_partial_cmp_spec() -> bool { true }
    open spec fn partial_cmp_spec(&self, other: &Instant) -> Option<core::cmp::Ordering> { Some(spec_ord(self.ns@, other.ns@)) }
}
impl PartialOrd for Instant {
    #[verifier::external_body]
    fn partial_cmp(&self, other: &Instant) -> Option<core::cmp::Ordering> { unimplemented!() }
}
impl vstd::std_specs::cmp::OrdSpecImpl for Instant {
    open spec fn obeys_cmp_spec() -> bool { true }
    open spec fn cmp_spec(&self, other: &Instant) -> core::cmp::Ordering { spec_ord(self.ns@, other.ns@) }
}
impl Ord for Instant {
    #[verifier::external_body]
    fn cmp(&self, other: &Instant) -> core::cmp::Ordering { unimplemented!() }
}
impl vstd::std_specs::cmp::PartialEqSpecImpl for Duration {
    open spec fn obeys_eq_spec() -> bool { true }
    open spec fn eq_spec(&self, other: &Duration) -> bool { self.ns@ == other.ns@ }
}
impl PartialEq for Duration {
    #[verifier::external_body]
    fn eq(&self, other: &Duration) -> bool { unimplemented!() }
}
impl Eq for Duration {}
impl vstd::std_specs::cmp::PartialOrdSpecImpl for Duration {
    open spec fn obeys_partial_cmp_spec() -> bool { true }
    open spec fn partial_cmp_spec(&self, other: &Duration) -> Option<core::cmp::Ordering> { Some(spec_ord(self.ns@ as int, other.ns@ as int)) }
}
impl PartialOrd for Duration {
    #[verifier::external_body]
    fn partial_cmp(&self, other: &Duration) -> Option<core::cmp::Ordering> { unimplemented!() }
}
