// ===== prelude/err_levels.rs : error wrappers of stun-rs/src/error.rs (verbatim)
//@item! stun_rs :: mod error > struct StunAttributeError
//@item! stun_rs :: mod error > struct StunMessageError
//@item! stun_rs :: mod error > enum StunErrorLevel
//@item! stun_rs :: mod error > struct StunDecodeError
//@item! stun_rs :: mod error > struct StunEncodeError
