// ===== prelude/arc.rs
// Arc::make_mut ("clone-on-write": "If there are other Arc pointers to the same allocation, then make_mut will clone the
// inner value to a new allocation to ensure unique ownership") is called through this wrapper (logged //@sub): its
// generic signature (`T: ?Sized + CloneToUninit`) cannot carry a value-level specification
#[verifier::external_body]
pub fn vx_arc_make_mut<T: Clone>(this: &mut std::sync::Arc<T>) -> (r: &mut T)
    ensures *r == **old(this), **final(this) == *final(r),
    no_unwind      // (cloning the element types used here, Vec<u16> / Vec<PasswordAlgorithm>, does not unwind)
{ std::sync::Arc::make_mut(this) }
// <[T]>::contains: "Returns true if the slice contains an element with the given value"
pub assume_specification<T: PartialEq> [<[T]>::contains] (s: &[T], x: &T) -> (r: bool)
    ensures T::obeys_eq_spec() ==> r == exists|i: int| 0 <= i < s@.len() && s@[i].eq_spec(x);
#[verifier::external_body]
pub proof fn axiom_arc_vec16_ext(a: std::sync::Arc<Vec<u16>>, b: std::sync::Arc<Vec<u16>>)
    ensures a@ == b@ ==> a == b,
{}
pub proof fn axiom_vec16_len_limit(v: &Vec<u16>)
    ensures 2 * v@.len() <= isize::MAX,
{ admit(); }
// <Arc<T> as AsRef<T>>::as_ref: a reference to the shared value
pub assume_specification<T: std::marker::MetaSized + ?Sized, A: std::alloc::Allocator> [<std::sync::Arc<T, A> as AsRef<T>>::as_ref] (a: &std::sync::Arc<T, A>) -> (r: &T)
    ensures r == &**a;
// Arc::get_mut ("Returns a mutable reference into the given Arc, if there are no other Arc or Weak pointers to the same
// allocation. Returns None otherwise"): whether other pointers exist is not visible in a value's contents, so the result may
// always be None (logged //@subopt wrapper, used only if the code calls it)
#[verifier::external_body]
pub fn vx_arc_get_mut<T>(this: &mut std::sync::Arc<T>) -> (r: Option<&mut T>)
    ensures r is Some ==> *r->Some_0 == **old(this) && **final(this) == *final(r->Some_0),
        r is None ==> **final(this) == **old(this),
    no_unwind
{ std::sync::Arc::get_mut(this) }
// Arc::try_unwrap ("Returns the inner value, if the Arc has exactly one strong reference. Otherwise, an Err is returned with the
// same Arc"): like get_mut, whether other references exist is not visible in the value, so the result may always be Err
#[verifier::external_body]
pub fn vx_arc_try_unwrap<T>(this: std::sync::Arc<T>) -> (r: Result<T, std::sync::Arc<T>>)
    ensures r is Ok ==> r->Ok_0 == *this, r is Err ==> r->Err_0 == this,
{ std::sync::Arc::try_unwrap(this) }
