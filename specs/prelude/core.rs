// ===== prelude/core.rs : environment shared by all stun-rs units (trusted base, see DESIGN.md section 5)

// ---- byte-order spec vocabulary
pub open spec fn be16(s: Seq<u8>) -> int { s[0] as int * 256 + s[1] as int }
pub open spec fn be32(s: Seq<u8>) -> int {
    s[0] as int * 16777216 + s[1] as int * 65536 + s[2] as int * 256 + s[3] as int
}
pub open spec fn be64(s: Seq<u8>) -> int {
    be32(s.subrange(0, 4)) * 4294967296 + be32(s.subrange(4, 8))
}
pub open spec fn be16_seq(v: int) -> Seq<u8> { seq![(v / 256) as u8, (v % 256) as u8] }
pub open spec fn be32_seq(v: int) -> Seq<u8> {
    seq![(v / 16777216) as u8, ((v / 65536) % 256) as u8, ((v / 256) % 256) as u8, (v % 256) as u8]
}

pub open spec fn be64_seq(v: int) -> Seq<u8> { be32_seq(v / 4294967296) + be32_seq(v % 4294967296) }

// ---- byteorder::BigEndian (third-party; specified: big-endian, panics iff the slice is short)
pub struct BigEndian;
impl BigEndian {
    #[verifier::external_body]
    pub fn read_u16(buf: &[u8]) -> (r: u16)
        requires buf@.len() >= 2,
        ensures r as int == be16(buf@),
    { unimplemented!() }
    #[verifier::external_body]
    pub fn read_u32(buf: &[u8]) -> (r: u32)
        requires buf@.len() >= 4,
        ensures r as int == be32(buf@),
    { unimplemented!() }
    #[verifier::external_body]
    pub fn read_u64(buf: &[u8]) -> (r: u64)
        requires buf@.len() >= 8,
        ensures r as int == be64(buf@),
    { unimplemented!() }
    #[verifier::external_body]
    pub fn write_u16(buf: &mut [u8], v: u16)
        requires old(buf)@.len() >= 2,
        ensures final(buf)@.len() == old(buf)@.len(),
            be16(final(buf)@) == v as int,
            final(buf)@[0] == (v / 256) as u8, final(buf)@[1] == (v % 256) as u8,
            final(buf)@.subrange(0, 2) == be16_seq(v as int),
            forall|i: int| 2 <= i < old(buf)@.len() ==> final(buf)@[i] == old(buf)@[i],
    { unimplemented!() }
    #[verifier::external_body]
    pub fn write_u32(buf: &mut [u8], v: u32)
        requires old(buf)@.len() >= 4,
        ensures final(buf)@.len() == old(buf)@.len(),
            be32(final(buf)@) == v as int,
            final(buf)@.subrange(0, 4) == be32_seq(v as int),
            forall|i: int| 4 <= i < old(buf)@.len() ==> final(buf)@[i] == old(buf)@[i],
    { unimplemented!() }
    #[verifier::external_body]
    pub fn write_u64(buf: &mut [u8], v: u64)
        requires old(buf)@.len() >= 8,
        ensures final(buf)@.len() == old(buf)@.len(),
            be64(final(buf)@) == v as int,
            final(buf)@.subrange(0, 8) == be64_seq(v as int),
            forall|i: int| 8 <= i < old(buf)@.len() ==> final(buf)@[i] == old(buf)@[i],
    { unimplemented!() }
}

// ---- Rust allocation limit: no slice or Vec is longer than isize::MAX bytes (std documentation of
//      slice::from_raw_parts / Vec::with_capacity); trusted, used where two lengths are added
pub proof fn axiom_slice_len_limit(s: &[u8])
    ensures s@.len() <= isize::MAX,
{ admit(); }
pub proof fn axiom_vec_len_limit(v: &Vec<u8>)
    ensures v@.len() <= isize::MAX,
{ admit(); }

// ---- std functions without a vstd specification
pub assume_specification<T> [bool::then_some] (b: bool, t: T) -> (r: Option<T>)
    ensures r == (if b { Some(t) } else { None::<T> });
pub assume_specification<T> [<[T]>::to_vec] (s: &[T]) -> (r: Vec<T>) where T: core::clone::Clone
    ensures r@ == s@;
pub assume_specification<T> [<[T]>::fill] (s: &mut [T], v: T) where T: core::clone::Clone
    ensures final(s)@.len() == old(s)@.len(),
        forall|i: int| 0 <= i < old(s)@.len() ==> final(s)@[i] == v;
// std: "Copies the elements from src into self. The length of src must be the same as self. Panics if the two slices have different lengths."
pub assume_specification<T> [<[T]>::clone_from_slice] (dst: &mut [T], src: &[T]) where T: core::clone::Clone
    requires old(dst)@.len() == src@.len(),
    ensures final(dst)@.len() == old(dst)@.len(),
        forall|i: int| 0 <= i < src@.len() ==> cloned::<T>(src@[i], #[trigger] final(dst)@[i]);
// Option::filter: "Returns None if the option is None, otherwise calls predicate with the wrapped value and returns Some(t) if
// predicate returns true, None if it returns false"
pub assume_specification<T, P: FnOnce(&T) -> bool> [Option::<T>::filter] (o: Option<T>, p: P) -> (r: Option<T>)
    requires o is Some ==> call_requires(p, (&o->Some_0,)),
    ensures match o {
        None => r is None,
        Some(v) => (r == Some(v) && call_ensures(p, (&v,), true)) || (r is None && call_ensures(p, (&v,), false)),
    };
// ---- stun-rs/src/error.rs : diagnostics text and boxed causes are opaque; the error *type* is kept
pub struct FmtString;
#[verifier::external_body]
pub fn vx_fmt() -> FmtString { unimplemented!() }
// R8: every explicit panic of the real code (assert!, debug_assert!, unreachable!, panic!, expect-style) becomes a call
// to this function: it can never be called, so a reachable panic is a failed precondition
#[verifier::external_body]
pub fn vx_panic() -> ! requires false { unimplemented!() }

//@item! stun_rs :: mod error > enum StunErrorType
pub struct StunError { pub error_type: StunErrorType, pub info: StunErrorInfo }
#[verifier::external_body]
pub struct StunErrorInfo { _p: () }
impl StunError {
    #[verifier::external_body]
    pub fn new<S>(error_type: StunErrorType, msg: S) -> (r: StunError)
        ensures r.error_type == error_type,
    { unimplemented!() }
    #[verifier::external_body]
    pub fn from_error<E>(error_type: StunErrorType, e: E) -> (r: StunError)
        ensures r.error_type == error_type,
    { unimplemented!() }
}
impl core::fmt::Debug for StunError {
    #[verifier::external_body]
    fn fmt(&self, f: &mut core::fmt::Formatter<'_>) -> core::fmt::Result { unimplemented!() }
}
impl From<core::num::TryFromIntError> for StunError {
    #[verifier::external_body]
    fn from(e: core::num::TryFromIntError) -> StunError { unimplemented!() }
}
#[verifier::external_type_specification]
#[verifier::external_body]
pub struct ExTryFromSliceError(core::array::TryFromSliceError);
impl From<core::array::TryFromSliceError> for StunError {
    #[verifier::external_body]
    fn from(e: core::array::TryFromSliceError) -> StunError { unimplemented!() }
}
// the shared byte vector with contents `s` (a Vec / Arc<Vec> is its contents: nothing in these units observes capacity or address)
pub open spec fn vx_arc_vec(s: Seq<u8>) -> std::sync::Arc<Vec<u8>> { choose|a: std::sync::Arc<Vec<u8>>| a@ == s }
#[verifier::external_body]
pub proof fn axiom_arc_vec_ext(a: std::sync::Arc<Vec<u8>>, b: std::sync::Arc<Vec<u8>>)
    ensures a@ == b@ ==> a == b,
{}
pub proof fn lemma_arc_vec(a: std::sync::Arc<Vec<u8>>) ensures vx_arc_vec(a@) == a { axiom_arc_vec_ext(a, vx_arc_vec(a@)); }
