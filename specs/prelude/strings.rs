// ===== prelude/strings.rs : std string functions without a vstd specification, specified from the std documentation
// over vstd's own UTF-8 model (vstd::utf8::{encode_utf8, valid_utf8}; `str::spec_bytes`)
#[verifier::external_type_specification]
#[verifier::external_body]
pub struct ExUtf8Error(core::str::Utf8Error);
impl From<core::str::Utf8Error> for StunError {
    #[verifier::external_body]
    fn from(e: core::str::Utf8Error) -> StunError { unimplemented!() }
}
// core::str::from_utf8: "Converts a slice of bytes to a string slice ... returns Err if the slice is not UTF-8"
pub assume_specification<'a> [core::str::from_utf8] (b: &'a [u8]) -> (r: Result<&'a str, core::str::Utf8Error>)
    ensures r is Ok <==> vstd::utf8::valid_utf8(b@), r is Ok ==> r->Ok_0.spec_bytes() == b@;
// String::len: "Returns the length of this String, in bytes"; String::as_bytes: "Returns a byte slice of this String's contents"
pub assume_specification [String::len] (s: &String) -> (r: usize)
    ensures r == vstd::utf8::encode_utf8(s@).len();
pub assume_specification [String::as_bytes] (s: &String) -> (r: &[u8])
    ensures r@ == vstd::utf8::encode_utf8(s@);
// `str::len` ("This length is in bytes") is called through this wrapper (logged //@sub): vstd's own specification of
// str::len does not expose the byte length
pub fn vx_str_len(s: &str) -> (r: usize) ensures r == s.spec_bytes().len() { s.as_bytes().len() }
// `String::from(&str)` (an owned copy) is called through this wrapper (logged //@sub): the impl's signature has two
// anonymous lifetime binders that an assume_specification cannot name
#[verifier::external_body]
pub fn vx_string_from(s: &str) -> (r: String) ensures r@ == s@ { String::from(s) }
// a String is its contents: no specification in these units observes anything else (capacity, address)
#[verifier::external_body]
pub broadcast proof fn axiom_string_ext(a: String, b: String)
    ensures #[trigger] a@ == #[trigger] b@ ==> a == b,
{}
// UTF-8 encoding is injective (vstd: decode_utf8(encode_utf8(s)) == s)
pub proof fn lemma_utf8_injective(a: Seq<char>, b: Seq<char>)
    requires vstd::utf8::encode_utf8(a) == vstd::utf8::encode_utf8(b),
    ensures a == b,
{
    vstd::utf8::encode_utf8_decode_utf8(a);
    vstd::utf8::encode_utf8_decode_utf8(b);
}
// the String whose UTF-8 encoding is `raw` (meaningful when valid_utf8(raw))
pub open spec fn string_of_utf8(raw: Seq<u8>) -> String { choose|s: String| vstd::utf8::encode_utf8(s@) == raw }
pub proof fn lemma_string_of_utf8(s: String)
    ensures string_of_utf8(vstd::utf8::encode_utf8(s@)) == s,
{
    let s1 = string_of_utf8(vstd::utf8::encode_utf8(s@));
    lemma_utf8_injective(s@, s1@);
    axiom_string_ext(s, s1);
}
pub open spec fn string_of_chars(c: Seq<char>) -> String { choose|s: String| s@ == c }
pub proof fn lemma_string_of_chars(s: String) ensures string_of_chars(s@) == s { axiom_string_ext(s, string_of_chars(s@)); }
// R1S: `format!("{0}:{1}", a, b)` (only positional `{N}` placeholders) is the concatenation of the Display text of its pieces;
// Display of &str / String / Cow<str> writes the string itself (std documentation). Trusted.
pub trait VxDisplay { spec fn disp(&self) -> Seq<char>; }
impl VxDisplay for &str { open spec fn disp(&self) -> Seq<char> { self@ } }
impl VxDisplay for String { open spec fn disp(&self) -> Seq<char> { self@ } }
#[verifier::external_body]
pub fn vx_cat<A: VxDisplay, B: VxDisplay>(a: A, b: B) -> (r: String)
    ensures r@ == a.disp() + b.disp(),
{ unimplemented!() }
