// ===== prelude/std_misc.rs : std functions without a vstd specification that any unit may meet (included by every unit)
// std::mem::replace: "Moves src into the referenced dest, returning the previous dest value"
pub assume_specification<T> [core::mem::replace] (dest: &mut T, src: T) -> (r: T)
    ensures *final(dest) == src, r == *old(dest),
    opens_invariants none
    no_unwind;
// Option::map_or: "Returns the provided default result (if none), or applies a function to the contained value (if any)"
pub assume_specification<T, U, F: FnOnce(T) -> U> [Option::<T>::map_or] (o: Option<T>, default: U, f: F) -> (r: U)
    where T: core::marker::Destruct, U: core::marker::Destruct
    requires o is Some ==> call_requires(f, (o->Some_0,)),
    ensures match o { None => r == default, Some(v) => call_ensures(f, (v,), r) };
// bitwise and / or / xor are commutative: called by the proof hints of functions that pack or mask bits, so that the hints serve
// whichever way round the code writes the operands
pub proof fn lemma_bitops_commute()
    ensures
        forall|x: u8, y: u8| #[trigger] (x | y) == (y | x), forall|x: u8, y: u8| #[trigger] (x & y) == (y & x), forall|x: u8, y: u8| #[trigger] (x ^ y) == (y ^ x),
        forall|x: u16, y: u16| #[trigger] (x | y) == (y | x), forall|x: u16, y: u16| #[trigger] (x & y) == (y & x), forall|x: u16, y: u16| #[trigger] (x ^ y) == (y ^ x),
        forall|x: u32, y: u32| #[trigger] (x | y) == (y | x), forall|x: u32, y: u32| #[trigger] (x & y) == (y & x), forall|x: u32, y: u32| #[trigger] (x ^ y) == (y ^ x),
        forall|x: usize, y: usize| #[trigger] (x | y) == (y | x), forall|x: usize, y: usize| #[trigger] (x & y) == (y & x),
{
    assert(forall|x: u8, y: u8| #[trigger] (x | y) == (y | x)) by (bit_vector);
    assert(forall|x: u8, y: u8| #[trigger] (x & y) == (y & x)) by (bit_vector);
    assert(forall|x: u8, y: u8| #[trigger] (x ^ y) == (y ^ x)) by (bit_vector);
    assert(forall|x: u16, y: u16| #[trigger] (x | y) == (y | x)) by (bit_vector);
    assert(forall|x: u16, y: u16| #[trigger] (x & y) == (y & x)) by (bit_vector);
    assert(forall|x: u16, y: u16| #[trigger] (x ^ y) == (y ^ x)) by (bit_vector);
    assert(forall|x: u32, y: u32| #[trigger] (x | y) == (y | x)) by (bit_vector);
    assert(forall|x: u32, y: u32| #[trigger] (x & y) == (y & x)) by (bit_vector);
    assert(forall|x: u32, y: u32| #[trigger] (x ^ y) == (y ^ x)) by (bit_vector);
    assert(forall|x: usize, y: usize| #[trigger] (x | y) == (y | x)) by (bit_vector);
    assert(forall|x: usize, y: usize| #[trigger] (x & y) == (y & x)) by (bit_vector);
}
