// ===== prelude/std_misc.rs : std functions without a vstd specification that any unit may meet (included by every unit)
// std::mem::replace: "Moves src into the referenced dest, returning the previous dest value"
pub assume_specification<T> [core::mem::replace] (dest: &mut T, src: T) -> (r: T)
    ensures *final(dest) == src, r == *old(dest),
    opens_invariants none
    no_unwind;
// Option::map_or: "Returns the provided default result (if none), or applies a function to the contained value (if any)"
pub assume_specification<T, U, F: FnOnce(T) -> U> [Option::<T>::map_or] (o: Option<T>, default: U, f: F) -> (r: U)
    where T: core::marker::Destruct, U: core::marker::Destruct
    requires o is Some ==> call_requires(f, (o->Some_0,)),
    ensures match o { None => r == default, Some(v) => call_ensures(f, (v,), r) };
