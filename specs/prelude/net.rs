// ===== prelude/net.rs : model of the std::net value types the address attributes use (trusted; std documentation).
// A SocketAddr is modelled as (ip, port): the IPv6 flow label and scope id, which STUN does not carry, are outside the model
// (SocketAddr::new sets both to 0).
pub struct Ipv4Addr { pub o: [u8; 4] }
pub struct Ipv6Addr { pub o: [u8; 16] }
impl Clone for Ipv4Addr { fn clone(&self) -> (r: Self) ensures r == *self { *self } }
impl Copy for Ipv4Addr {}
impl Clone for Ipv6Addr { fn clone(&self) -> (r: Self) ensures r == *self { *self } }
impl Copy for Ipv6Addr {}
impl Ipv4Addr { pub fn octets(&self) -> (r: [u8; 4]) ensures r == self.o { self.o } }
impl Ipv6Addr { pub fn octets(&self) -> (r: [u8; 16]) ensures r == self.o { self.o } }
pub enum IpAddr { V4(Ipv4Addr), V6(Ipv6Addr) }
impl Clone for IpAddr { fn clone(&self) -> (r: Self) ensures r == *self { *self } }
impl Copy for IpAddr {}
impl vstd::std_specs::convert::FromSpecImpl<[u8; 4]> for Ipv4Addr {
    open spec fn obeys_from_spec() -> bool { true }
    open spec fn from_spec(v: [u8; 4]) -> Self { Ipv4Addr { o: v } }
}
impl From<[u8; 4]> for Ipv4Addr { fn from(v: [u8; 4]) -> (r: Self) ensures r.o == v { Ipv4Addr { o: v } } }
impl vstd::std_specs::convert::FromSpecImpl<[u8; 16]> for Ipv6Addr {
    open spec fn obeys_from_spec() -> bool { true }
    open spec fn from_spec(v: [u8; 16]) -> Self { Ipv6Addr { o: v } }
}
impl From<[u8; 16]> for Ipv6Addr { fn from(v: [u8; 16]) -> (r: Self) ensures r.o == v { Ipv6Addr { o: v } } }
impl vstd::std_specs::convert::FromSpecImpl<[u8; 4]> for IpAddr {
    open spec fn obeys_from_spec() -> bool { true }
    open spec fn from_spec(v: [u8; 4]) -> Self { IpAddr::V4(Ipv4Addr { o: v }) }
}
impl From<[u8; 4]> for IpAddr { fn from(v: [u8; 4]) -> (r: Self) ensures r == IpAddr::V4(Ipv4Addr { o: v }) { IpAddr::V4(Ipv4Addr { o: v }) } }
impl vstd::std_specs::convert::FromSpecImpl<[u8; 16]> for IpAddr {
    open spec fn obeys_from_spec() -> bool { true }
    open spec fn from_spec(v: [u8; 16]) -> Self { IpAddr::V6(Ipv6Addr { o: v }) }
}
impl From<[u8; 16]> for IpAddr { fn from(v: [u8; 16]) -> (r: Self) ensures r == IpAddr::V6(Ipv6Addr { o: v }) { IpAddr::V6(Ipv6Addr { o: v }) } }
pub struct SocketAddr { pub ip: IpAddr, pub port: u16 }
impl Clone for SocketAddr { fn clone(&self) -> (r: Self) ensures r == *self { *self } }
impl Copy for SocketAddr {}
impl SocketAddr {
    pub fn new(ip: IpAddr, port: u16) -> (r: Self) ensures r.ip == ip, r.port == port { SocketAddr { ip, port } }
    pub fn ip(&self) -> (r: IpAddr) ensures r == self.ip { self.ip }
    pub fn port(&self) -> (r: u16) ensures r == self.port { self.port }
}
// std: "Converts this address to an IpAddr::V4 if it is an IPv4-mapped IPv6 address (::ffff:a.b.c.d), otherwise returns self as-is"
pub open spec fn v4_mapped(o: Seq<u8>) -> bool {
    o.len() == 16 && (forall|i: int| 0 <= i < 10 ==> o[i] == 0) && o[10] == 0xff && o[11] == 0xff
}
impl IpAddr {
    #[verifier::external_body]
    pub fn to_canonical(&self) -> (r: IpAddr)
        ensures match *self {
            IpAddr::V4(_) => r == *self,
            IpAddr::V6(a) => if v4_mapped(a.o@) { r is V4 && r->V4_0.o@ == a.o@.subrange(12, 16) } else { r == *self },
        },
    { unimplemented!() }
    pub fn is_ipv4(&self) -> (r: bool) ensures r == (*self is V4) { match self { IpAddr::V4(_) => true, IpAddr::V6(_) => false } }
    pub fn is_ipv6(&self) -> (r: bool) ensures r == (*self is V6) { match self { IpAddr::V4(_) => false, IpAddr::V6(_) => true } }
}
