// ===== prelude/net.rs : model of the std::net value types the address attributes use (trusted; std documentation).
// A SocketAddr is modelled as (ip, port): the IPv6 flow label and scope id, which STUN does not carry, are outside the model
// (SocketAddr::new sets both to 0).
pub struct Ipv4Addr { pub o: [u8; 4] }
pub struct Ipv6Addr { pub o: [u8; 16] }
impl Clone for Ipv4Addr { fn clone(&self) -> (r: Self) ensures r == *self { *self } }
impl Copy for Ipv4Addr {}
impl Clone for Ipv6Addr { fn clone(&self) -> (r: Self) ensures r == *self { *self } }
impl Copy for Ipv6Addr {}
impl Ipv4Addr { pub fn octets(&self) -> (r: [u8; 4]) ensures r == self.o { self.o } }
impl Ipv6Addr { pub fn octets(&self) -> (r: [u8; 16]) ensures r == self.o { self.o } }
pub enum IpAddr { V4(Ipv4Addr), V6(Ipv6Addr) }
impl Clone for IpAddr { fn clone(&self) -> (r: Self) ensures r == *self { *self } }
impl Copy for IpAddr {}
impl vstd::std_specs::convert::FromSpecImpl<[u8; 4]> for Ipv4Addr {
    open spec fn obeys_from_spec() -> bool { true }
    open spec fn from_spec(v: [u8; 4]) -> Self { Ipv4Addr { o: v } }
}
impl From<[u8; 4]> for Ipv4Addr { fn from(v: [u8; 4]) -> (r: Self) ensures r.o == v { Ipv4Addr { o: v } } }
impl vstd::std_specs::convert::FromSpecImpl<[u8; 16]> for Ipv6Addr {
    open spec fn obeys_from_spec() -> bool { true }
    open spec fn from_spec(v: [u8; 16]) -> Self { Ipv6Addr { o: v } }
}
impl From<[u8; 16]> for Ipv6Addr { fn from(v: [u8; 16]) -> (r: Self) ensures r.o == v { Ipv6Addr { o: v } } }
impl vstd::std_specs::convert::FromSpecImpl<[u8; 4]> for IpAddr {
    open spec fn obeys_from_spec() -> bool { true }
    open spec fn from_spec(v: [u8; 4]) -> Self { IpAddr::V4(Ipv4Addr { o: v }) }
}
impl From<[u8; 4]> for IpAddr { fn from(v: [u8; 4]) -> (r: Self) ensures r == IpAddr::V4(Ipv4Addr { o: v }) { IpAddr::V4(Ipv4Addr { o: v }) } }
impl vstd::std_specs::convert::FromSpecImpl<[u8; 16]> for IpAddr {
    open spec fn obeys_from_spec() -> bool { true }
    open spec fn from_spec(v: [u8; 16]) -> Self { IpAddr::V6(Ipv6Addr { o: v }) }
}
impl From<[u8; 16]> for IpAddr { fn from(v: [u8; 16]) -> (r: Self) ensures r == IpAddr::V6(Ipv6Addr { o: v }) { IpAddr::V6(Ipv6Addr { o: v }) } }
pub struct SocketAddr { pub ip: IpAddr, pub port: u16 }
impl Clone for SocketAddr { fn clone(&self) -> (r: Self) ensures r == *self { *self } }
impl Copy for SocketAddr {}
impl SocketAddr {
    pub fn new(ip: IpAddr, port: u16) -> (r: Self) ensures r.ip == ip, r.port == port { SocketAddr { ip, port } }
    pub fn ip(&self) -> (r: IpAddr) ensures r == self.ip { self.ip }
    pub fn port(&self) -> (r: u16) ensures r == self.port { self.port }
}
