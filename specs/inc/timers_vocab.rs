// ===== inc/timers_vocab.rs : types and spec vocabulary of stun-agent timeout.rs / rtt.rs, shared by the unit
// that proves the contracts (timers) and the units that use them (client)
//@item! stun_agent :: mod timeout > struct TimeoutItem
impl TimeoutItem {
    pub open spec fn expiry(&self) -> int { self.instant.ns@ + self.timeout.ns@ }
}
// ---- std::collections::BinaryHeap<std::cmp::Reverse<TimeoutItem>> (trusted shim).
// view = the heap's internal vector; element 0 is the greatest w.r.t. Ord for Reverse<TimeoutItem>, i.e.
// the *least* w.r.t. the extracted `Ord for TimeoutItem` above (whose contract ties it to expiry());
// push/pop/retain are specified up to permutation of that vector.
pub struct Reverse<T>(pub T);
#[verifier::external_body]
#[verifier::reject_recursive_types(T)]
pub struct BinaryHeap<T> { _p: core::marker::PhantomData<T> }
pub open spec fn heap_ok(s: Seq<TimeoutItem>) -> bool {
    forall|j: int| 0 <= j < s.len() ==> s[0].expiry() <= #[trigger] s[j].expiry()
}
impl BinaryHeap<Reverse<TimeoutItem>> {
    pub uninterp spec fn view(&self) -> Seq<TimeoutItem>;
    #[verifier::external_body]
    pub fn push(&mut self, x: Reverse<TimeoutItem>)
        requires heap_ok(old(self)@),
        ensures heap_ok(final(self)@), final(self)@.to_multiset() == old(self)@.to_multiset().insert(x.0),
            final(self)@.len() == old(self)@.len() + 1,
    { unimplemented!() }
    #[verifier::external_body]
    pub fn peek(&self) -> (r: Option<&Reverse<TimeoutItem>>)
        ensures r is None <==> self@.len() == 0,
            r is Some ==> r->Some_0.0 == self@[0],
    { unimplemented!() }
    #[verifier::external_body]
    pub fn pop(&mut self) -> (r: Option<Reverse<TimeoutItem>>)
        requires heap_ok(old(self)@),
        ensures heap_ok(final(self)@),
            r is None <==> old(self)@.len() == 0,
            r is None ==> final(self)@ == old(self)@,
            r is Some ==> r->Some_0.0 == old(self)@[0]
                && old(self)@.to_multiset() == final(self)@.to_multiset().insert(old(self)@[0])
                && final(self)@.len() + 1 == old(self)@.len(),
    { unimplemented!() }
    #[verifier::external_body]
    pub fn retain<F: Fn(&Reverse<TimeoutItem>) -> bool>(&mut self, f: F)
        requires heap_ok(old(self)@),
            forall|x: Reverse<TimeoutItem>| call_requires(f, (&x,)),
        ensures heap_ok(final(self)@),
            // f is called once on every element and returns some b; the element is kept iff b
            forall|x: TimeoutItem| #[trigger] final(self)@.to_multiset().count(x) <= old(self)@.to_multiset().count(x),
            forall|x: TimeoutItem| #[trigger] old(self)@.to_multiset().count(x) > 0 ==>
                (call_ensures(f, (&Reverse(x),), true) && final(self)@.to_multiset().count(x) == old(self)@.to_multiset().count(x))
                || (call_ensures(f, (&Reverse(x),), false) && final(self)@.to_multiset().count(x) == 0),
            final(self)@.len() <= old(self)@.len(),
    { unimplemented!() }
}
impl Default for BinaryHeap<Reverse<TimeoutItem>> {
    #[verifier::external_body]
    fn default() -> (r: Self) ensures r@ == Seq::<TimeoutItem>::empty() { unimplemented!() }
}
// what StunMessageTimeout::check(now) does to the pending timers: `removed` is what it popped, in order
pub open spec fn check_post(old_ms: Multiset<TimeoutItem>, new_ms: Multiset<TimeoutItem>, removed: Seq<TimeoutItem>,
    ids: Seq<TransactionId>, now: int) -> bool {
    &&& old_ms == new_ms.add(removed.to_multiset())
    &&& removed.len() == ids.len()
    &&& (forall|i: int| 0 <= i < removed.len() ==> ids[i] == #[trigger] removed[i].transaction_id && removed[i].expiry() <= now)
    &&& (forall|y: TimeoutItem| new_ms.count(y) > 0 ==> y.expiry() > now)
}
//@item! stun_agent :: mod timeout > struct StunMessageTimeout
impl StunMessageTimeout {
    pub open spec fn wf(&self) -> bool { heap_ok(self.timeouts@) }
    // the pending timers, as a multiset of (instant, timeout, id)
    pub open spec fn ms(&self) -> Multiset<TimeoutItem> { self.timeouts@.to_multiset() }
    // the entry the heap presents first (a pending timer of least expiry, see next_timeout)
    pub open spec fn top(&self) -> TimeoutItem { self.timeouts@[0] }
    pub open spec fn has_id(&self, id: TransactionId) -> bool {
        exists|x: TimeoutItem| self.ms().count(x) > 0 && x.transaction_id == id
    }
}
// ---------------------------------------------------------------- retransmission schedule (RFC 8489 6.2.1)
pub open spec fn pow2i(k: int) -> int
    decreases k
{ if k <= 0 { 1 } else { 2 * pow2i(k - 1) } }
pub open spec fn lg(n: int) -> int
    decreases n
{ if n <= 1 { 0 } else { 1 + lg(n / 2) } }
// interval j (0-based) and the time of the (j+1)-th event relative to the first transmission:
// RTO, 2RTO, 4RTO ... and Rm*RTO for the last one (RFC 8489 section 6.2.1), written from the RFC text
pub open spec fn ivl(rtt: int, rm: int, rc: int, j: int) -> int {
    if j == rc - 1 { rtt * rm } else { rtt * pow2i(j) }
}
pub open spec fn sched(rtt: int, rm: int, rc: int, j: int) -> int
    decreases j
{ if j <= 0 { 0 } else { sched(rtt, rm, rc, j - 1) + ivl(rtt, rm, rc, j - 1) } }

//@item! stun_agent :: mod timeout > struct RtoCalculator
impl RtoCalculator {
    // number of intervals handed out so far / configured Rc, as functions of the state
    pub open spec fn j(&self) -> int { lg(self.rm as int) }
    pub open spec fn cfg_rc(&self) -> int { self.j() + self.rc }
    pub open spec fn wf(&self) -> bool {
        self.rm as int == pow2i(self.j()) && self.cfg_rc() <= 31 && self.rtt.ns@ >= 0
    }
}
//@item! stun_agent :: mod timeout > struct RtoManager
impl RtoManager {
    pub open spec fn rtt(&self) -> int { self.calculator.rtt.ns@ as int }
    pub open spec fn rm(&self) -> int { self.calculator.last_rm as int }
    pub open spec fn rc(&self) -> int { self.calculator.cfg_rc() }
    pub open spec fn j(&self) -> int { self.calculator.j() }
    // deadline of the interval in progress, and the instant of the first transmission it implies
    pub open spec fn deadline(&self) -> int { self.latest->Some_0.ns@ + self.last_rto.ns@ }
    pub open spec fn origin(&self) -> int { self.deadline() - sched(self.rtt(), self.rm(), self.rc(), self.j()) }
    pub open spec fn at(&self, k: int) -> int { self.origin() + sched(self.rtt(), self.rm(), self.rc(), k) }
    pub open spec fn wf(&self) -> bool {
        &&& self.calculator.wf()
        &&& self.last_rto.ns@ >= 0
        &&& (self.latest is Some ==> self.j() >= 1)
        &&& (self.latest is None ==> self.j() == 0 || self.calculator.rc == 0)
    }
}
// ---------------------------------------------------------------- RTT estimator (rtt.rs, RFC 6298)
impl Duration {
    #[verifier::external_body]
    pub fn abs_diff(self, other: Duration) -> (r: Duration)
        ensures r.ns@ == (if self.ns@ >= other.ns@ { self.ns@ - other.ns@ } else { other.ns@ - self.ns@ }),
    { unimplemented!() }
}
pub mod cmp {
    use super::*;
    #[verifier::external_body]
    pub fn max(a: Duration, b: Duration) -> (r: Duration)
        ensures r == (if b.ns@ >= a.ns@ { b } else { a }),
    { unimplemented!() }
    #[verifier::external_body]
    pub fn min(a: Duration, b: Duration) -> (r: Duration)
        ensures r == (if b.ns@ < a.ns@ { b } else { a }),
    { unimplemented!() }
}
//@consts stun_agent :: mod rtt
//@item! stun_agent :: mod rtt > struct RttCalcuator
impl Clone for RttCalcuator { fn clone(&self) -> (r: Self) ensures r == *self { *self } }
impl Copy for RttCalcuator {}
// RFC 6298 (2.2)/(2.3) with the multiplications by alpha, beta, K left as the uninterpreted single-precision
// scaling `dur_mul_f32`; what is pinned: first-sample rule, RTTVAR before SRTT and from the *old* SRTT,
// which factor scales which term, max with the clock granularity, no rounding up to a second.
// the float factors of rtt.rs::update, kept symbolic by the text of the expression (rewrite R9)
pub uninterp spec fn vxs_f32_1_0_sub_BETA() -> f32;
pub uninterp spec fn vxs_f32_BETA() -> f32;
pub uninterp spec fn vxs_f32_1_0_sub_ALPHA() -> f32;
pub uninterp spec fn vxs_f32_ALPHA() -> f32;
pub uninterp spec fn vxs_f32_K_as_f32() -> f32;
#[verifier::external_body]
pub fn vx_f32_1_0_sub_BETA() -> (r: f32) ensures r == vxs_f32_1_0_sub_BETA() { unimplemented!() }
#[verifier::external_body]
pub fn vx_f32_BETA() -> (r: f32) ensures r == vxs_f32_BETA() { unimplemented!() }
#[verifier::external_body]
pub fn vx_f32_1_0_sub_ALPHA() -> (r: f32) ensures r == vxs_f32_1_0_sub_ALPHA() { unimplemented!() }
#[verifier::external_body]
pub fn vx_f32_ALPHA() -> (r: f32) ensures r == vxs_f32_ALPHA() { unimplemented!() }
#[verifier::external_body]
pub fn vx_f32_K_as_f32() -> (r: f32) ensures r == vxs_f32_K_as_f32() { unimplemented!() }
pub open spec fn rfc6298_first(r: int, g: int) -> (int, int, int) {   // (srtt, rttvar, rto)
    (r, r / 2, r + (if (r / 2) * 4 >= g { (r / 2) * 4 } else { g }))
}
