// ===== inc/std_retain.rs
// std Vec::retain: "removes all elements e for which f(&e) returns false. This method operates in place, visiting each
// element exactly once in the original order, and preserves the order of the retained elements."
pub open spec fn vx_filter_by<T>(s: Seq<T>, keep: Seq<bool>) -> Seq<T>
    decreases s.len()
{
    if s.len() == 0 || keep.len() != s.len() { Seq::empty() }
    else { let r = vx_filter_by(s.drop_last(), keep.drop_last()); if keep.last() { r.push(s.last()) } else { r } }
}
pub assume_specification<T, A: std::alloc::Allocator, F: FnMut(&T) -> bool> [Vec::<T, A>::retain] (v: &mut Vec<T, A>, f: F)
    requires forall|x: &T| #[trigger] call_requires(f, (x,)),
    ensures
        exists|keep: Seq<bool>| #![auto] keep.len() == old(v)@.len()
            && (forall|i: int| 0 <= i < keep.len() ==> call_ensures(f, (&old(v)@[i],), #[trigger] keep[i]))
            && final(v)@ == vx_filter_by(old(v)@, keep);

