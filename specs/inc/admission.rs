// ===== inc/admission.rs : the RFC 8489 ordering rule for MESSAGE-INTEGRITY / -SHA256 / FINGERPRINT (C09),
// transcribed from the property statement, and the three-flag machine that both implementations
// (stun-rs context.rs::ignore_attribute, stun-agent lib.rs::ProtectedAttributeIteratorObject) run.
pub open spec fn kind_of(t: u16) -> int {
    if t == 0x0008 { 1 } else if t == 0x001C { 2 } else if t == 0x8028 { 3 } else { 0 }
}
pub open spec fn seen(ts: Seq<u16>, i: int, k: int) -> bool {
    exists|j: int| 0 <= j < i && kind_of(#[trigger] ts[j]) == k
}
// wire attribute i is admitted: an ordinary attribute only before any of the three; MESSAGE-INTEGRITY only if
// none of the three came before it; MESSAGE-INTEGRITY-SHA256 only if neither it nor FINGERPRINT came before;
// FINGERPRINT only if no FINGERPRINT came before
pub open spec fn admitted(ts: Seq<u16>, i: int) -> bool {
    let k = kind_of(ts[i]);
    if k == 0 || k == 1 { !seen(ts, i, 1) && !seen(ts, i, 2) && !seen(ts, i, 3) }
    else if k == 2 { !seen(ts, i, 2) && !seen(ts, i, 3) }
    else { !seen(ts, i, 3) }
}
pub struct AdmFlags { pub mi: bool, pub sha: bool, pub fp: bool }
pub open spec fn adm_step(f: AdmFlags, t: u16) -> (bool, AdmFlags) {
    let k = kind_of(t);
    if k == 1 { if f.mi || f.sha || f.fp { (false, f) } else { (true, AdmFlags { mi: true, sha: f.sha, fp: f.fp }) } }
    else if k == 2 { if f.sha || f.fp { (false, f) } else { (true, AdmFlags { mi: f.mi, sha: true, fp: f.fp }) } }
    else if k == 3 { if f.fp { (false, f) } else { (true, AdmFlags { mi: f.mi, sha: f.sha, fp: true }) } }
    else { (!(f.mi || f.sha || f.fp), f) }
}
pub open spec fn flags_at(ts: Seq<u16>, i: int) -> AdmFlags
    decreases i
{
    if i <= 0 { AdmFlags { mi: false, sha: false, fp: false } } else { adm_step(flags_at(ts, i - 1), ts[i - 1]).1 }
}
pub open spec fn flags_inv(ts: Seq<u16>, i: int, f: AdmFlags) -> bool {
    &&& (f.fp <==> seen(ts, i, 3))
    &&& ((f.sha || f.fp) <==> (seen(ts, i, 2) || seen(ts, i, 3)))
    &&& ((f.mi || f.sha || f.fp) <==> (seen(ts, i, 1) || seen(ts, i, 2) || seen(ts, i, 3)))
}
proof fn lemma_seen_step(ts: Seq<u16>, i: int, k: int)
    requires 0 <= i < ts.len(),
    ensures seen(ts, i + 1, k) <==> (seen(ts, i, k) || kind_of(ts[i]) == k),
{
    if seen(ts, i + 1, k) {
        let j = choose|j: int| 0 <= j < i + 1 && kind_of(#[trigger] ts[j]) == k;
        if j < i { assert(seen(ts, i, k)); }
    }
    if seen(ts, i, k) {
        let j = choose|j: int| 0 <= j < i && kind_of(#[trigger] ts[j]) == k;
        assert(0 <= j < i + 1 && kind_of(ts[j]) == k);
    }
    if kind_of(ts[i]) == k { assert(0 <= i < i + 1 && kind_of(ts[i]) == k); }
}
// the flag machine decides exactly the rule of the property
// props: C09
pub proof fn lemma_flags_admit(ts: Seq<u16>, i: int)
    requires 0 <= i <= ts.len(),
    ensures flags_inv(ts, i, flags_at(ts, i)),
        i < ts.len() ==> adm_step(flags_at(ts, i), ts[i]).0 == admitted(ts, i),
    decreases i,
{
    if i > 0 {
        lemma_flags_admit(ts, i - 1);
        lemma_seen_step(ts, i - 1, 1);
        lemma_seen_step(ts, i - 1, 2);
        lemma_seen_step(ts, i - 1, 3);
    } else {
        assert(!seen(ts, 0, 1) && !seen(ts, 0, 2) && !seen(ts, 0, 3));
    }
}
