// ===== inc/attrset_vocab.rs : StunAttributes (stun-agent message.rs) and its abstract view
//@item! stun_agent :: mod message > struct StunAttributes
pub open spec fn is_trailer_ty(t: u16) -> bool { t == TY_MESSAGE_INTEGRITY || t == TY_MESSAGE_INTEGRITY_SHA256 || t == TY_FINGERPRINT }
#[verifier::opaque]
pub open spec fn distinct_types(s: Seq<StunAttribute>) -> bool {
    forall|i: int, j: int| 0 <= i < j < s.len() ==> s[i].ty() != s[j].ty()
}
#[verifier::opaque]
pub open spec fn seq_index_of(s: Seq<StunAttribute>, t: u16) -> Option<int> {
    if exists|i: int| 0 <= i < s.len() && s[i].ty() == t {
        Some(choose|i: int| 0 <= i < s.len() && s[i].ty() == t)
    } else { None }
}
// `s` without its attribute of type t (the others keep their order)
pub open spec fn seq_without(s: Seq<StunAttribute>, t: u16) -> Seq<StunAttribute> {
    match seq_index_of(s, t) { Some(i) => s.remove(i), None => s }
}
pub open spec fn opt_seq(o: Option<StunAttribute>) -> Seq<StunAttribute> {
    match o { Some(a) => seq![a], None => Seq::<StunAttribute>::empty() }
}
impl StunAttributes {
    // one attribute per type, in first-insertion order; integrity / fingerprint attributes live in their own slots
    pub open spec fn wf(&self) -> bool {
        &&& distinct_types(self.attributes@)
        &&& (forall|i: int| 0 <= i < self.attributes@.len() ==> !is_trailer_ty(#[trigger] self.attributes@[i].ty()))
        &&& (self.integrity is Some ==> self.integrity->Some_0.ty() == TY_MESSAGE_INTEGRITY)
        &&& (self.integrity_sha256 is Some ==> self.integrity_sha256->Some_0.ty() == TY_MESSAGE_INTEGRITY_SHA256)
        &&& (self.fingerprint is Some ==> self.fingerprint->Some_0.ty() == TY_FINGERPRINT)
    }
    // what ends up on the wire, in order (From<StunAttributes> for Vec<StunAttribute>)
    pub open spec fn flat(&self) -> Seq<StunAttribute> {
        self.attributes@ + opt_seq(self.integrity) + opt_seq(self.integrity_sha256) + opt_seq(self.fingerprint)
    }
    pub open spec fn index_of(&self, t: u16) -> Option<int> { seq_index_of(self.attributes@, t) }
}
