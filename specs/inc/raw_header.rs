// ===== inc/raw_header.rs : stun-rs raw.rs MessageHeader (shared by units codec and reasm)
pub assume_specification<'a, T, const N: usize> [<&'a [T; N] as TryFrom<&'a [T]>>::try_from] (s: &'a [T]) -> (r: Result<&'a [T; N], core::array::TryFromSliceError>)
    ensures r is Ok <==> s@.len() == N, r is Ok ==> r->Ok_0@ == s@;

//@item! stun_rs :: mod raw > struct MessageHeader

// RFC 8489 section 5: the two most significant bits are zero and bytes 4..8 are the magic cookie
pub open spec fn header_ok(h: Seq<u8>) -> bool {
    h.len() >= 20 && h[0] < 64 && h[4] == 0x21 && h[5] == 0x12 && h[6] == 0xA4 && h[7] == 0x42
}
impl vstd::std_specs::cmp::PartialEqSpecImpl<Cookie> for &[u8; MAGIC_COOKIE_SIZE] {
    open spec fn obeys_eq_spec() -> bool { false }
    open spec fn eq_spec(&self, other: &Cookie) -> bool { arbitrary() }
}
impl PartialEq<Cookie> for &[u8; MAGIC_COOKIE_SIZE] {
//@item stun_rs :: mod types > impl PartialEq<Cookie> for &[u8; MAGIC_COOKIE_SIZE] > fn eq
//@spec
    ensures r == (other.0 as int == be32(self@)),
//@end
}
impl<'a> Decode<'a> for MessageHeader<'a> {
//@item stun_rs :: mod raw > impl<'a> Decode<'a> for MessageHeader<'a> > fn decode
//@tags C03 C16 C01 C02
//@spec
    ensures r is Ok <==> header_ok(buffer@),
        r is Ok ==> {
            let h = r->Ok_0.0;
            &&& r->Ok_0.1 == 20
            &&& h.msg_type as int == be16(buffer@) % 16384
            &&& h.msg_length as int == be16(buffer@.subrange(2, 4))
            &&& h.transaction_id@ == buffer@.subrange(8, 20)
            &&& h.cookie@ == buffer@.subrange(4, 8)
            &&& h.bits == 0
        },
//@after "let msg_type = BigEndian::read_u16("
    proof { lemma_bitops_commute(); }
    assert((msg_type >> 14u16) <= 3u16) by (bit_vector);
    assert(((msg_type >> 14u16) == 0u16) <==> msg_type < 16384u16) by (bit_vector);
    assert(msg_type & 0x3FFFu16 == msg_type % 16384u16) by (bit_vector);
//@end
}
