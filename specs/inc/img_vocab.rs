// ===== inc/img_vocab.rs : the image of a message on the wire (shared by units codec and rt)
// ---- what an encoded message is: a function of the message alone (C14: independent of the buffer)
pub open spec fn zeros(n: int) -> Seq<u8> { Seq::new(n as nat, |i: int| 0u8) }
pub open spec fn hdr_img(msg: StunMessage) -> Seq<u8> {
    be16_seq(rfc_type(msg.method.0, spec_class_bits(msg.class)) as int) + seq![0u8, 0u8]
        + be32_seq(0x2112A442) + msg.transaction_id.0@
}
// image of the header plus the first k attributes, exactly as the RFC lays them out:
// TLV = type(16) length(16) value padding-to-4 ; the header length covers everything after byte 20;
// an attribute's post-processing (MAC / CRC) sees the prefix with the length already covering itself
pub open spec fn tlv_step(p: Seq<u8>, a: StunAttribute) -> Seq<u8> {
    let v = a.wire(p);
    let p2 = set_len(p, p.len() - 20 + 4 + v.len() + pad4(v.len() as int));
    p2 + be16_seq(a.spec_type() as int) + be16_seq(v.len() as int) + post_n(a, p2, v) + zeros(pad4(v.len() as int))
}
#[verifier::opaque]
pub open spec fn img(msg: StunMessage, k: int) -> Seq<u8>
    decreases k
{
    if k <= 0 { hdr_img(msg) } else { tlv_step(img(msg, k - 1), msg.attributes@[k - 1]) }
}
pub open spec fn step_ok(msg: StunMessage, k: int) -> bool {
    let p = img(msg, k - 1);
    let a = msg.attributes@[k - 1];
    let v = a.wire(p);
    let p2 = set_len(p, p.len() - 20 + 4 + v.len() + pad4(v.len() as int));
    a.encodable(p) && v.len() <= 65535 && p.len() - 20 + 4 + v.len() + pad4(v.len() as int) <= 65535 && a.post_ok(p2, v)
}
pub open spec fn enc_ok(msg: StunMessage, k: int) -> bool
    decreases k
{
    k <= 0 || (enc_ok(msg, k - 1) && step_ok(msg, k))
}
proof fn lemma_img0(msg: StunMessage)
    ensures img(msg, 0) == hdr_img(msg), hdr_img(msg).len() == 20,
{
    reveal_with_fuel(img, 1);
}
proof fn lemma_img_unfold(msg: StunMessage, k: int)
    requires k >= 1,
    ensures img(msg, k) == tlv_step(img(msg, k - 1), msg.attributes@[k - 1]),
{
    reveal_with_fuel(img, 2);
}
proof fn lemma_tlv_step_len(p: Seq<u8>, a: StunAttribute)
    ensures tlv_step(p, a).len() == p.len() + 4 + a.wire(p).len() + pad4(a.wire(p).len() as int),
        0 <= pad4(a.wire(p).len() as int) < 4,
{
}
proof fn lemma_img_grows(msg: StunMessage, k: int)
    requires k >= 1,
    ensures img(msg, k).len() == img(msg, k - 1).len() + 4 + msg.attributes@[k - 1].wire(img(msg, k - 1)).len()
        + pad4(msg.attributes@[k - 1].wire(img(msg, k - 1)).len() as int),
        img(msg, k).len() >= img(msg, k - 1).len() + 4,
{
    lemma_img_unfold(msg, k);
    lemma_tlv_step_len(img(msg, k - 1), msg.attributes@[k - 1]);
}
proof fn lemma_fail_prefix(msg: StunMessage, k: int, n: int, buflen: int)
    requires 1 <= k <= n,
    ensures (!step_ok(msg, k) || buflen < img(msg, k).len()) ==> !(enc_ok(msg, n) && buflen >= img(msg, n).len()),
    decreases n - k,
{
    if n > k {
        lemma_fail_prefix(msg, k, n - 1, buflen);
        lemma_img_grows(msg, n);
    }
}
proof fn lemma_img_ge20(msg: StunMessage, k: int)
    ensures img(msg, k).len() >= 20,
    decreases k,
{
    if k <= 0 { lemma_img0(msg); reveal_with_fuel(img, 1); } else { lemma_img_ge20(msg, k - 1); lemma_img_grows(msg, k); }
}
