// ===== inc/attrs_turn.rs : TURN attribute kinds with fixed bit layouts (RFC 8656 section 18)

// ---------------------------------------------------------------- CHANNEL-NUMBER (RFC 8656 18.1): number(16) RFFU(16)=0
//@consts stun_rs :: mod attributes > mod turn > mod channel_number
//@item! stun_rs :: mod attributes > mod turn > mod channel_number > struct ChannelNumber
impl StunAttributeType for ChannelNumber {
    open spec fn spec_type() -> u16 { 0x000C }
//@item stun_rs :: mod attributes > mod turn > mod channel_number > impl crate::attributes::StunAttributeType for ChannelNumber > fn get_type
//@tags C02 C01
//@end
//@item stun_rs :: mod attributes > mod turn > mod channel_number > impl crate::attributes::StunAttributeType for ChannelNumber > fn attribute_type
//@tags C02 C01
//@end
}
impl ChannelNumber {
//@item stun_rs :: mod attributes > mod turn > mod channel_number > impl ChannelNumber > fn new
//@tags C19 C02
//@spec
    ensures r.number == number, r.rffu == 0,
//@end
//@item stun_rs :: mod attributes > mod turn > mod channel_number > impl ChannelNumber > fn number
//@tags C19
//@spec
    ensures r == self.number,
//@end
}
impl EncodeAttributeValue for ChannelNumber {
    open spec fn wire(&self, enc: Seq<u8>) -> Seq<u8> { be16_seq(self.number as int) + be16_seq(self.rffu as int) }
    open spec fn encodable(&self, enc: Seq<u8>) -> bool { true }
//@item stun_rs :: mod attributes > mod turn > mod channel_number > impl EncodeAttributeValue for ChannelNumber > fn encode
//@tags C01 C02 C14
//@rules R5P
//@stmt "Ok(CHANNEL_NUMBER_SIZE)"
    proof { assert(raw_value@.subrange(0, 4) =~= be16_seq(self.number as int) + be16_seq(self.rffu as int)); }
//@end
}
impl DecodeAttributeValue for ChannelNumber {
    // the RFFU half is ignored by a receiver
    open spec fn unwire(raw: Seq<u8>, prefix: Seq<u8>) -> Option<Self> {
        if raw.len() >= 4 { Some(ChannelNumber { number: be16(raw) as u16, rffu: 0 }) } else { None }
    }
//@item stun_rs :: mod attributes > mod turn > mod channel_number > impl DecodeAttributeValue for ChannelNumber > fn decode
//@tags C01 C02 C03 C19
//@end
}
// props: C01 C02
proof fn lemma_roundtrip_ChannelNumber(n: u16, enc: Seq<u8>)
    ensures ({ let x = ChannelNumber { number: n, rffu: 0 }; ChannelNumber::unwire(x.wire(enc), enc) == Some(x) }),
{
    lemma_be16_roundtrip(n as int);
}

// ---------------------------------------------------------------- EVEN-PORT (RFC 8656 18.6): R(1) RFFU(7)=0
//@consts stun_rs :: mod attributes > mod turn > mod even_port
//@item! stun_rs :: mod attributes > mod turn > mod even_port > struct EvenPort
impl StunAttributeType for EvenPort {
    open spec fn spec_type() -> u16 { 0x0018 }
//@item stun_rs :: mod attributes > mod turn > mod even_port > impl crate::attributes::StunAttributeType for EvenPort > fn get_type
//@tags C02 C01
//@end
//@item stun_rs :: mod attributes > mod turn > mod even_port > impl crate::attributes::StunAttributeType for EvenPort > fn attribute_type
//@tags C02 C01
//@end
}
impl EvenPort {
//@item stun_rs :: mod attributes > mod turn > mod even_port > impl EvenPort > fn new
//@tags C19
//@spec
    ensures r.0 == reserve,
//@end
//@item stun_rs :: mod attributes > mod turn > mod even_port > impl EvenPort > fn reserve
//@tags C19
//@spec
    ensures r == self.0,
//@end
}
impl EncodeAttributeValue for EvenPort {
    open spec fn wire(&self, enc: Seq<u8>) -> Seq<u8> { seq![if self.0 { 0x80u8 } else { 0u8 }] }
    open spec fn encodable(&self, enc: Seq<u8>) -> bool { true }
//@item stun_rs :: mod attributes > mod turn > mod even_port > impl EncodeAttributeValue for EvenPort > fn encode
//@tags C01 C02 C14
//@rules R5P
//@stmt "Ok(EVEN_PORT_SIZE)"
    proof { assert(raw_value@.subrange(0, 1) =~= seq![if self.0 { 0x80u8 } else { 0u8 }]); }
//@end
}
impl DecodeAttributeValue for EvenPort {
    // only the top bit counts; the 7 RFFU bits are ignored
    open spec fn unwire(raw: Seq<u8>, prefix: Seq<u8>) -> Option<Self> {
        if raw.len() >= 1 { Some(EvenPort(raw[0] >= 0x80)) } else { None }
    }
//@item stun_rs :: mod attributes > mod turn > mod even_port > impl DecodeAttributeValue for EvenPort > fn decode
//@tags C01 C02 C03 C19
//@stmt "Ok((Self(raw_value[0] & 0x80 == 0x80), EVEN_PORT_SIZE))"
    proof { let b = raw_value[0]; assert((b & 0x80 == 0x80) == (b >= 0x80)) by (bit_vector); }
//@end
}
// props: C01 C02
proof fn lemma_roundtrip_EvenPort(x: EvenPort, enc: Seq<u8>)
    ensures EvenPort::unwire(x.wire(enc), enc) == Some(x),
{
}

// ---------------------------------------------------------------- protocols.rs + REQUESTED-TRANSPORT (RFC 8656 18.7): protocol(8) RFFU(24)=0
//@consts stun_rs :: mod protocols
//@item! stun_rs :: mod protocols > struct ProtocolNumber
impl Clone for ProtocolNumber { fn clone(&self) -> (r: Self) ensures r == *self { *self } }
impl Copy for ProtocolNumber {}
pub exec const UDP: ProtocolNumber ensures UDP.0 == 17 { ProtocolNumber(17u8) }
impl ProtocolNumber {
//@item stun_rs :: mod protocols > impl ProtocolNumber > fn as_u8
//@tags C19
//@spec
    ensures r == self.0,
//@end
}
impl Encode for ProtocolNumber {
//@item stun_rs :: mod protocols > impl Encode for ProtocolNumber > fn encode
//@tags C02 C14
//@spec
    ensures final(raw_value)@.len() == old(raw_value)@.len(),
        r is Ok <==> old(raw_value)@.len() >= 1,
        r is Ok ==> r->Ok_0 == 1 && final(raw_value)@[0] == self.0
            && forall|i: int| 1 <= i < old(raw_value)@.len() ==> final(raw_value)@[i] == old(raw_value)@[i],
//@end
}
impl<'a> Decode<'a> for ProtocolNumber {
//@item stun_rs :: mod protocols > impl<'a> crate::Decode<'a> for ProtocolNumber > fn decode
//@tags C02 C03
//@spec
    ensures r is Ok <==> raw_value@.len() >= 1,
        r is Ok ==> r->Ok_0.1 == 1 && r->Ok_0.0.0 == raw_value@[0],
//@end
}
//@consts stun_rs :: mod attributes > mod turn > mod requested_transport
//@item! stun_rs :: mod attributes > mod turn > mod requested_transport > struct RequestedTrasport
impl StunAttributeType for RequestedTrasport {
    open spec fn spec_type() -> u16 { 0x0019 }
//@item stun_rs :: mod attributes > mod turn > mod requested_transport > impl crate::attributes::StunAttributeType for RequestedTrasport > fn get_type
//@tags C02 C01
//@end
//@item stun_rs :: mod attributes > mod turn > mod requested_transport > impl crate::attributes::StunAttributeType for RequestedTrasport > fn attribute_type
//@tags C02 C01
//@end
}
impl RequestedTrasport {
//@item stun_rs :: mod attributes > mod turn > mod requested_transport > impl RequestedTrasport > fn new
//@tags C19
//@spec
    ensures r.0 == protocol,
//@end
//@item stun_rs :: mod attributes > mod turn > mod requested_transport > impl RequestedTrasport > fn protocol
//@tags C19
//@spec
    ensures r == self.0,
//@end
}
impl EncodeAttributeValue for RequestedTrasport {
    open spec fn wire(&self, enc: Seq<u8>) -> Seq<u8> { seq![self.0.0, 0u8, 0u8, 0u8] }
    open spec fn encodable(&self, enc: Seq<u8>) -> bool { true }
//@item stun_rs :: mod attributes > mod turn > mod requested_transport > impl EncodeAttributeValue for RequestedTrasport > fn encode
//@tags C01 C02 C14 C03
//@rules R5P
//@stmt "Ok(REQUESTED_TRANSPORT_SIZE)"
    proof { assert(raw_value@.subrange(0, 4) =~= seq![self.0.0, 0u8, 0u8, 0u8]); }
//@end
}
impl DecodeAttributeValue for RequestedTrasport {
    open spec fn unwire(raw: Seq<u8>, prefix: Seq<u8>) -> Option<Self> {
        if raw.len() >= 4 { Some(RequestedTrasport(ProtocolNumber(raw[0]))) } else { None }
    }
//@item stun_rs :: mod attributes > mod turn > mod requested_transport > impl DecodeAttributeValue for RequestedTrasport > fn decode
//@tags C01 C02 C03 C19
//@end
}
// props: C01 C02
proof fn lemma_roundtrip_RequestedTrasport(x: RequestedTrasport, enc: Seq<u8>)
    ensures RequestedTrasport::unwire(x.wire(enc), enc) == Some(x),
{
}

// ---------------------------------------------------------------- RESERVATION-TOKEN (RFC 8656 18.9): 8 opaque bytes
//@consts stun_rs :: mod attributes > mod turn > mod reservation_token
//@item! stun_rs :: mod attributes > mod turn > mod reservation_token > struct ReservationToken
impl StunAttributeType for ReservationToken {
    open spec fn spec_type() -> u16 { 0x0022 }
//@item stun_rs :: mod attributes > mod turn > mod reservation_token > impl crate::attributes::StunAttributeType for ReservationToken > fn get_type
//@tags C02 C01
//@end
//@item stun_rs :: mod attributes > mod turn > mod reservation_token > impl crate::attributes::StunAttributeType for ReservationToken > fn attribute_type
//@tags C02 C01
//@end
}
impl ReservationToken {
//@item stun_rs :: mod attributes > mod turn > mod reservation_token > impl ReservationToken > fn token
//@tags C19
//@spec
    ensures r@ == self.0@,
//@end
}
impl vstd::std_specs::convert::FromSpecImpl<&[u8; 8]> for ReservationToken {
    open spec fn obeys_from_spec() -> bool { true }
    open spec fn from_spec(v: &[u8; 8]) -> Self { ReservationToken(*v) }
}
impl From<&[u8; RESERVATION_TOKEN_SIZE]> for ReservationToken {
//@item stun_rs :: mod attributes > mod turn > mod reservation_token > impl From<&[u8; RESERVATION_TOKEN_SIZE]> for ReservationToken > fn from
//@tags C19
//@spec
    ensures r.0 == *buff,
//@end
}
impl vstd::std_specs::convert::FromSpecImpl<[u8; 8]> for ReservationToken {
    open spec fn obeys_from_spec() -> bool { true }
    open spec fn from_spec(v: [u8; 8]) -> Self { ReservationToken(v) }
}
impl From<[u8; RESERVATION_TOKEN_SIZE]> for ReservationToken {
//@item stun_rs :: mod attributes > mod turn > mod reservation_token > impl From<[u8; RESERVATION_TOKEN_SIZE]> for ReservationToken > fn from
//@tags C19
//@spec
    ensures r.0 == buff,
//@end
}
impl EncodeAttributeValue for ReservationToken {
    open spec fn wire(&self, enc: Seq<u8>) -> Seq<u8> { self.0@ }
    open spec fn encodable(&self, enc: Seq<u8>) -> bool { true }
//@item stun_rs :: mod attributes > mod turn > mod reservation_token > impl EncodeAttributeValue for ReservationToken > fn encode
//@tags C01 C02 C14
//@rules R5P
//@end
}
impl DecodeAttributeValue for ReservationToken {
    open spec fn unwire(raw: Seq<u8>, prefix: Seq<u8>) -> Option<Self> {
        if raw.len() >= 8 { Some(choose|t: ReservationToken| t.0@ == raw.subrange(0, 8)) } else { None }
    }
//@item stun_rs :: mod attributes > mod turn > mod reservation_token > impl DecodeAttributeValue for ReservationToken > fn decode
//@tags C01 C02 C03 C19
//@stmt "Ok((ReservationToken::from(token), RESERVATION_TOKEN_SIZE))"
    proof {
        // an array is determined by its elements
        let t0 = ReservationToken(*token);
        let t1 = choose|t: ReservationToken| t.0@ == ctx.raw_value@.subrange(0, 8);
        assert(t0.0@ == ctx.raw_value@.subrange(0, 8));
        assert(t1.0@ =~= t0.0@);
        vstd::array::axiom_array_ext_equal(t1.0, t0.0);
    }
//@end
}
