// ===== inc/attrs_turn.rs : TURN attribute kinds with fixed bit layouts (RFC 8656 section 18)

// ---------------------------------------------------------------- CHANNEL-NUMBER (RFC 8656 18.1): number(16) RFFU(16)=0
//@consts stun_rs :: mod attributes > mod turn > mod channel_number
//@item! stun_rs :: mod attributes > mod turn > mod channel_number > struct ChannelNumber
impl StunAttributeType for ChannelNumber {
    open spec fn spec_type() -> u16 { 0x000C }
//@item stun_rs :: mod attributes > mod turn > mod channel_number > impl crate::attributes::StunAttributeType for ChannelNumber > fn get_type
//@tags C02 C01
//@end
//@item stun_rs :: mod attributes > mod turn > mod channel_number > impl crate::attributes::StunAttributeType for ChannelNumber > fn attribute_type
//@tags C02 C01
//@end
}
impl ChannelNumber {
//@item stun_rs :: mod attributes > mod turn > mod channel_number > impl ChannelNumber > fn new
//@tags C19 C02
//@spec
    ensures r.number == number, r.rffu == 0,
//@end
//@item stun_rs :: mod attributes > mod turn > mod channel_number > impl ChannelNumber > fn number
//@tags C19
//@spec
    ensures r == self.number,
//@end
}
impl EncodeAttributeValue for ChannelNumber {
    open spec fn post_wire(&self, enc: Seq<u8>, val: Seq<u8>) -> Seq<u8> { val }
    open spec fn post_ok(&self, enc: Seq<u8>, val: Seq<u8>) -> bool { true }
    // the provided method of the trait (nothing to do after the length is known), as instantiated for this kind
//@item stun_rs :: mod attributes > trait EncodeAttributeValue > fn post_encode
//@tags C02 C14 C01
//@end
    open spec fn wire(&self, enc: Seq<u8>) -> Seq<u8> { be16_seq(self.number as int) + be16_seq(self.rffu as int) }
    open spec fn encodable(&self, enc: Seq<u8>) -> bool { true }
//@item stun_rs :: mod attributes > mod turn > mod channel_number > impl EncodeAttributeValue for ChannelNumber > fn encode
//@tags C01 C02 C14
//@rules R5P
//@stmt "Ok(CHANNEL_NUMBER_SIZE)"
    proof { assert(raw_value@.subrange(0, 4) =~= be16_seq(self.number as int) + be16_seq(self.rffu as int)); }
//@end
}
impl DecodeAttributeValue for ChannelNumber {
    // the RFFU half is ignored by a receiver
    open spec fn unwire(raw: Seq<u8>, prefix: Seq<u8>) -> Option<Self> {
        if raw.len() >= 4 { Some(ChannelNumber { number: be16(raw) as u16, rffu: 0 }) } else { None }
    }
//@item stun_rs :: mod attributes > mod turn > mod channel_number > impl DecodeAttributeValue for ChannelNumber > fn decode
//@tags C01 C02 C03 C19
//@end
}
// props: C01 C02
proof fn lemma_roundtrip_ChannelNumber(x: ChannelNumber, enc: Seq<u8>)
    requires x.rffu == 0,      // what ChannelNumber::new builds (the field is private)
    ensures ChannelNumber::unwire(x.wire(enc), enc) == Some(x),
{
    lemma_be16_roundtrip(x.number as int);
    assert(x.wire(enc).subrange(0, 2) =~= be16_seq(x.number as int));
}

// ---------------------------------------------------------------- EVEN-PORT (RFC 8656 18.6): R(1) RFFU(7)=0
//@consts stun_rs :: mod attributes > mod turn > mod even_port
//@item! stun_rs :: mod attributes > mod turn > mod even_port > struct EvenPort
impl StunAttributeType for EvenPort {
    open spec fn spec_type() -> u16 { 0x0018 }
//@item stun_rs :: mod attributes > mod turn > mod even_port > impl crate::attributes::StunAttributeType for EvenPort > fn get_type
//@tags C02 C01
//@end
//@item stun_rs :: mod attributes > mod turn > mod even_port > impl crate::attributes::StunAttributeType for EvenPort > fn attribute_type
//@tags C02 C01
//@end
}
impl EvenPort {
//@item stun_rs :: mod attributes > mod turn > mod even_port > impl EvenPort > fn new
//@tags C19
//@spec
    ensures r.0 == reserve,
//@end
//@item stun_rs :: mod attributes > mod turn > mod even_port > impl EvenPort > fn reserve
//@tags C19
//@spec
    ensures r == self.0,
//@end
}
impl EncodeAttributeValue for EvenPort {
    open spec fn post_wire(&self, enc: Seq<u8>, val: Seq<u8>) -> Seq<u8> { val }
    open spec fn post_ok(&self, enc: Seq<u8>, val: Seq<u8>) -> bool { true }
    // the provided method of the trait (nothing to do after the length is known), as instantiated for this kind
//@item stun_rs :: mod attributes > trait EncodeAttributeValue > fn post_encode
//@tags C02 C14 C01
//@end
    open spec fn wire(&self, enc: Seq<u8>) -> Seq<u8> { seq![if self.0 { 0x80u8 } else { 0u8 }] }
    open spec fn encodable(&self, enc: Seq<u8>) -> bool { true }
//@item stun_rs :: mod attributes > mod turn > mod even_port > impl EncodeAttributeValue for EvenPort > fn encode
//@tags C01 C02 C14
//@rules R5P
//@stmt "Ok(EVEN_PORT_SIZE)"
    proof { assert(raw_value@.subrange(0, 1) =~= seq![if self.0 { 0x80u8 } else { 0u8 }]); }
//@end
}
impl DecodeAttributeValue for EvenPort {
    // only the top bit counts; the 7 RFFU bits are ignored
    open spec fn unwire(raw: Seq<u8>, prefix: Seq<u8>) -> Option<Self> {
        if raw.len() >= 1 { Some(EvenPort(raw[0] >= 0x80)) } else { None }
    }
//@item stun_rs :: mod attributes > mod turn > mod even_port > impl DecodeAttributeValue for EvenPort > fn decode
//@tags C01 C02 C03 C19
//@stmt "Ok((Self(raw_value[0] & 0x80 == 0x80), EVEN_PORT_SIZE))"
    proof { lemma_bitops_commute(); }
    proof { let b = raw_value[0]; assert((b & 0x80 == 0x80) == (b >= 0x80)) by (bit_vector); }
//@end
}
// props: C01 C02
proof fn lemma_roundtrip_EvenPort(x: EvenPort, enc: Seq<u8>)
    ensures EvenPort::unwire(x.wire(enc), enc) == Some(x),
{
}

// ---------------------------------------------------------------- protocols.rs + REQUESTED-TRANSPORT (RFC 8656 18.7): protocol(8) RFFU(24)=0
//@consts stun_rs :: mod protocols
//@item! stun_rs :: mod protocols > struct ProtocolNumber
impl Clone for ProtocolNumber { fn clone(&self) -> (r: Self) ensures r == *self { *self } }
impl Copy for ProtocolNumber {}
pub exec const UDP: ProtocolNumber ensures UDP.0 == 17 { ProtocolNumber(17u8) }
impl ProtocolNumber {
//@item stun_rs :: mod protocols > impl ProtocolNumber > fn as_u8
//@tags C19
//@spec
    ensures r == self.0,
//@end
}
impl Encode for ProtocolNumber {
//@item stun_rs :: mod protocols > impl Encode for ProtocolNumber > fn encode
//@tags C02 C14
//@spec
    ensures final(raw_value)@.len() == old(raw_value)@.len(),
        r is Ok <==> old(raw_value)@.len() >= 1,
        r is Ok ==> r->Ok_0 == 1 && final(raw_value)@[0] == self.0
            && forall|i: int| 1 <= i < old(raw_value)@.len() ==> final(raw_value)@[i] == old(raw_value)@[i],
//@end
}
impl<'a> Decode<'a> for ProtocolNumber {
//@item stun_rs :: mod protocols > impl<'a> crate::Decode<'a> for ProtocolNumber > fn decode
//@tags C02 C03
//@spec
    ensures r is Ok <==> raw_value@.len() >= 1,
        r is Ok ==> r->Ok_0.1 == 1 && r->Ok_0.0.0 == raw_value@[0],
//@end
}
//@consts stun_rs :: mod attributes > mod turn > mod requested_transport
//@item! stun_rs :: mod attributes > mod turn > mod requested_transport > struct RequestedTrasport
impl StunAttributeType for RequestedTrasport {
    open spec fn spec_type() -> u16 { 0x0019 }
//@item stun_rs :: mod attributes > mod turn > mod requested_transport > impl crate::attributes::StunAttributeType for RequestedTrasport > fn get_type
//@tags C02 C01
//@end
//@item stun_rs :: mod attributes > mod turn > mod requested_transport > impl crate::attributes::StunAttributeType for RequestedTrasport > fn attribute_type
//@tags C02 C01
//@end
}
impl RequestedTrasport {
//@item stun_rs :: mod attributes > mod turn > mod requested_transport > impl RequestedTrasport > fn new
//@tags C19
//@spec
    ensures r.0 == protocol,
//@end
//@item stun_rs :: mod attributes > mod turn > mod requested_transport > impl RequestedTrasport > fn protocol
//@tags C19
//@spec
    ensures r == self.0,
//@end
}
impl EncodeAttributeValue for RequestedTrasport {
    open spec fn post_wire(&self, enc: Seq<u8>, val: Seq<u8>) -> Seq<u8> { val }
    open spec fn post_ok(&self, enc: Seq<u8>, val: Seq<u8>) -> bool { true }
    // the provided method of the trait (nothing to do after the length is known), as instantiated for this kind
//@item stun_rs :: mod attributes > trait EncodeAttributeValue > fn post_encode
//@tags C02 C14 C01
//@end
    open spec fn wire(&self, enc: Seq<u8>) -> Seq<u8> { seq![self.0.0, 0u8, 0u8, 0u8] }
    open spec fn encodable(&self, enc: Seq<u8>) -> bool { true }
//@item stun_rs :: mod attributes > mod turn > mod requested_transport > impl EncodeAttributeValue for RequestedTrasport > fn encode
//@tags C01 C02 C14 C03
//@rules R5P
//@stmt "Ok(REQUESTED_TRANSPORT_SIZE)"
    proof { assert(raw_value@.subrange(0, 4) =~= seq![self.0.0, 0u8, 0u8, 0u8]); }
//@end
}
impl DecodeAttributeValue for RequestedTrasport {
    open spec fn unwire(raw: Seq<u8>, prefix: Seq<u8>) -> Option<Self> {
        if raw.len() >= 4 { Some(RequestedTrasport(ProtocolNumber(raw[0]))) } else { None }
    }
//@item stun_rs :: mod attributes > mod turn > mod requested_transport > impl DecodeAttributeValue for RequestedTrasport > fn decode
//@tags C01 C02 C03 C19
//@end
}
// props: C01 C02
proof fn lemma_roundtrip_RequestedTrasport(x: RequestedTrasport, enc: Seq<u8>)
    ensures RequestedTrasport::unwire(x.wire(enc), enc) == Some(x),
{
}

// ---------------------------------------------------------------- RESERVATION-TOKEN (RFC 8656 18.9): 8 opaque bytes
//@consts stun_rs :: mod attributes > mod turn > mod reservation_token
//@item! stun_rs :: mod attributes > mod turn > mod reservation_token > struct ReservationToken
impl StunAttributeType for ReservationToken {
    open spec fn spec_type() -> u16 { 0x0022 }
//@item stun_rs :: mod attributes > mod turn > mod reservation_token > impl crate::attributes::StunAttributeType for ReservationToken > fn get_type
//@tags C02 C01
//@end
//@item stun_rs :: mod attributes > mod turn > mod reservation_token > impl crate::attributes::StunAttributeType for ReservationToken > fn attribute_type
//@tags C02 C01
//@end
}
impl ReservationToken {
//@item stun_rs :: mod attributes > mod turn > mod reservation_token > impl ReservationToken > fn token
//@tags C19
//@spec
    ensures r@ == self.0@,
//@end
}
impl vstd::std_specs::convert::FromSpecImpl<&[u8; 8]> for ReservationToken {
    open spec fn obeys_from_spec() -> bool { true }
    open spec fn from_spec(v: &[u8; 8]) -> Self { ReservationToken(*v) }
}
impl From<&[u8; RESERVATION_TOKEN_SIZE]> for ReservationToken {
//@item stun_rs :: mod attributes > mod turn > mod reservation_token > impl From<&[u8; RESERVATION_TOKEN_SIZE]> for ReservationToken > fn from
//@tags C19
//@spec
    ensures r.0 == *buff,
//@end
}
impl vstd::std_specs::convert::FromSpecImpl<[u8; 8]> for ReservationToken {
    open spec fn obeys_from_spec() -> bool { true }
    open spec fn from_spec(v: [u8; 8]) -> Self { ReservationToken(v) }
}
impl From<[u8; RESERVATION_TOKEN_SIZE]> for ReservationToken {
//@item stun_rs :: mod attributes > mod turn > mod reservation_token > impl From<[u8; RESERVATION_TOKEN_SIZE]> for ReservationToken > fn from
//@tags C19
//@spec
    ensures r.0 == buff,
//@end
}
impl EncodeAttributeValue for ReservationToken {
    open spec fn post_wire(&self, enc: Seq<u8>, val: Seq<u8>) -> Seq<u8> { val }
    open spec fn post_ok(&self, enc: Seq<u8>, val: Seq<u8>) -> bool { true }
    // the provided method of the trait (nothing to do after the length is known), as instantiated for this kind
//@item stun_rs :: mod attributes > trait EncodeAttributeValue > fn post_encode
//@tags C02 C14 C01
//@end
    open spec fn wire(&self, enc: Seq<u8>) -> Seq<u8> { self.0@ }
    open spec fn encodable(&self, enc: Seq<u8>) -> bool { true }
//@item stun_rs :: mod attributes > mod turn > mod reservation_token > impl EncodeAttributeValue for ReservationToken > fn encode
//@tags C01 C02 C14
//@rules R5P
//@end
}
impl DecodeAttributeValue for ReservationToken {
    open spec fn unwire(raw: Seq<u8>, prefix: Seq<u8>) -> Option<Self> {
        if raw.len() >= 8 { Some(choose|t: ReservationToken| t.0@ == raw.subrange(0, 8)) } else { None }
    }
//@item stun_rs :: mod attributes > mod turn > mod reservation_token > impl DecodeAttributeValue for ReservationToken > fn decode
//@tags C01 C02 C03 C19
//@stmt "Ok((ReservationToken::from(token), RESERVATION_TOKEN_SIZE))"
    proof {
        // an array is determined by its elements
        let t0 = ReservationToken(*token);
        let t1 = choose|t: ReservationToken| t.0@ == ctx.raw_value@.subrange(0, 8);
        assert(t0.0@ == ctx.raw_value@.subrange(0, 8));
        assert(t1.0@ =~= t0.0@);
        vstd::array::axiom_array_ext_equal(t1.0, t0.0);
    }
//@end
}
// props: C01 C02
proof fn lemma_roundtrip_ReservationToken(x: ReservationToken, enc: Seq<u8>)
    ensures ReservationToken::unwire(x.wire(enc), enc) == Some(x),
{
    let t1 = choose|t: ReservationToken| t.0@ == x.wire(enc).subrange(0, 8);
    assert(x.wire(enc).subrange(0, 8) =~= x.0@);
    assert(t1.0@ =~= x.0@);
    vstd::array::axiom_array_ext_equal(t1.0, x.0);
}

// ---------------------------------------------------------------- ICMP (RFC 8656 18.13): reserved(16)=0 | type(7) code(9) | error data(32)
// crate bounded_integer: BoundedU8<MIN, MAX> / BoundedU16<MIN, MAX> hold an integer in MIN..=MAX (trusted shim of its documented API)
#[verifier::external_body]
pub struct BoundedU8<const MIN: u8, const MAX: u8> { _v: u8 }
impl<const MIN: u8, const MAX: u8> BoundedU8<MIN, MAX> {
    pub uninterp spec fn val(&self) -> u8;
    #[verifier::external_body]
    pub fn new(v: u8) -> (r: Option<Self>)
        ensures r is Some <==> MIN <= v <= MAX, r is Some ==> r->Some_0.val() == v,
    { unimplemented!() }
    #[verifier::external_body]
    pub fn get(self) -> (r: u8) ensures r == self.val(), MIN <= r <= MAX { unimplemented!() }
}
impl<const MIN: u8, const MAX: u8> Clone for BoundedU8<MIN, MAX> { #[verifier::external_body] fn clone(&self) -> (r: Self) ensures r == *self { unimplemented!() } }
impl<const MIN: u8, const MAX: u8> Copy for BoundedU8<MIN, MAX> {}
impl<const MIN: u8, const MAX: u8> vstd::std_specs::convert::FromSpecImpl<BoundedU8<MIN, MAX>> for u16 {
    open spec fn obeys_from_spec() -> bool { true }
    open spec fn from_spec(v: BoundedU8<MIN, MAX>) -> Self { v.val() as u16 }
}
impl<const MIN: u8, const MAX: u8> From<BoundedU8<MIN, MAX>> for u16 {
    #[verifier::external_body]
    fn from(v: BoundedU8<MIN, MAX>) -> (r: u16) ensures r == v.val() as u16, MIN <= v.val() <= MAX { unimplemented!() }
}
#[verifier::external_body]
pub struct BoundedU16<const MIN: u16, const MAX: u16> { _v: u16 }
impl<const MIN: u16, const MAX: u16> BoundedU16<MIN, MAX> {
    pub uninterp spec fn val(&self) -> u16;
    #[verifier::external_body]
    pub fn new(v: u16) -> (r: Option<Self>)
        ensures r is Some <==> MIN <= v <= MAX, r is Some ==> r->Some_0.val() == v,
    { unimplemented!() }
    #[verifier::external_body]
    pub fn get(self) -> (r: u16) ensures r == self.val(), MIN <= r <= MAX { unimplemented!() }
}
impl<const MIN: u16, const MAX: u16> Clone for BoundedU16<MIN, MAX> { #[verifier::external_body] fn clone(&self) -> (r: Self) ensures r == *self { unimplemented!() } }
impl<const MIN: u16, const MAX: u16> Copy for BoundedU16<MIN, MAX> {}
impl<const MIN: u16, const MAX: u16> vstd::std_specs::convert::FromSpecImpl<BoundedU16<MIN, MAX>> for u16 {
    open spec fn obeys_from_spec() -> bool { true }
    open spec fn from_spec(v: BoundedU16<MIN, MAX>) -> Self { v.val() }
}
impl<const MIN: u16, const MAX: u16> From<BoundedU16<MIN, MAX>> for u16 {
    #[verifier::external_body]
    fn from(v: BoundedU16<MIN, MAX>) -> (r: u16) ensures r == v.val(), MIN <= v.val() <= MAX { unimplemented!() }
}
// a bounded integer is its value (the crate's types are transparent wrappers)
#[verifier::external_body]
pub broadcast proof fn axiom_bounded_u8_ext<const MIN: u8, const MAX: u8>(a: BoundedU8<MIN, MAX>, b: BoundedU8<MIN, MAX>)
    ensures #[trigger] a.val() == #[trigger] b.val() ==> a == b, MIN <= a.val() <= MAX,
{}
#[verifier::external_body]
pub broadcast proof fn axiom_bounded_u16_ext<const MIN: u16, const MAX: u16>(a: BoundedU16<MIN, MAX>, b: BoundedU16<MIN, MAX>)
    ensures #[trigger] a.val() == #[trigger] b.val() ==> a == b, MIN <= a.val() <= MAX,
{}
//@consts stun_rs :: mod attributes > mod turn > mod icmp
//@item! stun_rs :: mod attributes > mod turn > mod icmp > type IcmpType
//@item! stun_rs :: mod attributes > mod turn > mod icmp > type IcmpCode
//@item! stun_rs :: mod attributes > mod turn > mod icmp > struct Icmp
impl StunAttributeType for Icmp {
    open spec fn spec_type() -> u16 { 0x8004 }
//@item stun_rs :: mod attributes > mod turn > mod icmp > impl crate::attributes::StunAttributeType for Icmp > fn get_type
//@tags C02 C01
//@end
//@item stun_rs :: mod attributes > mod turn > mod icmp > impl crate::attributes::StunAttributeType for Icmp > fn attribute_type
//@tags C02 C01
//@end
}
impl Icmp {
//@item stun_rs :: mod attributes > mod turn > mod icmp > impl Icmp > fn new
//@tags C19
//@spec
    ensures r.icmp_type == icmp_type, r.icmp_code == icmp_code, r.error_data == error_data,
//@end
//@item stun_rs :: mod attributes > mod turn > mod icmp > impl Icmp > fn icmp_type
//@tags C19
//@spec
    ensures r == self.icmp_type,
//@end
//@item stun_rs :: mod attributes > mod turn > mod icmp > impl Icmp > fn icmp_code
//@tags C19
//@spec
    ensures r == self.icmp_code,
//@end
//@item stun_rs :: mod attributes > mod turn > mod icmp > impl Icmp > fn error_data
//@tags C19
//@spec
    ensures r@ == self.error_data@,
//@end
}
pub open spec fn icmp_word(t: int, c: int) -> int { t * 512 + c }
impl EncodeAttributeValue for Icmp {
    open spec fn post_wire(&self, enc: Seq<u8>, val: Seq<u8>) -> Seq<u8> { val }
    open spec fn post_ok(&self, enc: Seq<u8>, val: Seq<u8>) -> bool { true }
    // the provided method of the trait (nothing to do after the length is known), as instantiated for this kind
//@item stun_rs :: mod attributes > trait EncodeAttributeValue > fn post_encode
//@tags C02 C14 C01
//@end
    open spec fn wire(&self, enc: Seq<u8>) -> Seq<u8> {
        seq![0u8, 0u8] + be16_seq(icmp_word(self.icmp_type.val() as int, self.icmp_code.val() as int)) + self.error_data@
    }
    open spec fn encodable(&self, enc: Seq<u8>) -> bool { true }
//@item stun_rs :: mod attributes > mod turn > mod icmp > impl EncodeAttributeValue for Icmp > fn encode
//@tags C01 C02 C14
//@rules R5P
//@head
    broadcast use axiom_bounded_u8_ext, axiom_bounded_u16_ext;
//@before "icmp.encode("
    proof {
        lemma_bitops_commute();
        assert(icmp_type <= 127 && icmp_code <= 511);
        assert(((icmp_type << 9) | icmp_code) == icmp_type * 512 + icmp_code) by (bit_vector) requires icmp_type <= 127, icmp_code <= 511;
        // (bitwise or is commutative: the fact above serves whichever way round the code writes the two operands)
        assert(forall|x: u16, y: u16| #[trigger] (x | y) == (y | x)) by (bit_vector);
    }
//@stmt "Ok(ICMP_SIZE)"
    proof {
        assert(raw_value@.subrange(2, 4) == be16_seq(icmp as int));
        assert(raw_value@.subrange(0, 8) =~= seq![0u8, 0u8] + raw_value@.subrange(2, 4) + self.error_data@);
    }
//@end
}
impl DecodeAttributeValue for Icmp {
    open spec fn unwire(raw: Seq<u8>, prefix: Seq<u8>) -> Option<Self> {
        if raw.len() >= 8 {
            let w = be16(raw.subrange(2, 4));
            Some(choose|x: Icmp| x.icmp_type.val() == w / 512 && x.icmp_code.val() == w % 512 && x.error_data@ == raw.subrange(4, 8))
        } else { None }
    }
//@item stun_rs :: mod attributes > mod turn > mod icmp > impl DecodeAttributeValue for Icmp > fn decode
//@tags C01 C02 C03 C19
//@head
    broadcast use axiom_bounded_u8_ext, axiom_bounded_u16_ext;
//@before "let icmp_type"
    proof {
        lemma_bitops_commute();
        // (stated width-independently: a change of the word's integer type must fail the postcondition, not this hint)
        assert(icmp >> 9 == icmp / 512 && 0x01ff & icmp == icmp % 512 && 0x01ff & icmp <= 511) by (bit_vector);
        assert(icmp <= 0xffff ==> icmp >> 9 <= 127) by (bit_vector);
        assert(raw_value@.subrange(2, 4) =~= ctx.raw_value@.subrange(2, 4));
    }
//@stmt "Ok((Icmp::new(icmp_type, icmp_code, error_data), ICMP_SIZE))"
    proof {
        let x0 = Icmp { icmp_type, icmp_code, error_data };
        let w = be16(ctx.raw_value@.subrange(2, 4));
        let x1 = choose|x: Icmp| x.icmp_type.val() == w / 512 && x.icmp_code.val() == w % 512 && x.error_data@ == ctx.raw_value@.subrange(4, 8);
        assert(x0.icmp_type.val() == w / 512 && x0.icmp_code.val() == w % 512 && x0.error_data@ == ctx.raw_value@.subrange(4, 8));
        assert(x1.error_data@ =~= x0.error_data@);
        vstd::array::axiom_array_ext_equal(x1.error_data, x0.error_data);
    }
//@end
}
// props: C01 C02
proof fn lemma_roundtrip_Icmp(x: Icmp, enc: Seq<u8>)
    ensures Icmp::unwire(x.wire(enc), enc) == Some(x),
{
    broadcast use axiom_bounded_u8_ext, axiom_bounded_u16_ext;
    let raw = x.wire(enc);
    let t = x.icmp_type.val() as int;
    let c = x.icmp_code.val() as int;
    axiom_bounded_u8_ext(x.icmp_type, x.icmp_type);
    axiom_bounded_u16_ext(x.icmp_code, x.icmp_code);
    lemma_be16_roundtrip(icmp_word(t, c));
    assert(raw.subrange(2, 4) =~= be16_seq(icmp_word(t, c)));
    assert(raw.subrange(4, 8) =~= x.error_data@);
    let w = be16(raw.subrange(2, 4));
    assert(w / 512 == t && w % 512 == c);
    let x1 = choose|y: Icmp| y.icmp_type.val() == w / 512 && y.icmp_code.val() == w % 512 && y.error_data@ == raw.subrange(4, 8);
    assert(x1.error_data@ =~= x.error_data@);
    vstd::array::axiom_array_ext_equal(x1.error_data, x.error_data);
}

// ---------------------------------------------------------------- ADDRESS-ERROR-CODE (RFC 8656 18.12): family(8) reserved(13) class(3) number(8) reason
//@item! stun_rs :: mod attributes > mod turn > mod address_error_code > struct AddressErrorCode
//@consts stun_rs :: mod attributes > mod turn > mod address_error_code
impl StunAttributeType for AddressErrorCode {
    open spec fn spec_type() -> u16 { 0x8001 }
//@item stun_rs :: mod attributes > mod turn > mod address_error_code > impl crate::attributes::StunAttributeType for AddressErrorCode > fn get_type
//@tags C02 C01
//@end
//@item stun_rs :: mod attributes > mod turn > mod address_error_code > impl crate::attributes::StunAttributeType for AddressErrorCode > fn attribute_type
//@tags C02 C01
//@end
}
impl AddressErrorCode {
//@item stun_rs :: mod attributes > mod turn > mod address_error_code > impl AddressErrorCode > fn new
//@tags C19
//@spec
    ensures r.family == family, r.error_code == error_code,
//@end
//@item stun_rs :: mod attributes > mod turn > mod address_error_code > impl AddressErrorCode > fn family
//@tags C19
//@spec
    ensures r == self.family,
//@end
//@item stun_rs :: mod attributes > mod turn > mod address_error_code > impl AddressErrorCode > fn error_code
//@tags C19
//@spec
    ensures *r == self.error_code,
//@end
}
impl EncodeAttributeValue for AddressErrorCode {
    open spec fn post_wire(&self, enc: Seq<u8>, val: Seq<u8>) -> Seq<u8> { val }
    open spec fn post_ok(&self, enc: Seq<u8>, val: Seq<u8>) -> bool { true }
    // the provided method of the trait (nothing to do after the length is known), as instantiated for this kind
//@item stun_rs :: mod attributes > trait EncodeAttributeValue > fn post_encode
//@tags C02 C14 C01
//@end
    open spec fn wire(&self, enc: Seq<u8>) -> Seq<u8> {
        error_code_wire(self.error_code.code() as int, self.error_code.reason_chars()).update(0, family_code(self.family))
    }
    open spec fn encodable(&self, enc: Seq<u8>) -> bool { vstd::utf8::encode_utf8(self.error_code.reason_chars()).len() <= 509 }
//@item stun_rs :: mod attributes > mod turn > mod address_error_code > impl EncodeAttributeValue for AddressErrorCode > fn encode
//@tags C01 C02 C14
//@rules R5P
//@stmt "Ok(size)"
    proof {
        assert(raw_value@.subrange(0, size as int) =~= error_code_wire(self.error_code.code() as int, self.error_code.reason_chars()).update(0, family_code(self.family)));
    }
//@end
}
impl DecodeAttributeValue for AddressErrorCode {
    open spec fn unwire(raw: Seq<u8>, prefix: Seq<u8>) -> Option<Self> {
        if raw.len() >= 1 && family_of(raw[0]) is Some && error_code_unwire(raw) is Some {
            Some(AddressErrorCode { family: family_of(raw[0])->Some_0, error_code: error_code_unwire(raw)->Some_0 })
        } else { None }
    }
//@item stun_rs :: mod attributes > mod turn > mod address_error_code > impl DecodeAttributeValue for AddressErrorCode > fn decode
//@tags C01 C02 C03 C19
//@stmt "Ok((AddressErrorCode::new(family, error_code), size))"
    proof { lemma_error_code_unwire_unique(ctx.raw_value@, error_code); }
//@end
}

// props: C01 C02
proof fn lemma_roundtrip_AddressErrorCode(x: AddressErrorCode, enc: Seq<u8>)
    requires x.encodable(enc), 300 <= x.error_code.code() < 700,
    ensures AddressErrorCode::unwire(x.wire(enc), enc) == Some(x),
{
    lemma_error_code_roundtrip(x.error_code);
    let w = error_code_wire(x.error_code.code() as int, x.error_code.reason_chars());
    let raw = x.wire(enc);
    assert(raw.len() == w.len() && raw[2] == w[2] && raw[3] == w[3]);
    assert(raw.subrange(4, raw.len() as int) =~= w.subrange(4, w.len() as int));
    assert(w.subrange(4, w.len() as int) =~= vstd::utf8::encode_utf8(x.error_code.reason_chars()));
    vstd::utf8::encode_utf8_valid_utf8(x.error_code.reason_chars());
    // the family byte does not take part in the ERROR-CODE reading
    assert(error_code_unwire(raw) is Some);
    lemma_error_code_unwire_unique(raw, x.error_code);
    assert(family_of(family_code(x.family)) == Some(x.family));
}
