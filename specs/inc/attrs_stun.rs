// ===== inc/attrs_stun.rs : STUN core attribute kinds (RFC 8489 section 14)
// ---------------------------------------------------------------- ERROR-CODE (RFC 8489 14.8)
// (own module: the attribute and the value type are both called ErrorCode in the real code)
pub mod vx_error_code_attr {
    use super::*;
//@consts stun_rs :: mod attributes > mod stun > mod error_code
//@item! stun_rs :: mod attributes > mod stun > mod error_code > struct ErrorCode
impl StunAttributeType for ErrorCode {
    open spec fn spec_type() -> u16 { 0x0009 }
//@item stun_rs :: mod attributes > mod stun > mod error_code > impl crate::attributes::StunAttributeType for ErrorCode > fn get_type
//@tags C02 C01
//@end
//@item stun_rs :: mod attributes > mod stun > mod error_code > impl crate::attributes::StunAttributeType for ErrorCode > fn attribute_type
//@tags C02 C01
//@end
}
impl ErrorCode {
//@item stun_rs :: mod attributes > mod stun > mod error_code > impl ErrorCode > fn new
//@tags C19
//@spec
    ensures r.0 == error_code,
//@end
//@item stun_rs :: mod attributes > mod stun > mod error_code > impl ErrorCode > fn error_code
//@tags C19
//@spec
    ensures *r == self.0,
//@end
}
impl EncodeAttributeValue for ErrorCode {
    open spec fn wire(&self, enc: Seq<u8>) -> Seq<u8> { error_code_wire(self.0.code() as int, self.0.reason_chars()) }
    // the reason phrase is at most 509 bytes on the wire
    open spec fn encodable(&self, enc: Seq<u8>) -> bool { vstd::utf8::encode_utf8(self.0.reason_chars()).len() <= 509 }
//@item stun_rs :: mod attributes > mod stun > mod error_code > impl EncodeAttributeValue for ErrorCode > fn encode
//@tags C01 C02 C14
//@rules R5P
//@end
}
impl DecodeAttributeValue for ErrorCode {
    open spec fn unwire(raw: Seq<u8>, prefix: Seq<u8>) -> Option<Self> {
        match error_code_unwire(raw) { Some(e) => Some(ErrorCode(e)), None => None }
    }
//@item stun_rs :: mod attributes > mod stun > mod error_code > impl DecodeAttributeValue for ErrorCode > fn decode
//@tags C01 C02 C03 C19
//@stmt "Ok((ErrorCode::new(error), size))"
    proof { lemma_error_code_unwire_unique(ctx.raw_value@, error); }
//@end
}
} // mod vx_error_code_attr
pub use vx_error_code_attr::ErrorCode as ErrorCodeAttr;
