// ===== inc/attrs_stun.rs : STUN core attribute kinds (RFC 8489 section 14)
// ---------------------------------------------------------------- ERROR-CODE (RFC 8489 14.8)
// (own module: the attribute and the value type are both called ErrorCode in the real code)
pub mod vx_error_code_attr {
    use super::*;
//@consts stun_rs :: mod attributes > mod stun > mod error_code
//@item! stun_rs :: mod attributes > mod stun > mod error_code > struct ErrorCode
impl StunAttributeType for ErrorCode {
    open spec fn spec_type() -> u16 { 0x0009 }
//@item stun_rs :: mod attributes > mod stun > mod error_code > impl crate::attributes::StunAttributeType for ErrorCode > fn get_type
//@tags C02 C01
//@end
//@item stun_rs :: mod attributes > mod stun > mod error_code > impl crate::attributes::StunAttributeType for ErrorCode > fn attribute_type
//@tags C02 C01
//@end
}
impl ErrorCode {
//@item stun_rs :: mod attributes > mod stun > mod error_code > impl ErrorCode > fn new
//@tags C19
//@spec
    ensures r.0 == error_code,
//@end
//@item stun_rs :: mod attributes > mod stun > mod error_code > impl ErrorCode > fn error_code
//@tags C19
//@spec
    ensures *r == self.0,
//@end
}
impl EncodeAttributeValue for ErrorCode {
    open spec fn post_wire(&self, enc: Seq<u8>, val: Seq<u8>) -> Seq<u8> { val }
    open spec fn post_ok(&self, enc: Seq<u8>, val: Seq<u8>) -> bool { true }
    // the provided method of the trait (nothing to do after the length is known), as instantiated for this kind
//@item stun_rs :: mod attributes > trait EncodeAttributeValue > fn post_encode
//@tags C02 C14 C01
//@end
    open spec fn wire(&self, enc: Seq<u8>) -> Seq<u8> { error_code_wire(self.0.code() as int, self.0.reason_chars()) }
    // the reason phrase is at most 509 bytes on the wire
    open spec fn encodable(&self, enc: Seq<u8>) -> bool { vstd::utf8::encode_utf8(self.0.reason_chars()).len() <= 509 }
//@item stun_rs :: mod attributes > mod stun > mod error_code > impl EncodeAttributeValue for ErrorCode > fn encode
//@tags C01 C02 C14
//@rules R5P
//@end
}
impl DecodeAttributeValue for ErrorCode {
    open spec fn unwire(raw: Seq<u8>, prefix: Seq<u8>) -> Option<Self> {
        match error_code_unwire(raw) { Some(e) => Some(ErrorCode(e)), None => None }
    }
//@item stun_rs :: mod attributes > mod stun > mod error_code > impl DecodeAttributeValue for ErrorCode > fn decode
//@tags C01 C02 C03 C19
//@stmt "Ok((ErrorCode::new(error), size))"
    proof { lemma_error_code_unwire_unique(ctx.raw_value@, error); }
//@end
}
// props: C01 C02
pub proof fn lemma_roundtrip_ErrorCode(x: ErrorCode, enc: Seq<u8>)
    requires x.encodable(enc), 300 <= x.0.code() < 700,
    ensures ErrorCode::unwire(x.wire(enc), enc) == Some(x),
{
    lemma_error_code_roundtrip(x.0);
}
} // mod vx_error_code_attr
pub use vx_error_code_attr::ErrorCode as ErrorCodeAttr;

// ---------------------------------------------------------------- USERHASH (RFC 8489 14.4): 32 bytes (SHA-256 of "user:realm")
//@consts stun_rs :: mod attributes > mod stun > mod user_hash
//@item! stun_rs :: mod attributes > mod stun > mod user_hash > struct UserHash
impl StunAttributeType for UserHash {
    open spec fn spec_type() -> u16 { 0x001E }
//@item stun_rs :: mod attributes > mod stun > mod user_hash > impl crate::attributes::StunAttributeType for UserHash > fn get_type
//@tags C02 C01
//@end
//@item stun_rs :: mod attributes > mod stun > mod user_hash > impl crate::attributes::StunAttributeType for UserHash > fn attribute_type
//@tags C02 C01
//@end
}
pub open spec fn vx_arc_arr32(s: Seq<u8>) -> Arc<[u8; 32]> { choose|a: Arc<[u8; 32]>| a@ == s }
#[verifier::external_body]
pub proof fn axiom_arc_arr32_ext(a: Arc<[u8; 32]>, b: Arc<[u8; 32]>)
    ensures a@ == b@ ==> a == b,
{}
impl UserHash {
//@item stun_rs :: mod attributes > mod stun > mod user_hash > impl UserHash > fn hash
//@tags C19
//@spec
    ensures r@ == self.0@,
//@end
}
impl EncodeAttributeValue for UserHash {
    open spec fn post_wire(&self, enc: Seq<u8>, val: Seq<u8>) -> Seq<u8> { val }
    open spec fn post_ok(&self, enc: Seq<u8>, val: Seq<u8>) -> bool { true }
    // the provided method of the trait (nothing to do after the length is known), as instantiated for this kind
//@item stun_rs :: mod attributes > trait EncodeAttributeValue > fn post_encode
//@tags C02 C14 C01
//@end
    open spec fn wire(&self, enc: Seq<u8>) -> Seq<u8> { self.0@ }
    open spec fn encodable(&self, enc: Seq<u8>) -> bool { true }
//@item stun_rs :: mod attributes > mod stun > mod user_hash > impl EncodeAttributeValue for UserHash > fn encode
//@tags C01 C02 C14
//@rules R5P
//@stmt "Ok(len)"
    proof { assert(raw_value@.subrange(0, len as int) =~= self.0@); }
//@end
}
impl DecodeAttributeValue for UserHash {
    open spec fn unwire(raw: Seq<u8>, prefix: Seq<u8>) -> Option<Self> {
        if raw.len() == 32 { Some(UserHash(vx_arc_arr32(raw))) } else { None }
    }
//@item stun_rs :: mod attributes > mod stun > mod user_hash > impl DecodeAttributeValue for UserHash > fn decode
//@tags C01 C02 C03 C19
//@closure 1
|| -> (t: (Self, usize))
    requires raw_value@.len() == 32,
    ensures t.0.0@ == raw_value@ && t.1 == 32,
//@before "(Self(Arc::new(vec)), raw_value.len())"
    proof { assert(vec@ =~= raw_value@); }
//@tail
    proof { assert forall|a: Arc<[u8; 32]>| #[trigger] a@ == ctx.raw_value@ implies a == vx_arc_arr32(ctx.raw_value@) by { axiom_arc_arr32_ext(a, vx_arc_arr32(ctx.raw_value@)); } }
//@end
}
// props: C01 C02
proof fn lemma_roundtrip_UserHash(x: UserHash, enc: Seq<u8>)
    ensures UserHash::unwire(x.wire(enc), enc) == Some(x),
{
    axiom_arc_arr32_ext(x.0, vx_arc_arr32(x.0@));
}

// ---------------------------------------------------------------- UNKNOWN-ATTRIBUTES (RFC 8489 14.10): list of 16-bit attribute types
// (the no-duplicates invariant established by `add` is carried as `no_dups(list)`: a Verus type invariant cannot be used
// because `Arc::make_mut(&mut self.attrs).push(..)` mutates the field through a returned reference)
pub open spec fn ua_add(s: Seq<u16>, v: u16) -> Seq<u16> { if s.contains(v) { s } else { s.push(v) } }
pub open spec fn ua_fold(vals: Seq<u16>, k: int) -> Seq<u16>
    decreases k
{
    if k <= 0 { Seq::empty() } else { ua_add(ua_fold(vals, k - 1), vals[k - 1]) }
}
pub open spec fn ua_vals(raw: Seq<u8>) -> Seq<u16> { Seq::new(raw.len() / 2, |k: int| be16(raw.subrange(2 * k, 2 * k + 2)) as u16) }
pub open spec fn ua_wire(list: Seq<u16>) -> Seq<u8> { Seq::new(2 * list.len(), |j: int| be16_seq(list[j / 2] as int)[j % 2]) }
pub open spec fn no_dups(s: Seq<u16>) -> bool { forall|i: int, j: int| 0 <= i < j < s.len() ==> s[i] != s[j] }
pub mod vx_unknown_attributes {
    use super::*;
//@consts stun_rs :: mod attributes > mod stun > mod unknown_attributes
//@item stun_rs :: mod attributes > mod stun > mod unknown_attributes > struct UnknownAttributes
//@rules KEEPPRIV
//@end
impl StunAttributeType for UnknownAttributes {
    open spec fn spec_type() -> u16 { 0x000A }
//@item stun_rs :: mod attributes > mod stun > mod unknown_attributes > impl crate::attributes::StunAttributeType for UnknownAttributes > fn get_type
//@tags C02 C01
//@end
//@item stun_rs :: mod attributes > mod stun > mod unknown_attributes > impl crate::attributes::StunAttributeType for UnknownAttributes > fn attribute_type
//@tags C02 C01
//@end
}
impl Default for UnknownAttributes {
//@item stun_rs :: mod attributes > mod stun > mod unknown_attributes > impl ::core::default::Default for UnknownAttributes > fn default
//@tags C19
//@spec
    ensures r.list() == Seq::<u16>::empty(),
//@end
}
impl UnknownAttributes {
    pub closed spec fn list(self) -> Seq<u16> { self.attrs@ }
    pub proof fn lemma_ext(a: Self, b: Self) requires a.list() == b.list() ensures a == b { axiom_arc_vec16_ext(a.attrs, b.attrs); }
//@item stun_rs :: mod attributes > mod stun > mod unknown_attributes > impl UnknownAttributes > fn add
//@tags C19 C01
//@subopt "Arc::make_mut(" => "vx_arc_make_mut("
//@subopt "Arc::get_mut(" => "vx_arc_get_mut("
//@spec
    // never panics (also on a clone: copy-on-write), keeps the list duplicate-free and in first-insertion order
    ensures final(self).list() == ua_add(old(self).list(), value), no_dups(old(self).list()) ==> no_dups(final(self).list()),
//@stmt "(&mut self.attrs)"
    proof {
        assert(!self.attrs@.contains(value));
        assert(no_dups(self.attrs@) ==> no_dups(self.attrs@.push(value)));
    }
//@end
//@item stun_rs :: mod attributes > mod stun > mod unknown_attributes > impl UnknownAttributes > fn attributes
//@tags C19
//@spec
    ensures r@ == self.list(),
//@end
}
impl vstd::std_specs::convert::FromSpecImpl<&[u16]> for UnknownAttributes {
    open spec fn obeys_from_spec() -> bool { false }
    open spec fn from_spec(v: &[u16]) -> Self { arbitrary() }
}
impl From<&[u16]> for UnknownAttributes {
//@item stun_rs :: mod attributes > mod stun > mod unknown_attributes > impl From<&[u16]> for UnknownAttributes > fn from
//@tags C19
//@rules R3F R4N
//@spec
    ensures r.list() == ua_fold(v@, v@.len() as int), no_dups(r.list()),
//@loop 1
    invariant vx_it0.history@.len() <= v@.len(),
        forall|i: int| 0 <= i < vx_it0.history@.len() ==> *vx_it0.history@[i] == v@[i],
        attr.list() == ua_fold(v@, vx_it0.history@.len() as int), no_dups(attr.list()),
//@end
}
impl EncodeAttributeValue for UnknownAttributes {
    open spec fn post_wire(&self, enc: Seq<u8>, val: Seq<u8>) -> Seq<u8> { val }
    open spec fn post_ok(&self, enc: Seq<u8>, val: Seq<u8>) -> bool { true }
    // the provided method of the trait (nothing to do after the length is known), as instantiated for this kind
//@item stun_rs :: mod attributes > trait EncodeAttributeValue > fn post_encode
//@tags C02 C14 C01
//@end
    open spec fn wire(&self, enc: Seq<u8>) -> Seq<u8> { ua_wire(self.list()) }
    open spec fn encodable(&self, enc: Seq<u8>) -> bool { true }
//@item stun_rs :: mod attributes > mod stun > mod unknown_attributes > impl EncodeAttributeValue for UnknownAttributes > fn encode
//@tags C01 C02 C14 C03
//@rules R5P R3F R3
//@head
    proof { axiom_vec16_len_limit(&*self.attrs); }
    let ghost raw0 = ctx.raw_value@;
//@loop 1
    invariant vx_s0@ == self.attrs@, i <= vx_s0@.len(), len == 2 * vx_s0@.len(), raw_value@.len() == raw0.len(), raw_value@.len() >= len,
        forall|j: int| 0 <= j < 2 * i ==> raw_value@[j] == ua_wire(self.attrs@)[j],
        forall|j: int| 2 * i <= j < raw0.len() ==> raw_value@[j] == raw0[j],
    decreases vx_s0@.len() - i,
//@stmt "Ok(len)"
    proof { assert(raw_value@.subrange(0, len as int) =~= ua_wire(self.attrs@)); }
//@end
}
impl DecodeAttributeValue for UnknownAttributes {
    // duplicates on the wire collapse (a set in first-occurrence order)
    open spec fn unwire(raw: Seq<u8>, prefix: Seq<u8>) -> Option<Self> {
        if raw.len() % 2 == 0 { Some(choose|u: UnknownAttributes| u.list() == ua_fold(ua_vals(raw), raw.len() as int / 2)) } else { None }
    }
//@item stun_rs :: mod attributes > mod stun > mod unknown_attributes > impl DecodeAttributeValue for UnknownAttributes > fn decode
//@tags C01 C02 C03 C19
//@before "if raw_value.len() & 1 != 0"
    proof { lemma_bitops_commute(); }
    proof { let n = raw_value.len(); assert((n & 1 != 0) == (n % 2 != 0)) by (bit_vector); }
//@loop 1
    invariant raw_value@ == ctx.raw_value@, raw_value@.len() % 2 == 0,
        unknown_attr.list() == ua_fold(ua_vals(raw_value@), i as int), no_dups(unknown_attr.list()),
//@loopstart 1
    proof { assert(raw_value@.subrange(i * 2, raw_value@.len() as int).subrange(0, 2) =~= raw_value@.subrange(2 * i, 2 * i + 2)); }
//@stmt "Ok((unknown_attr, raw_value.len()))"
    proof {
        let u1 = choose|u: UnknownAttributes| u.list() == ua_fold(ua_vals(ctx.raw_value@), ctx.raw_value@.len() as int / 2);
        UnknownAttributes::lemma_ext(unknown_attr, u1);
    }
//@end
}
pub proof fn lemma_ua_fold_nodup(l: Seq<u16>, k: int)
    requires no_dups(l), 0 <= k <= l.len(),
    ensures ua_fold(l, k) == l.subrange(0, k),
    decreases k,
{
    if k > 0 {
        lemma_ua_fold_nodup(l, k - 1);
        let p = l.subrange(0, k - 1);
        assert(!p.contains(l[k - 1])) by {
            if p.contains(l[k - 1]) { let i = choose|i: int| 0 <= i < p.len() && p[i] == l[k - 1]; assert(l[i] == l[k - 1]); }
        }
        assert(p.push(l[k - 1]) =~= l.subrange(0, k));
    } else {
        assert(l.subrange(0, 0) =~= Seq::<u16>::empty());
    }
}
// props: C01 C02
pub proof fn lemma_roundtrip_UnknownAttributes(x: UnknownAttributes, enc: Seq<u8>)
    requires no_dups(x.list()),
    ensures UnknownAttributes::unwire(x.wire(enc), enc) == Some(x),
{
    let l = x.list();
    let raw = ua_wire(l);
    assert(ua_vals(raw) =~= l) by {
        assert forall|k: int| 0 <= k < l.len() implies ua_vals(raw)[k] == l[k] by {
            assert(raw.subrange(2 * k, 2 * k + 2) =~= be16_seq(l[k] as int));
            lemma_be16_roundtrip(l[k] as int);
        }
    }
    lemma_ua_fold_nodup(l, l.len() as int);
    assert(l.subrange(0, l.len() as int) =~= l);
    let u1 = choose|u: UnknownAttributes| u.list() == ua_fold(ua_vals(raw), raw.len() as int / 2);
    UnknownAttributes::lemma_ext(x, u1);
}
} // mod vx_unknown_attributes
pub use vx_unknown_attributes::UnknownAttributes;

// ---------------------------------------------------------------- PASSWORD-ALGORITHM (RFC 8489 14.12): algorithm(16) length(16) parameters
//@consts stun_rs :: mod attributes > mod stun > mod password_algorithm
//@item! stun_rs :: mod attributes > mod stun > mod password_algorithm > struct PasswordAlgorithm
impl StunAttributeType for PasswordAlgorithm {
    open spec fn spec_type() -> u16 { 0x001D }
//@item stun_rs :: mod attributes > mod stun > mod password_algorithm > impl crate::attributes::StunAttributeType for PasswordAlgorithm > fn get_type
//@tags C02 C01
//@end
//@item stun_rs :: mod attributes > mod stun > mod password_algorithm > impl crate::attributes::StunAttributeType for PasswordAlgorithm > fn attribute_type
//@tags C02 C01
//@end
}
impl PasswordAlgorithm {
//@item stun_rs :: mod attributes > mod stun > mod password_algorithm > impl PasswordAlgorithm > fn new
//@tags C19
//@spec
    ensures r.0 == algorithm,
//@end
//@item stun_rs :: mod attributes > mod stun > mod password_algorithm > impl PasswordAlgorithm > fn algorithm
//@tags C19
//@spec
    ensures r == self.0.algorithm,
//@end
//@item stun_rs :: mod attributes > mod stun > mod password_algorithm > impl PasswordAlgorithm > fn parameters
//@tags C19
//@spec
    ensures r is Some <==> self.0.params is Some, r is Some ==> r->Some_0@ == self.0.params->Some_0@,
//@end
}
pub open spec fn pa_plen(a: Algorithm) -> int { match a.params_view() { Some(p) => p.len() as int, None => 0 } }
pub open spec fn pa_wire(a: Algorithm) -> Seq<u8> {
    be16_seq(alg_code(a.algorithm) as int) + be16_seq(pa_plen(a)) + (match a.params_view() { Some(p) => p, None => Seq::<u8>::empty() })
}
pub open spec fn pa_unwire(raw: Seq<u8>) -> Option<Algorithm> {
    if raw.len() >= 4 && raw.len() >= 4 + be16(raw.subrange(2, 4)) {
        let n = be16(raw.subrange(2, 4));
        Some(Algorithm { algorithm: alg_of(be16(raw.subrange(0, 2)) as u16), params: if n > 0 { Some(vx_arc_vec(raw.subrange(4, 4 + n))) } else { None } })
    } else { None }
}
impl EncodeAttributeValue for PasswordAlgorithm {
    open spec fn post_wire(&self, enc: Seq<u8>, val: Seq<u8>) -> Seq<u8> { val }
    open spec fn post_ok(&self, enc: Seq<u8>, val: Seq<u8>) -> bool { true }
    // the provided method of the trait (nothing to do after the length is known), as instantiated for this kind
//@item stun_rs :: mod attributes > trait EncodeAttributeValue > fn post_encode
//@tags C02 C14 C01
//@end
    open spec fn wire(&self, enc: Seq<u8>) -> Seq<u8> { pa_wire(self.0) }
    open spec fn encodable(&self, enc: Seq<u8>) -> bool { pa_plen(self.0) <= 0xFFFF }
//@item stun_rs :: mod attributes > mod stun > mod password_algorithm > impl EncodeAttributeValue for PasswordAlgorithm > fn encode
//@tags C01 C02 C14 C03
//@rules R5P
//@head
    proof { if self.0.params is Some { axiom_vec_len_limit(&*self.0.params->Some_0); } }
//@stmt "Ok(len)"
    proof {
        assert(raw_value@.subrange(0, 2) == be16_seq(alg_code(self.0.algorithm) as int));
        assert(raw_value@.subrange(2, 4) == be16_seq(pa_plen(self.0)));
        assert(raw_value@.subrange(0, len as int) =~= pa_wire(self.0));
    }
//@end
}
impl DecodeAttributeValue for PasswordAlgorithm {
    open spec fn unwire(raw: Seq<u8>, prefix: Seq<u8>) -> Option<Self> {
        match pa_unwire(raw) { Some(a) => Some(PasswordAlgorithm(a)), None => None }
    }
//@item stun_rs :: mod attributes > mod stun > mod password_algorithm > impl DecodeAttributeValue for PasswordAlgorithm > fn decode
//@tags C01 C02 C03 C19
//@spec
    // (in addition to the trait contract) exactly the item is consumed, not what follows it
    ensures r is Ok ==> r->Ok_0.1 == 4 + pa_plen_wire(ctx.raw_value@),
//@stmt "Ok((Self(algorithm_param), size))"
    proof {
        assert(raw_value@.subrange(0, 2) =~= ctx.raw_value@.subrange(0, 2));
        if algorithm_param.params is Some { lemma_arc_vec(algorithm_param.params->Some_0); }
        lemma_algorithm_ext(algorithm_param, pa_unwire(ctx.raw_value@)->Some_0);
    }
//@end
}

// ---------------------------------------------------------------- PASSWORD-ALGORITHMS (RFC 8489 14.11): PASSWORD-ALGORITHM items, each but the
// last padded to a multiple of 4
//@consts stun_rs :: mod attributes > mod stun > mod password_algorithms
//@item! stun_rs :: mod attributes > mod stun > mod password_algorithms > struct PasswordAlgorithms
impl StunAttributeType for PasswordAlgorithms {
    open spec fn spec_type() -> u16 { 0x8002 }
//@item stun_rs :: mod attributes > mod stun > mod password_algorithms > impl crate::attributes::StunAttributeType for PasswordAlgorithms > fn get_type
//@tags C02 C01
//@end
//@item stun_rs :: mod attributes > mod stun > mod password_algorithms > impl crate::attributes::StunAttributeType for PasswordAlgorithms > fn attribute_type
//@tags C02 C01
//@end
}
impl Default for PasswordAlgorithms {
//@item stun_rs :: mod attributes > mod stun > mod password_algorithms > impl ::core::default::Default for PasswordAlgorithms > fn default
//@tags C19
//@spec
    ensures r.algorithms@ == Seq::<PasswordAlgorithm>::empty(),
//@end
}
impl Clone for PasswordAlgorithm {
//@item stun_rs :: mod attributes > mod stun > mod password_algorithm > impl ::core::clone::Clone for PasswordAlgorithm > fn clone
//@tags C19
//@end
}
impl Clone for Algorithm {
//@item stun_rs :: mod algorithm > impl ::core::clone::Clone for Algorithm > fn clone
//@tags C19
//@end
}
impl PasswordAlgorithms {
//@item stun_rs :: mod attributes > mod stun > mod password_algorithms > impl PasswordAlgorithms > fn add
//@tags C19 C01
//@subopt "Arc::make_mut(" => "vx_arc_make_mut("
//@subopt "Arc::get_mut(" => "vx_arc_get_mut("
//@spec
    // never panics, also when the value is a clone sharing its list (copy-on-write); the other copy is a different value
    ensures final(self).algorithms@ == old(self).algorithms@.push(algorithm),
//@end
//@item stun_rs :: mod attributes > mod stun > mod password_algorithms > impl PasswordAlgorithms > fn password_algorithms
//@tags C19
//@spec
    ensures r@ == self.algorithms@,
//@end
}
// the list a PASSWORD-ALGORITHMS value decodes to, reading from offset `off` after an item of length `prev`
pub open spec fn pas_unwire(raw: Seq<u8>, off: int, prev: int) -> Option<Seq<Algorithm>>
    decreases raw.len() - off
{
    if off < 0 || off >= raw.len() { Some(Seq::<Algorithm>::empty()) } else {
        let o2 = off + pad4(prev);
        if o2 > raw.len() { None } else {
            match pa_unwire(raw.subrange(o2, raw.len() as int)) {
                None => None,
                Some(a) => {
                    let l = 4 + pa_plen_wire(raw.subrange(o2, raw.len() as int));
                    match pas_unwire(raw, o2 + l, l) { None => None, Some(rest) => Some(seq![a] + rest) }
                }
            }
        }
    }
}
pub open spec fn pa_plen_wire(raw: Seq<u8>) -> int { be16(raw.subrange(2, 4)) }
pub open spec fn pas_algs(p: PasswordAlgorithms) -> Seq<Algorithm> { Seq::new(p.algorithms@.len(), |k: int| p.algorithms@[k].0) }
impl DecodeAttributeValue for PasswordAlgorithms {
    open spec fn unwire(raw: Seq<u8>, prefix: Seq<u8>) -> Option<Self> {
        match pas_unwire(raw, 0, 0) {
            Some(l) => Some(choose|p: PasswordAlgorithms| pas_algs(p) == l),
            None => None,
        }
    }
//@item stun_rs :: mod attributes > mod stun > mod password_algorithms > impl DecodeAttributeValue for PasswordAlgorithms > fn decode
//@tags C01 C02 C03 C19
//@before "let mut size = 0;"
    let ghost raw = ctx.raw_value@;
//@loop 1
    invariant raw == ctx.raw_value@, raw_value@ == raw, raw.len() <= 0xFFFF, total_size <= raw.len(), size <= raw.len(),
        pas_unwire(raw, 0, 0) == (match pas_unwire(raw, total_size as int, size as int) {
            Some(rest) => Some(pas_algs(attr) + rest), None => None::<Seq<Algorithm>> }),
    decreases raw.len() - total_size,
//@loopstart 1
    let ghost vx_attr0 = attr;
    let ghost ts0 = total_size as int;
    let ghost sz0 = size as int;
//@loopend 1
    proof {
        assert(pas_algs(attr) =~= pas_algs(vx_attr0).push(val.0));
        assert(pas_algs(vx_attr0) + (seq![val.0] + pas_unwire(raw, total_size as int, size as int)->Some_0)
            =~= pas_algs(attr) + pas_unwire(raw, total_size as int, size as int)->Some_0);
    }
//@stmt "Ok((attr, total_size))"
    proof {
        assert(pas_algs(attr) + Seq::<Algorithm>::empty() =~= pas_algs(attr));
        let p1 = choose|p: PasswordAlgorithms| pas_algs(p) == pas_algs(attr);
        lemma_pas_ext(attr, p1);
    }
//@end
}
#[verifier::external_body]
pub proof fn axiom_arc_vec_pa_ext(a: Arc<Vec<PasswordAlgorithm>>, b: Arc<Vec<PasswordAlgorithm>>)
    ensures a@ == b@ ==> a == b,
{}
pub proof fn lemma_pas_ext(a: PasswordAlgorithms, b: PasswordAlgorithms)
    requires pas_algs(a) == pas_algs(b),
    ensures a == b,
{
    assert(a.algorithms@.len() == pas_algs(a).len() && b.algorithms@.len() == pas_algs(b).len());
    assert forall|k: int| 0 <= k < a.algorithms@.len() implies a.algorithms@[k] == b.algorithms@[k] by {
        assert(pas_algs(a)[k] == pas_algs(b)[k]);
        assert(pas_algs(a)[k] == a.algorithms@[k].0);
        assert(pas_algs(b)[k] == b.algorithms@[k].0);
        let x = a.algorithms@[k]; let y = b.algorithms@[k];
        assert(x.0 == y.0);
        assert(x == PasswordAlgorithm(x.0) && y == PasswordAlgorithm(y.0));
    }
    assert(a.algorithms@ =~= b.algorithms@);
    axiom_arc_vec_pa_ext(a.algorithms, b.algorithms);
}
// bytes written for the first k algorithms of l: every item but the last of the whole list is followed by zero padding to a multiple of 4
pub open spec fn pas_wire_upto(l: Seq<Algorithm>, k: int) -> Seq<u8>
    decreases k
{
    if k <= 0 { Seq::<u8>::empty() } else {
        pas_wire_upto(l, k - 1) + pa_wire(l[k - 1]) + (if k < l.len() { zeros(pad4(pa_wire(l[k - 1]).len() as int)) } else { Seq::<u8>::empty() })
    }
}
pub proof fn lemma_pas_upto_mono(l: Seq<Algorithm>, k: int, n: int)
    requires 0 <= k <= n,
    ensures pas_wire_upto(l, k).len() <= pas_wire_upto(l, n).len(),
    decreases n - k,
{
    if k < n { lemma_pas_upto_mono(l, k, n - 1); }
}
pub open spec fn pas_encodable(l: Seq<Algorithm>) -> bool { forall|k: int| 0 <= k < l.len() ==> pa_plen(#[trigger] l[k]) <= 0xFFFF }
impl EncodeAttributeValue for PasswordAlgorithms {
    open spec fn post_wire(&self, enc: Seq<u8>, val: Seq<u8>) -> Seq<u8> { val }
    open spec fn post_ok(&self, enc: Seq<u8>, val: Seq<u8>) -> bool { true }
    // the provided method of the trait (nothing to do after the length is known), as instantiated for this kind
//@item stun_rs :: mod attributes > trait EncodeAttributeValue > fn post_encode
//@tags C02 C14 C01
//@end
    open spec fn wire(&self, enc: Seq<u8>) -> Seq<u8> { pas_wire_upto(pas_algs(*self), pas_algs(*self).len() as int) }
    open spec fn encodable(&self, enc: Seq<u8>) -> bool { pas_encodable(pas_algs(*self)) }
//@item stun_rs :: mod attributes > mod stun > mod password_algorithms > impl EncodeAttributeValue for PasswordAlgorithms > fn encode
//@tags C01 C02 C14 C03
//@rules R5P R4P
//@prefix
    #[verifier::loop_isolation(false)]
    #[verifier::spinoff_prover]
    #[verifier::rlimit(100)]
//@sub "len = attr.encode(attr_ctx)?;" => "let vx_r = attr.encode(attr_ctx); len = vx_r?;"
//@sub "fill_padding_value(&mut raw_value[size..], padding," => "let vx_f = fill_padding_value(&mut raw_value[size..], padding,"
//@sub "padding_value)?;" => "padding_value); vx_f?;"
//@before "let mut size = 0;"
    let ghost raw0 = ctx.raw_value@;
    let ghost enc0 = ctx.encoded_msg@;
    let ghost l = pas_algs(*self);
    let ghost fin = final(ctx.raw_value)@;
    proof { axiom_slice_len_limit(&*ctx.raw_value); }
//@loop 1
    invariant final(ctx.raw_value)@ == fin, raw0.len() <= usize::MAX, vx_pk@ == self.algorithms@, l == pas_algs(*self), vx_pi <= vx_pk@.len(), l.len() == vx_pk@.len(),
        ctx.raw_value@.len() == raw0.len(), ctx.encoded_msg@ == enc0, size <= raw0.len(),
        size == pas_wire_upto(l, vx_pi as int).len(),
        ctx.raw_value@.subrange(0, size as int) == pas_wire_upto(l, vx_pi as int),
        forall|j: int| size <= j < raw0.len() ==> ctx.raw_value@[j] == raw0[j],
        forall|k: int| 0 <= k < vx_pi ==> pa_plen(#[trigger] l[k]) <= 0xFFFF,
    decreases vx_pk@.len() - vx_pi,
//@loopstart 1
    let ghost k0 = vx_pi as int;
    let ghost size0 = size as int;
    let ghost rawk = ctx.raw_value@;
    proof {
        assert(l[k0] == vx_pk@[k0].0);
        lemma_pas_upto_mono(l, k0 + 1, l.len() as int);
        assert(pas_wire_upto(l, k0 + 1).len() >= size0 + pa_wire(l[k0]).len());
    }
//@before "len = vx_r?;"
    proof {
        // Err: either this algorithm's parameters are too long, or the buffer cannot hold the bytes up to and including it
        assert(vx_r is Err ==> !(pas_encodable(l) && raw0.len() >= pas_wire_upto(l, l.len() as int).len()));
    }
//@before "vx_f?;"
    proof {
        assert(pas_wire_upto(l, k0 + 1).len() == size + padding);
        assert(vx_f is Err ==> !(raw0.len() >= pas_wire_upto(l, l.len() as int).len()));
    }
//@before "if vx_pi < vx_pk.len()"
    proof {
        assert(ctx.raw_value@.subrange(0, size as int) =~= rawk.subrange(0, size0) + pa_wire(l[k0]));
    }
//@loopend 1
    proof {
        assert(ctx.raw_value@.subrange(0, size as int) =~= pas_wire_upto(l, k0 + 1));
    }
//@stmt "Ok(size)"
    proof {
        assert(pas_encodable(l));
        assert(vx_pi == l.len());
        assert(size == self.wire(enc0).len());
        assert(ctx.raw_value@.subrange(0, size as int) == self.wire(enc0));
        assert(forall|i: int| size <= i < raw0.len() ==> ctx.raw_value@[i] == raw0[i]);
    }
//@end
}

// ---------------------------------------------------------------- USERNAME (RFC 8489 14.3): UTF-8, fewer than 509 bytes, OpaqueString profile
pub mod vx_user_name {
    use super::*;
//@consts! stun_rs :: mod attributes > mod stun > mod user_name
//@item! stun_rs :: mod attributes > mod stun > mod user_name > struct UserName
impl StunAttributeType for UserName {
    open spec fn spec_type() -> u16 { 0x0006 }
//@item stun_rs :: mod attributes > mod stun > mod user_name > impl crate::attributes::StunAttributeType for UserName > fn get_type
//@tags C02 C01
//@end
//@item stun_rs :: mod attributes > mod stun > mod user_name > impl crate::attributes::StunAttributeType for UserName > fn attribute_type
//@tags C02 C01
//@end
}
impl UserName {
//@item stun_rs :: mod attributes > mod stun > mod user_name > impl UserName > fn new
//@tags C19 C01
//@sig
    pub fn new(value: &str) -> (r: Result<Self, StunError>)
//@sub "value.as_ref()" => "value"
//@sub "String::from(name.as_ref())" => "vx_string_from(name.as_ref())"
//@closure 1
|| -> (u: UserName)
    ensures u.0@ == name.chars(),
//@spec
    ensures r is Ok <==> opaque_ok(value@) && vstd::utf8::encode_utf8(opaque_prepared(value@)).len() < 509,
        r is Ok ==> r->Ok_0.0@ == opaque_prepared(value@),
//@end
//@item stun_rs :: mod attributes > mod stun > mod user_name > impl UserName > fn as_str
//@tags C19
//@spec
    ensures r@ == self.0@,
//@end
}
impl EncodeAttributeValue for UserName {
    open spec fn post_wire(&self, enc: Seq<u8>, val: Seq<u8>) -> Seq<u8> { val }
    open spec fn post_ok(&self, enc: Seq<u8>, val: Seq<u8>) -> bool { true }
    // the provided method of the trait (nothing to do after the length is known), as instantiated for this kind
//@item stun_rs :: mod attributes > trait EncodeAttributeValue > fn post_encode
//@tags C02 C14 C01
//@end
    open spec fn wire(&self, enc: Seq<u8>) -> Seq<u8> { vstd::utf8::encode_utf8(self.0@) }
    open spec fn encodable(&self, enc: Seq<u8>) -> bool { vstd::utf8::encode_utf8(self.0@).len() < 509 }
//@item stun_rs :: mod attributes > mod stun > mod user_name > impl EncodeAttributeValue for UserName > fn encode
//@tags C01 C02 C14
//@rules R5P
//@sub "self.as_str().len()" => "vx_str_len(self.as_str())" all
//@end
}
impl DecodeAttributeValue for UserName {
    // the decoded name is the OpaqueString-enforced form of the wire text
    open spec fn unwire(raw: Seq<u8>, prefix: Seq<u8>) -> Option<Self> {
        if raw.len() <= 763 && vstd::utf8::valid_utf8(raw) && opaque_ok(vstd::utf8::decode_utf8(raw)) {
            Some(UserName(string_of_chars(opaque_enforced(vstd::utf8::decode_utf8(raw)))))
        } else { None }
    }
//@item stun_rs :: mod attributes > mod stun > mod user_name > impl DecodeAttributeValue for UserName > fn decode
//@tags C01 C02 C03 C19
//@sub "String::from(name.as_ref())" => "vx_string_from(name.as_ref())"
//@before "if size > MAX_DECODED_SIZE"
    proof { vstd::utf8::encode_utf8_decode_utf8(str@); }
//@stmt "Ok((UserName(vx_string_from(name.as_ref())), size))"
    proof {
        assert forall|s0: String| #[trigger] s0@ == name.chars() implies s0 == string_of_chars(name.chars()) by { lemma_string_of_chars(s0); }
    }
//@end
}
// props: C01
pub proof fn lemma_roundtrip_UserName(x: UserName, enc: Seq<u8>)
    // a name as UserName::new builds it: accepted by the OpaqueString profile and already in enforced form
    requires x.encodable(enc), opaque_ok(x.0@), opaque_enforced(x.0@) == x.0@,
    ensures UserName::unwire(x.wire(enc), enc) == Some(x),
{
    vstd::utf8::encode_utf8_valid_utf8(x.0@);
    vstd::utf8::encode_utf8_decode_utf8(x.0@);
    lemma_string_of_chars(x.0);
}
} // mod vx_user_name
pub use vx_user_name::UserName;

// ---------------------------------------------------------------- nonce_cookie.rs (RFC 8489 9.2: "obMatJos2" + 4 base64 characters of security feature bits)
// third-party shims (trusted): enumflags2::BitFlags, base64 engine, str::starts_with
#[verifier::external_body]
#[verifier::reject_recursive_types(T)]
pub struct BitFlags<T> { _p: core::marker::PhantomData<T> }
#[verifier::external_body]
#[verifier::reject_recursive_types(T)]
pub struct ConstToken<T> { _p: core::marker::PhantomData<T> }
impl<T> BitFlags<T> {
    pub uninterp spec fn bits_view(&self) -> u32;
    #[verifier::external_body]
    pub const fn const_token() -> ConstToken<T> { unimplemented!() }
    #[verifier::external_body]
    pub fn from_bits_truncate_c(v: u32, t: ConstToken<T>) -> (r: Self) { unimplemented!() }
    // enumflags2: "Create a BitFlags from an underlying bitwise value. If any unknown bits are set, ignore them." (total)
    #[verifier::external_body]
    pub fn from_bits_truncate(v: u32) -> (r: Self) { unimplemented!() }
    #[verifier::external_body]
    pub fn bits(self) -> (r: u32) ensures r == self.bits_view() { unimplemented!() }
}
// discovery/change_request.rs: the flag accessors (the value itself is an integer kind, see inc/attrs_gen.rs)
//@item! stun_rs :: mod attributes > mod discovery > mod change_request > enum ChangeRequestFlags
impl ChangeRequest {
//@item stun_rs :: mod attributes > mod discovery > mod change_request > impl ChangeRequest > fn new
//@tags C19
//@spec
    ensures r.0 == (match flags { Some(f) => f.bits_view(), None => 0u32 }),
//@end
//@item stun_rs :: mod attributes > mod discovery > mod change_request > impl ChangeRequest > fn flags
//@tags C19 C03
//@end
}
pub struct StunSecurityFeatures;
pub struct B64Engine;
pub struct B64Error;
pub exec const BASE64_STANDARD: B64Engine ensures true { B64Engine }
impl B64Engine {
    // base64::Engine::decode_slice: writes the decoded bytes into `out`, returns their number (Err on bad input / short output)
    #[verifier::external_body]
    pub fn decode_slice<T: AsRef<[u8]>>(&self, input: T, out: &mut [u8]) -> (r: Result<usize, B64Error>)
        ensures final(out)@.len() == old(out)@.len(), r is Ok ==> r->Ok_0 <= old(out)@.len(),
    { unimplemented!() }
}
#[verifier::external_body]
pub fn vx_starts_with(s: &str, p: &str) -> (r: bool)
    ensures r ==> s.spec_bytes().len() >= p.spec_bytes().len() && s.spec_bytes().subrange(0, p.spec_bytes().len() as int) == p.spec_bytes(),
{ s.starts_with(p) }
//@consts stun_rs :: mod attributes > mod stun > mod nonce_cookie
proof fn lemma_cookie_header_len()
    ensures NONCE_COOKIE_HEADER.spec_bytes().len() == 9,
{
    reveal_strlit("obMatJos2");
    broadcast use vstd::utf8::group_utf8_lib;
    broadcast use vstd::string::group_string_axioms;
    assert(NONCE_COOKIE_HEADER.is_ascii());
}
impl Nonce {
//@item stun_rs :: mod attributes > mod stun > mod nonce_cookie > impl Nonce > fn is_nonce_cookie
//@tags C19 C03
//@sub "self.as_str().starts_with(NONCE_COOKIE_HEADER)" => "vx_starts_with(self.as_str(), NONCE_COOKIE_HEADER)"
//@sub "self.as_str().len()" => "vx_str_len(self.as_str())"
//@sub "NONCE_COOKIE_HEADER.len()" => "vx_str_len(NONCE_COOKIE_HEADER)"
//@head
    proof { lemma_cookie_header_len(); }
//@spec
    ensures r ==> vstd::utf8::encode_utf8(self.0.0@).len() >= 13,
//@end
//@item stun_rs :: mod attributes > mod stun > mod nonce_cookie > impl Nonce > fn security_features
//@tags C19 C03
//@sub "NONCE_COOKIE_HEADER.len()" => "vx_str_len(NONCE_COOKIE_HEADER)" all
//@sub "BitFlags::CONST_TOKEN" => "BitFlags::const_token()"
//@head
    proof { lemma_cookie_header_len(); }
//@end
}

// ---------------------------------------------------------------- attributes/unknown.rs: an attribute of a type without a registered decoder
//@item! stun_rs :: mod attributes > mod unknown > struct Unknown
impl Unknown {
    pub open spec fn data_view(&self) -> Option<Seq<u8>> { match self.attr_data { Some(a) => Some(a@), None => None } }
//@item stun_rs :: mod attributes > mod unknown > impl Unknown > fn new
//@tags C19 C18
//@sig
    pub fn new(attr_type: AttributeType, data: Option<&[u8]>) -> (r: Self)
//@sub "data.into().map(Vec::from).map(Arc::new)" => "vx_opt_arc_vec(data)"
//@spec
    ensures r.attr_type == attr_type, r.data_view() == (match data { Some(d) => Some(d@), None => None::<Seq<u8>> }),
//@end
//@item stun_rs :: mod attributes > mod unknown > impl Unknown > fn attribute_type
//@tags C19 C02
//@spec
    ensures r == self.attr_type,
//@end
//@item stun_rs :: mod attributes > mod unknown > impl Unknown > fn attribute_data
//@tags C19
//@closure 1
|v: &Arc<Vec<u8>>| -> (s: &[u8])
    ensures s@ == v@,
//@spec
    ensures r is Some <==> self.attr_data is Some, r is Some ==> r->Some_0@ == self.attr_data->Some_0@,
//@end
}
impl EncodeAttributeValue for Unknown {
    // an unknown attribute cannot be encoded
    open spec fn wire(&self, enc: Seq<u8>) -> Seq<u8> { Seq::<u8>::empty() }
    open spec fn encodable(&self, enc: Seq<u8>) -> bool { false }
    open spec fn post_wire(&self, enc: Seq<u8>, val: Seq<u8>) -> Seq<u8> { val }
    open spec fn post_ok(&self, enc: Seq<u8>, val: Seq<u8>) -> bool { false }
//@item stun_rs :: mod attributes > mod unknown > impl EncodeAttributeValue for Unknown > fn encode
//@tags C01 C14 C18
//@end
//@item stun_rs :: mod attributes > mod unknown > impl EncodeAttributeValue for Unknown > fn post_encode
//@tags C01 C14 C18
//@rules R5P
//@end
}
// `<[u8; N]>::try_from(Vec<u8>)` / `vec.try_into()`: Ok (the elements) exactly when the length is N, else the vector back (std)
#[verifier::external_body]
pub fn vx_array_from_vec<const N: usize>(v: Vec<u8>) -> (r: Result<[u8; N], Vec<u8>>)
    ensures r is Ok <==> v@.len() == N, r is Ok ==> r->Ok_0@ == v@,
{ unimplemented!() }
// USERHASH = SHA-256(OpaqueString(username) ":" OpaqueString(realm))  (RFC 8489 14.4)
pub open spec fn user_hash_text(name: Seq<char>, realm: Seq<char>) -> Seq<u8> {
    vstd::utf8::encode_utf8(opaque_prepared(name) + ":"@ + opaque_prepared(realm))
}
//@item stun_rs :: mod attributes > mod stun > mod user_hash > fn do_sha256
//@tags C19 C02
//@rules R1S
//@spec
    ensures r is Ok <==> opaque_ok(name@) && opaque_ok(realm@) && sha256_spec(user_hash_text(name@, realm@)).len() == 32,
        r is Ok ==> r->Ok_0@ == sha256_spec(user_hash_text(name@, realm@)),
//@end
impl UserHash {
//@item stun_rs :: mod attributes > mod stun > mod user_hash > impl UserHash > fn new
//@tags C19 C02
//@sig
    pub fn new(name: &str, realm: &str) -> (r: Result<Self, StunError>)
//@sub "do_sha256(name.as_ref(), realm.as_ref())?" => "do_sha256(name, realm)?"
//@sub "vec.try_into()" => "vx_array_from_vec::<USER_HASH_LEN>(vec)"
//@spec
    ensures r is Ok <==> opaque_ok(name@) && opaque_ok(realm@) && sha256_spec(user_hash_text(name@, realm@)).len() == 32,
        r is Ok ==> r->Ok_0.0@ == sha256_spec(user_hash_text(name@, realm@)),
//@end
}

// ---------------------------------------------------------------- constructors of the quoted-text kinds
impl Nonce {
//@item stun_rs :: mod attributes > mod stun > mod nonce > impl Nonce > fn new
//@tags C19 C01
//@sig
    pub fn new(value: &str) -> (r: Result<Self, StunError>)
//@sub "QuotedString::try_from(value.as_ref())?" => "QuotedString::new(value)?"
//@sub "name.as_str().len()" => "vx_str_len(name.as_str())"
//@sub "MAX_ENCODED_SIZE" => "vx_nonce::MAX_ENCODED_SIZE"
//@spec
    ensures r is Ok <==> qs_valid(value@) && vstd::utf8::encode_utf8(qs_trim(value@)).len() <= 509,
        r is Ok ==> r->Ok_0.0.0@ == qs_trim(value@),
//@end
}
impl Realm {
//@item stun_rs :: mod attributes > mod stun > mod realm > impl Realm > fn new
//@tags C19 C01
//@sig
    pub fn new(value: &str) -> (r: Result<Self, StunError>)
//@sub "strings::opaque_string_prepapre(value.as_ref())?" => "strings::opaque_string_prepapre(value)?"
//@sub "QuotedString::try_from(realm.as_ref())?" => "QuotedString::new(realm.as_ref())?"
//@sub "realm.as_str().len()" => "vx_str_len(realm.as_str())"
//@sub "MAX_ENCODED_SIZE" => "vx_realm::MAX_ENCODED_SIZE"
//@spec
    ensures r is Ok <==> opaque_ok(value@) && qs_valid(opaque_prepared(value@))
            && vstd::utf8::encode_utf8(qs_trim(opaque_prepared(value@))).len() <= 509,
        r is Ok ==> r->Ok_0.0.0@ == qs_trim(opaque_prepared(value@)),
//@end
}

// props: C01 C02
proof fn lemma_roundtrip_PasswordAlgorithm(x: PasswordAlgorithm, enc: Seq<u8>)
    // canonical algorithm id, parameters (if any) non-empty and at most 65535 bytes
    requires alg_of(alg_code(x.0.algorithm)) == x.0.algorithm, (x.0.params is Some ==> x.0.params->Some_0@.len() > 0), pa_plen(x.0) <= 0xFFFF,
    ensures PasswordAlgorithm::unwire(x.wire(enc), enc) == Some(x),
{
    let raw = pa_wire(x.0);
    let n = pa_plen(x.0);
    lemma_be16_roundtrip(alg_code(x.0.algorithm) as int);
    lemma_be16_roundtrip(n);
    assert(raw.subrange(0, 2) =~= be16_seq(alg_code(x.0.algorithm) as int));
    assert(raw.subrange(2, 4) =~= be16_seq(n));
    assert(be16(raw.subrange(2, 4)) == n && raw.len() == 4 + n);
    assert(pa_unwire(raw) is Some);
    let u = pa_unwire(raw)->Some_0;
    if x.0.params is Some {
        assert(n > 0);
        assert(raw.subrange(4, 4 + n) =~= x.0.params->Some_0@);
        lemma_arc_vec(x.0.params->Some_0);
        assert(u.params == Some(vx_arc_vec(raw.subrange(4, 4 + n))));
    } else {
        assert(n == 0);
        assert(u.params is None);
    }
    lemma_algorithm_ext(u, x.0);
}

// ---------------------------------------------------------------- PASSWORD-ALGORITHMS round trip
pub open spec fn pa_rt_ok(a: Algorithm) -> bool {
    alg_of(alg_code(a.algorithm)) == a.algorithm && (a.params is Some ==> a.params->Some_0@.len() > 0) && pa_plen(a) <= 0xFFFF
}
// reading an item ignores what follows it
proof fn lemma_pa_unwire_prefix(a: Algorithm, rest: Seq<u8>)
    requires pa_rt_ok(a),
    ensures pa_unwire(pa_wire(a) + rest) == Some(a), pa_plen_wire(pa_wire(a) + rest) == pa_plen(a), pa_wire(a).len() == 4 + pa_plen(a),
{
    let w = pa_wire(a);
    let raw = w + rest;
    let n = pa_plen(a);
    lemma_be16_roundtrip(alg_code(a.algorithm) as int);
    lemma_be16_roundtrip(n);
    assert(raw.subrange(0, 2) =~= be16_seq(alg_code(a.algorithm) as int));
    assert(raw.subrange(2, 4) =~= be16_seq(n));
    assert(be16(raw.subrange(2, 4)) == n && raw.len() >= 4 + n);
    let u = pa_unwire(raw)->Some_0;
    if a.params is Some {
        assert(raw.subrange(4, 4 + n) =~= a.params->Some_0@);
        lemma_arc_vec(a.params->Some_0);
    }
    lemma_algorithm_ext(u, a);
}
proof fn lemma_pas_upto_prefix(l: Seq<Algorithm>, k: int, m: int)
    requires 0 <= k <= m,
    ensures pas_wire_upto(l, m).len() >= pas_wire_upto(l, k).len(),
        pas_wire_upto(l, m).subrange(0, pas_wire_upto(l, k).len() as int) == pas_wire_upto(l, k),
    decreases m - k,
{
    if k < m {
        lemma_pas_upto_prefix(l, k, m - 1);
        assert(pas_wire_upto(l, m).subrange(0, pas_wire_upto(l, k).len() as int) =~= pas_wire_upto(l, m - 1).subrange(0, pas_wire_upto(l, k).len() as int));
    } else {
        assert(pas_wire_upto(l, k).subrange(0, pas_wire_upto(l, k).len() as int) =~= pas_wire_upto(l, k));
    }
}
// end of item k-1 without its padding (0 for k = 0), and its length
pub open spec fn pas_end(l: Seq<Algorithm>, k: int) -> int { if k <= 0 { 0 } else { (pas_wire_upto(l, k - 1).len() + pa_wire(l[k - 1]).len()) as int } }
pub open spec fn pas_prev(l: Seq<Algorithm>, k: int) -> int { if k <= 0 { 0 } else { pa_wire(l[k - 1]).len() as int } }
#[verifier::spinoff_prover]
#[verifier::rlimit(60)]
proof fn lemma_pas_roundtrip_from(l: Seq<Algorithm>, k: int)
    requires 0 <= k <= l.len(), forall|i: int| 0 <= i < l.len() ==> pa_rt_ok(#[trigger] l[i]),
    ensures pas_unwire(pas_wire_upto(l, l.len() as int), pas_end(l, k), pas_prev(l, k)) == Some(l.subrange(k, l.len() as int)),
    decreases l.len() - k,
{
    let n = l.len() as int;
    let w = pas_wire_upto(l, n);
    if k == n {
        // the last item is not padded: its end is the end of the value
        if n > 0 { assert(pas_end(l, n) == w.len()); }
        assert(l.subrange(n, n) =~= Seq::<Algorithm>::empty());
    } else {
        let a = l[k];
        assert(pa_rt_ok(a));
        // item k starts at upto(l, k).len() = pas_end(k) + pad4(prev) and its bytes are pa_wire(a)
        lemma_pas_upto_prefix(l, k, n);
        lemma_pas_upto_prefix(l, k + 1, n);
        let s = pas_wire_upto(l, k).len() as int;
        assert(s == pas_end(l, k) + pad4(pas_prev(l, k))) by {
            if k > 0 { assert(pas_wire_upto(l, k).len() == pas_wire_upto(l, k - 1).len() + pa_wire(l[k - 1]).len() + pad4(pa_wire(l[k - 1]).len() as int)); }
        }
        let pw = pa_wire(a);
        assert(pas_wire_upto(l, k + 1).len() >= s + pw.len());
        let tail = w.subrange(s, w.len() as int);
        let rest = tail.subrange(pw.len() as int, tail.len() as int);
        assert(tail =~= pw + rest) by {
            assert forall|i: int| 0 <= i < pw.len() implies tail[i] == pw[i] by {
                assert(w.subrange(0, pas_wire_upto(l, k + 1).len() as int)[s + i] == pas_wire_upto(l, k + 1)[s + i]);
            }
        }
        lemma_pa_unwire_prefix(a, rest);
        lemma_pas_roundtrip_from(l, k + 1);
        assert(pas_end(l, k + 1) == s + pw.len());
        assert(pas_end(l, k) < w.len());
        assert(seq![a] + l.subrange(k + 1, n) =~= l.subrange(k, n));
    }
}
// props: C01 C02
proof fn lemma_roundtrip_PasswordAlgorithms(x: PasswordAlgorithms, enc: Seq<u8>)
    requires forall|i: int| 0 <= i < pas_algs(x).len() ==> pa_rt_ok(#[trigger] pas_algs(x)[i]),
    ensures PasswordAlgorithms::unwire(x.wire(enc), enc) == Some(x),
{
    let l = pas_algs(x);
    lemma_pas_roundtrip_from(l, 0);
    assert(l.subrange(0, l.len() as int) =~= l);
    let p1 = choose|p: PasswordAlgorithms| pas_algs(p) == l;
    lemma_pas_ext(x, p1);
}

// ---------------------------------------------------------------- remaining conversions of the list kinds
impl vstd::std_specs::convert::FromSpecImpl<Vec<PasswordAlgorithm>> for PasswordAlgorithms {
    open spec fn obeys_from_spec() -> bool { false }
    open spec fn from_spec(v: Vec<PasswordAlgorithm>) -> Self { arbitrary() }
}
impl From<Vec<PasswordAlgorithm>> for PasswordAlgorithms {
//@item stun_rs :: mod attributes > mod stun > mod password_algorithms > impl From<Vec<PasswordAlgorithm>> for PasswordAlgorithms > fn from
//@tags C19
//@spec
    ensures r.algorithms@ == v@,
//@end
}
impl IntoIterator for PasswordAlgorithms {
    type Item = PasswordAlgorithm;
    type IntoIter = std::vec::IntoIter<PasswordAlgorithm>;
    // consuming a value never panics, whether or not clones of it are alive (it copies the shared list)
//@item stun_rs :: mod attributes > mod stun > mod password_algorithms > impl IntoIterator for PasswordAlgorithms > fn into_iter
//@tags C19
//@subopt "Arc::try_unwrap(" => "vx_arc_try_unwrap("
//@end
}
