// ===== inc/post_n.rs (shared by units codec, rt, attrs)
// the value bytes after post_encode (a post_encode that does not keep the length is ignored)
pub open spec fn post_n(a: StunAttribute, enc: Seq<u8>, v: Seq<u8>) -> Seq<u8> {
    let w = a.post_wire(enc, v);
    if w.len() == v.len() { w } else { v }
}
