// ===== inc/attrs_registry.rs : registry.rs - which type codes have a decoder
// The map of function pointers itself is outside the dialect (R12): DecoderRegistry is modelled by the *set of registered type
// codes*; `register::<A>()` (real body: HashMap::insert(A::get_type(), handler built from A::decode) + assert!(.. is_none()))
// adds A's code and panics if it was already there. The real registration functions and the real lazy_static initialiser are
// verified against that model: no code is registered twice (the initialiser cannot panic) and the resulting set is exactly
// `registered` (inc/attrs_sum.rs), the predicate units dec and rt use.
pub struct DecoderRegistry { pub codes: Ghost<Set<u16>> }
impl DecoderRegistry {
    pub fn default() -> (r: Self) ensures r.codes@ == Set::<u16>::empty() { DecoderRegistry { codes: Ghost(Set::empty()) } }
    // model of `register` (see above); the `requires` is the assert! of the real function
    pub fn register<A: StunAttributeType>(&mut self)
        requires !old(self).codes@.contains(A::spec_type()),
        ensures final(self).codes@ == old(self).codes@.insert(A::spec_type()),
    { self.codes = Ghost(self.codes@.insert(A::spec_type())); }
}
use vx_error_code_attr::ErrorCode as VxErrorCodeAttrForRegistry;
//@item stun_rs :: mod attributes > mod stun > fn stun_register_attributes
//@tags C01 C02 C18 C19 C03
//@sub "registry.register::<ErrorCode>();" => "registry.register::<VxErrorCodeAttrForRegistry>();"
//@spec
    requires forall|t: u16| #[trigger] old(registry).codes@.contains(t) ==> !is_stun_code(t),
    ensures forall|t: u16| #[trigger] final(registry).codes@.contains(t) <==> old(registry).codes@.contains(t) || is_stun_code(t),
//@end
//@item stun_rs :: mod attributes > mod ice > fn ice_register_attributes
//@tags C01 C02 C18 C19 C03
//@spec
    requires forall|t: u16| #[trigger] old(registry).codes@.contains(t) ==> !is_ice_code(t),
    ensures forall|t: u16| #[trigger] final(registry).codes@.contains(t) <==> old(registry).codes@.contains(t) || is_ice_code(t),
//@end
//@item stun_rs :: mod attributes > mod turn > fn turn_register_attributes
//@tags C01 C02 C18 C19 C03
//@spec
    requires forall|t: u16| #[trigger] old(registry).codes@.contains(t) ==> !is_turn_code(t),
    ensures forall|t: u16| #[trigger] final(registry).codes@.contains(t) <==> old(registry).codes@.contains(t) || is_turn_code(t),
//@end
//@item stun_rs :: mod attributes > mod mobility > fn mobility_register_attributes
//@tags C01 C02 C18 C19 C03
//@spec
    requires forall|t: u16| #[trigger] old(registry).codes@.contains(t) ==> !is_mobility_code(t),
    ensures forall|t: u16| #[trigger] final(registry).codes@.contains(t) <==> old(registry).codes@.contains(t) || is_mobility_code(t),
//@end
//@item stun_rs :: mod attributes > mod discovery > fn discovery_register_attributes
//@tags C01 C02 C18 C19 C03
//@spec
    requires forall|t: u16| #[trigger] old(registry).codes@.contains(t) ==> !is_discovery_code(t),
    ensures forall|t: u16| #[trigger] final(registry).codes@.contains(t) <==> old(registry).codes@.contains(t) || is_discovery_code(t),
//@end
pub open spec fn is_stun_code(t: u16) -> bool {
    t == 0x8023 || t == 0x0009 || t == 0x8028 || t == 0x0001 || t == 0x0008 || t == 0x001C || t == 0x0015 || t == 0x001D || t == 0x8002 || t == 0x0014 || t == 0x8022 || t == 0x000A || t == 0x001E || t == 0x0006 || t == 0x0020
}
pub open spec fn is_ice_code(t: u16) -> bool {
    t == 0x8029 || t == 0x802A || t == 0x0024 || t == 0x0025
}
pub open spec fn is_turn_code(t: u16) -> bool {
    t == 0x8000 || t == 0x8001 || t == 0x000C || t == 0x0013 || t == 0x001A || t == 0x0018 || t == 0x8004 || t == 0x000D || t == 0x0017 || t == 0x0019 || t == 0x0022 || t == 0x0012 || t == 0x0016
}
pub open spec fn is_mobility_code(t: u16) -> bool {
    t == 0x8030
}
pub open spec fn is_discovery_code(t: u16) -> bool {
    t == 0x0003 || t == 0x802c || t == 0x0026 || t == 0x802b || t == 0x0027
}
// the lazy_static initialiser of REGISTRY (the function nested in its Deref impl): it cannot panic and registers exactly `registered`
//@item stun_rs :: mod registry > impl ::lazy_static::__Deref for REGISTRY > fn deref > fn __static_ref_initialize
//@tags C01 C02 C18 C19 C03
//@spec
    ensures forall|t: u16| #[trigger] r.codes@.contains(t) <==> registered(t),
//@end
