// ===== inc/protiter_vocab.rs : ProtectedAttributeIteratorObject (stun-agent lib.rs) and its view
// core::slice::Iter over the message's attributes, modelled as (slice, position) (trusted model of std)
pub struct Iter<'a, T> { pub s: &'a [T], pub pos: usize }
impl<'a, T> Iter<'a, T> {
    pub fn next(&mut self) -> (r: Option<&'a T>)
        requires old(self).pos <= old(self).s@.len(),
        ensures final(self).s == old(self).s,
            old(self).pos < old(self).s@.len() ==> r == Some(&old(self).s@[old(self).pos as int]) && final(self).pos == old(self).pos + 1,
            old(self).pos >= old(self).s@.len() ==> r is None && final(self).pos == old(self).pos,
    {
        if self.pos < self.s.len() { let r = &self.s[self.pos]; self.pos = self.pos + 1; Some(r) } else { None }
    }
}
pub open spec fn types_of(s: Seq<StunAttribute>) -> Seq<u16> { Seq::new(s.len(), |i: int| s[i].ty()) }
//@item! stun_agent :: struct ProtectedAttributeIteratorObject
impl<'a> ProtectedAttributeIteratorObject<'a> {
    pub open spec fn ts(&self) -> Seq<u16> { types_of(self.iter.s@) }
    pub open spec fn flags(&self) -> AdmFlags { AdmFlags { mi: self.integrity, sha: self.integrity_sha256, fp: self.fingerprint } }
    pub open spec fn wf(&self) -> bool {
        self.iter.pos <= self.iter.s@.len() && self.flags() == flags_at(self.ts(), self.iter.pos as int)
    }
}
