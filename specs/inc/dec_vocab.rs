// ===== inc/dec_vocab.rs : what decoding means, as functions of the bytes (shared by units dec and rt)
// attribute header at pos: type(16) length(16); the value is padded to a multiple of 4 (RFC 8489 section 14)
pub open spec fn tlv_len(body: Seq<u8>, pos: int) -> int { be16(body.subrange(pos + 2, pos + 4)) }
pub open spec fn tlv_type(body: Seq<u8>, pos: int) -> int { be16(body.subrange(pos, pos + 2)) }
pub open spec fn tlv_next(body: Seq<u8>, pos: int) -> int { pos + 4 + tlv_len(body, pos) + pad4(tlv_len(body, pos)) }
// a complete, padded TLV starts at pos
pub open spec fn tlv_ok(body: Seq<u8>, pos: int) -> bool {
    0 <= pos && pos + 4 <= body.len() && tlv_next(body, pos) <= body.len()
}

// ---- RFC 8489 14.5-14.7: the text a MAC / CRC is computed over: the message up to (excluding) the first attribute
// of the given type, with the header length adjusted to point at the end of that attribute
pub open spec fn find_tlv(body: Seq<u8>, pos: int, t: int) -> Option<(int, int)>
    decreases body.len() - pos
{
    if pos < 0 || pos >= body.len() || !tlv_ok(body, pos) { None }
    else if tlv_type(body, pos) == t { Some((pos, tlv_next(body, pos))) }
    else { find_tlv(body, tlv_next(body, pos), t) }
}
pub open spec fn input_text(b: Seq<u8>, t: int) -> Option<Seq<u8>> {
    if header_ok(b) && b.len() >= 20 + be16(b.subrange(2, 4)) {
        match find_tlv(b.subrange(20, 20 + be16(b.subrange(2, 4))), 0, t) {
            Some(se) => Some(set_len(b.subrange(0, 20 + se.0), se.1)),
            None => None,
        }
    } else { None }
}

pub uninterp spec fn registered(t: u16) -> bool;
// what the registered decoder of type t makes of a value, given the message bytes before it (XOR attributes read the
// transaction id from there); None if it rejects the value
pub uninterp spec fn dec_attr(t: u16, value: Seq<u8>, prefix: Seq<u8>) -> Option<StunAttribute>;
pub uninterp spec fn unknown_attr(t: u16, data: Option<Seq<u8>>) -> StunAttribute;
pub uninterp spec fn attr_verifies(a: StunAttribute, input: Seq<u8>, ctx: DecoderContext) -> bool;

pub open spec fn needs_validation(ctx: Option<DecoderContext>, a: StunAttribute) -> bool {
    ctx is Some && ctx->Some_0.validation && a.verifiable()
}
pub open spec fn attr_valid(a: StunAttribute, b: Seq<u8>, ctx: DecoderContext) -> bool {
    input_text(b, a.spec_type() as int) is Some && attr_verifies(a, input_text(b, a.spec_type() as int)->Some_0, ctx)
}

// ---- what decoding means (C01/C03/C09/C18): a function of the bytes and the options
// TLV starts of the attribute area; None if the area is not an exact sequence of padded TLVs
pub open spec fn walk(body: Seq<u8>, pos: int) -> Option<Seq<int>>
    decreases body.len() - pos
{
    if pos < 0 || pos > body.len() { None }
    else if pos == body.len() { Some(Seq::<int>::empty()) }
    else if !tlv_ok(body, pos) { None }
    else { match walk(body, tlv_next(body, pos)) { Some(r) => Some(seq![pos] + r), None => None } }
}
pub open spec fn types_at(body: Seq<u8>, sts: Seq<int>) -> Seq<u16> {
    Seq::new(sts.len(), |i: int| tlv_type(body, sts[i]) as u16)
}
// the attribute the decoder builds for the TLV at `st`: the registered handler's result, or Unknown (with or without data)
pub open spec fn attr_at(b: Seq<u8>, st: int, unknown_data: bool) -> Option<StunAttribute> {
    let body = b.subrange(20, 20 + be16(b.subrange(2, 4)));
    let t = tlv_type(body, st) as u16;
    let v = body.subrange(st + 4, st + 4 + tlv_len(body, st));
    if registered(t) { dec_attr(t, v, b.subrange(0, 20 + st)) }
    else { Some(unknown_attr(t, if unknown_data { Some(v) } else { None })) }
}
pub open spec fn opt_validation(c: Option<DecoderContext>) -> bool { c is Some && c->Some_0.validation }
pub open spec fn opt_unknown_data(c: Option<DecoderContext>) -> bool { c is Some && c->Some_0.unknown_data }
pub open spec fn opt_not_ignore(c: Option<DecoderContext>) -> bool { c is Some && c->Some_0.not_ignore }
// the attributes of the decoded message after the first k TLVs; None as soon as a handler rejects its value (every TLV is
// parsed, admitted or not) or an *included* verifiable attribute fails validation
pub open spec fn dec_upto(b: Seq<u8>, sts: Seq<int>, k: int, c: Option<DecoderContext>) -> Option<Seq<StunAttribute>>
    decreases k
{
    let body = b.subrange(20, 20 + be16(b.subrange(2, 4)));
    if k <= 0 { Some(Seq::<StunAttribute>::empty()) }
    else {
        match dec_upto(b, sts, k - 1, c) {
            None => None,
            Some(acc) => match attr_at(b, sts[k - 1], opt_unknown_data(c)) {
                None => None,
                Some(a) => {
                    if opt_not_ignore(c) || admitted(types_at(body, sts), k - 1) {
                        if needs_validation(c, a) && !attr_valid(a, b, c->Some_0) { None } else { Some(acc.push(a)) }
                    } else { Some(acc) }
                },
            },
        }
    }
}
pub open spec fn decoded(b: Seq<u8>, c: Option<DecoderContext>) -> Option<Seq<StunAttribute>> {
    if header_ok(b) && b.len() >= 20 + be16(b.subrange(2, 4)) {
        match walk(b.subrange(20, 20 + be16(b.subrange(2, 4))), 0) {
            Some(sts) => dec_upto(b, sts, sts.len() as int, c),
            None => None,
        }
    } else { None }
}
// consecutive TLV starts from 0 up to position p
pub open spec fn walk_prefix(body: Seq<u8>, sts: Seq<int>, p: int) -> bool {
    &&& (sts.len() == 0 ==> p == 0)
    &&& (sts.len() > 0 ==> sts[0] == 0 && p == tlv_next(body, sts[sts.len() - 1]))
    &&& (forall|i: int| 0 <= i < sts.len() ==> tlv_ok(body, #[trigger] sts[i]))
    &&& (forall|i: int| 0 <= i < sts.len() - 1 ==> #[trigger] sts[i + 1] == tlv_next(body, sts[i]))
}
proof fn lemma_walk_join(body: Seq<u8>, sts: Seq<int>, p: int)
    requires walk_prefix(body, sts, p), 0 <= p <= body.len(),
    ensures walk(body, 0) == (match walk(body, p) { Some(r) => Some(sts + r), None => None::<Seq<int>> }),
    decreases sts.len(),
{
    if sts.len() == 0 {
        assert(sts + walk(body, p)->Some_0 =~= walk(body, p)->Some_0);
    } else {
        let last = sts[sts.len() - 1];
        let init = sts.subrange(0, sts.len() - 1);
        assert(walk_prefix(body, init, last)) by {
            if init.len() > 0 { assert(init[init.len() - 1] == sts[sts.len() - 2]); assert(sts[sts.len() - 2 + 1] == tlv_next(body, sts[sts.len() - 2])); }
            else { assert(sts[0] == 0); }
        }
        lemma_walk_join(body, init, last);
        assert(tlv_ok(body, last));
        assert(last < body.len());
        match walk(body, p) {
            Some(r) => { assert(init + (seq![last] + r) =~= sts + r); },
            None => {},
        }
    }
}
proof fn lemma_admitted_prefix(ts: Seq<u16>, t: u16, i: int)
    requires 0 <= i < ts.len(),
    ensures admitted(ts.push(t), i) == admitted(ts, i),
{
    assert forall|k: int| seen(ts.push(t), i, k) == seen(ts, i, k) by {
        if seen(ts.push(t), i, k) {
            let j = choose|j: int| 0 <= j < i && kind_of(#[trigger] ts.push(t)[j]) == k;
            assert(ts[j] == ts.push(t)[j]);
        }
        if seen(ts, i, k) {
            let j = choose|j: int| 0 <= j < i && kind_of(#[trigger] ts[j]) == k;
            assert(ts.push(t)[j] == ts[j]);
        }
    }
    assert(ts.push(t)[i] == ts[i]);
}
proof fn lemma_dec_upto_prefix(b: Seq<u8>, sts: Seq<int>, x: int, k: int, c: Option<DecoderContext>)
    requires 0 <= k <= sts.len(),
    ensures dec_upto(b, sts.push(x), k, c) == dec_upto(b, sts, k, c),
    decreases k,
{
    if k > 0 {
        let body = b.subrange(20, 20 + be16(b.subrange(2, 4)));
        lemma_dec_upto_prefix(b, sts, x, k - 1, c);
        assert(sts.push(x)[k - 1] == sts[k - 1]);
        assert(types_at(body, sts.push(x)) =~= types_at(body, sts).push(tlv_type(body, x) as u16));
        lemma_admitted_prefix(types_at(body, sts), tlv_type(body, x) as u16, k - 1);
    }
}

proof fn lemma_dec_upto_prefix_seq(b: Seq<u8>, sts: Seq<int>, r: Seq<int>, k: int, c: Option<DecoderContext>)
    requires 0 <= k <= sts.len(),
    ensures dec_upto(b, sts + r, k, c) == dec_upto(b, sts, k, c),
    decreases r.len(),
{
    if r.len() == 0 {
        assert(sts + r =~= sts);
    } else {
        let r0 = r.subrange(0, r.len() - 1);
        lemma_dec_upto_prefix_seq(b, sts, r0, k, c);
        assert(sts + r =~= (sts + r0).push(r[r.len() - 1]));
        lemma_dec_upto_prefix(b, sts + r0, r[r.len() - 1], k, c);
    }
}
proof fn lemma_dec_none_mono(b: Seq<u8>, sts: Seq<int>, k: int, m: int, c: Option<DecoderContext>)
    requires 0 <= k <= m, dec_upto(b, sts, k, c) is None,
    ensures dec_upto(b, sts, m, c) is None,
    decreases m - k,
{
    if k < m { lemma_dec_none_mono(b, sts, k, m - 1, c); }
}
proof fn lemma_flags_prefix(ts: Seq<u16>, t: u16, i: int)
    requires 0 <= i <= ts.len(),
    ensures flags_at(ts.push(t), i) == flags_at(ts, i),
    decreases i,
{
    if i > 0 { lemma_flags_prefix(ts, t, i - 1); assert(ts.push(t)[i - 1] == ts[i - 1]); }
}
// a failing step makes the whole decoding fail (whatever follows)
proof fn lemma_step_fail(b: Seq<u8>, sts: Seq<int>, p: int, c: Option<DecoderContext>)
    requires header_ok(b), b.len() >= 20 + be16(b.subrange(2, 4)),
        walk_prefix(b.subrange(20, 20 + be16(b.subrange(2, 4))), sts, p), tlv_ok(b.subrange(20, 20 + be16(b.subrange(2, 4))), p),
        dec_upto(b, sts.push(p), sts.len() as int + 1, c) is None,
    ensures decoded(b, c) is None,
{
    let body = b.subrange(20, 20 + be16(b.subrange(2, 4)));
    let s1 = sts.push(p);
    assert(walk_prefix(body, s1, tlv_next(body, p))) by {
        assert forall|i: int| 0 <= i < s1.len() - 1 implies #[trigger] s1[i + 1] == tlv_next(body, s1[i]) by {
            if i + 1 < sts.len() { assert(sts[i + 1] == tlv_next(body, sts[i])); }
        }
    }
    lemma_walk_join(body, s1, tlv_next(body, p));
    match walk(body, tlv_next(body, p)) {
        Some(r) => {
            lemma_dec_upto_prefix_seq(b, s1, r, s1.len() as int, c);
            lemma_dec_none_mono(b, s1 + r, s1.len() as int, (s1 + r).len() as int, c);
        },
        None => {},
    }
}
