// ===== inc/txid.rs : stun_rs::TransactionId with its derived Clone/Copy/PartialEq/Eq (derived impls are
// structural by definition of #[derive]; specified, not re-verified)
//@item! stun_rs :: mod types > const TRANSACTION_ID_SIZE
//@item! stun_rs :: mod types > struct TransactionId
impl Clone for TransactionId { fn clone(&self) -> (r: Self) ensures r == *self { *self } }
impl Copy for TransactionId {}
impl vstd::std_specs::cmp::PartialEqSpecImpl for TransactionId {
    open spec fn obeys_eq_spec() -> bool { true }
    open spec fn eq_spec(&self, other: &TransactionId) -> bool { *self == *other }
}
impl PartialEq for TransactionId {
    #[verifier::external_body]
    fn eq(&self, other: &TransactionId) -> (r: bool) { unimplemented!() }
}
impl Eq for TransactionId {}
