// ===== inc/codec_common.rs : stun-rs common.rs, integer codecs and message type (shared by units codec and dec)

//@item stun_rs :: mod common > fn check_buffer_boundaries
//@spec
    ensures r is Ok <==> buffer@.len() >= limit,
//@end

pub open spec fn pad4(n: int) -> int { (4 - n % 4) % 4 }

//@item stun_rs :: mod common > fn padding
//@spec
    ensures r as int == pad4(value_size as int), r < 4, (value_size + r) % 4 == 0,
//@head
    proof { lemma_bitops_commute(); }
    let ghost m = value_size & 3usize;
    assert(m == value_size % 4usize) by (bit_vector) requires m == value_size & 3usize;
    assert(m < 4) by (bit_vector) requires m == value_size & 3usize;
    let ghost d = (4usize - m) as usize;
    assert(d & 3usize == d % 4usize) by (bit_vector);
    assert(1 <= d <= 4);
    let ghost rr = d % 4usize;
    assert(rr == (if m == 0 { 0usize } else { d }));
    assert((value_size as int + rr as int) % 4 == 0) by {
        let q = value_size as int / 4;
        assert(value_size as int == 4 * q + m as int);
        if m == 0 { assert((4 * q) % 4 == 0); } else { assert((4 * q + 4) % 4 == 0); }
    }
//@end

//@item stun_rs :: mod common > fn fill_padding_value
//@spec
    ensures r is Ok <==> old(buffer)@.len() >= size,
        final(buffer)@.len() == old(buffer)@.len(),
        r is Ok ==> forall|i: int| 0 <= i < size ==> final(buffer)@[i] == value,
        forall|i: int| size <= i < old(buffer)@.len() ==> final(buffer)@[i] == old(buffer)@[i],
        r is Err ==> final(buffer)@ == old(buffer)@,
//@end


// ---------------------------------------------------------------- traits and integer codecs
//@item! stun_rs :: trait Encode
//@item! stun_rs :: trait Decode

//@item! stun_rs :: mod common > const U64_SIZE
//@item! stun_rs :: mod common > const U32_SIZE
//@item! stun_rs :: mod common > const U16_SIZE
//@item! stun_rs :: mod common > const DEFAULT_PADDING_VALUE
//@item! stun_rs :: mod raw > const MESSAGE_HEADER_SIZE
//@item! stun_rs :: mod raw > const ATTRIBUTE_HEADER_SIZE
//@item! stun_rs :: mod types > const MAGIC_COOKIE_SIZE
//@item! stun_rs :: mod types > const TRANSACTION_ID_SIZE

impl Encode for u16 {
//@item stun_rs :: mod common > impl Encode for u16 > fn encode
//@spec
    ensures final(raw_value)@.len() == old(raw_value)@.len(),
        r is Ok <==> old(raw_value)@.len() >= 2,
        r is Ok ==> r->Ok_0 == 2 && be16(final(raw_value)@) == *self as int
            && final(raw_value)@.subrange(0, 2) == be16_seq(*self as int)
            && forall|i: int| 2 <= i < old(raw_value)@.len() ==> final(raw_value)@[i] == old(raw_value)@[i],
//@end
}
impl Encode for u32 {
//@item stun_rs :: mod common > impl Encode for u32 > fn encode
//@spec
    ensures final(raw_value)@.len() == old(raw_value)@.len(),
        r is Ok <==> old(raw_value)@.len() >= 4,
        r is Ok ==> r->Ok_0 == 4 && be32(final(raw_value)@) == *self as int
            && final(raw_value)@.subrange(0, 4) == be32_seq(*self as int)
            && forall|i: int| 4 <= i < old(raw_value)@.len() ==> final(raw_value)@[i] == old(raw_value)@[i],
//@end
}
impl Encode for u64 {
//@item stun_rs :: mod common > impl Encode for u64 > fn encode
//@spec
    ensures final(raw_value)@.len() == old(raw_value)@.len(),
        r is Ok <==> old(raw_value)@.len() >= 8,
        r is Ok ==> r->Ok_0 == 8 && be64(final(raw_value)@) == *self as int
            && final(raw_value)@.subrange(0, 8) == be64_seq(*self as int)
            && forall|i: int| 8 <= i < old(raw_value)@.len() ==> final(raw_value)@[i] == old(raw_value)@[i],
//@end
}
impl Decode<'_> for u16 {
//@item stun_rs :: mod common > impl crate::Decode<'_> for u16 > fn decode
//@spec
    ensures r is Ok <==> raw_value@.len() >= 2,
        r is Ok ==> r->Ok_0.1 == 2 && r->Ok_0.0 as int == be16(raw_value@),
//@end
}
impl Decode<'_> for u32 {
//@item stun_rs :: mod common > impl crate::Decode<'_> for u32 > fn decode
//@spec
    ensures r is Ok <==> raw_value@.len() >= 4,
        r is Ok ==> r->Ok_0.1 == 4 && r->Ok_0.0 as int == be32(raw_value@.subrange(0, 4)),
//@end
}
impl Decode<'_> for u64 {
//@item stun_rs :: mod common > impl crate::Decode<'_> for u64 > fn decode
//@spec
    ensures r is Ok <==> raw_value@.len() >= 8,
        r is Ok ==> r->Ok_0.1 == 8 && r->Ok_0.0 as int == be64(raw_value@.subrange(0, 8)),
//@end
}


// ---------------------------------------------------------------- message type (RFC 8489 section 5)
//@item! stun_rs :: mod types > struct Cookie
impl Cookie {
//@item stun_rs :: mod types > impl Cookie > fn as_u32
//@spec
    ensures r == self.0,
//@end
}
//@item! stun_rs :: mod types > const MAGIC_COOKIE
//@item! stun_rs :: mod types > struct TransactionId
impl TransactionId {
//@item stun_rs :: mod types > impl TransactionId > fn as_bytes
//@spec
    ensures r@ == self.0@,
//@end
}
//@item! stun_rs :: mod message > struct MessageMethod
//@item! stun_rs :: mod message > enum MessageClass
//@item! stun_rs :: mod message > struct MessageType
impl Clone for MessageMethod { fn clone(&self) -> (r: Self) ensures r == *self { *self } }
impl Copy for MessageMethod {}
impl Clone for MessageClass { fn clone(&self) -> (r: Self) ensures r == *self { *self } }
impl Copy for MessageClass {}

// RFC 8489 Figure 3:  bits 13..9 = M11..M7, bit 8 = C1, bits 7..5 = M6..M4, bit 4 = C0, bits 3..0 = M3..M0
pub open spec fn spec_class_bits(c: MessageClass) -> u16 {
    match c { MessageClass::Request => 0u16, MessageClass::Indication => 1u16,
              MessageClass::SuccessResponse => 2u16, MessageClass::ErrorResponse => 3u16 }
}
pub open spec fn rfc_type(m: u16, c: u16) -> u16 {
    ((m & 0x0F80u16) << 2u16) | ((c & 2u16) << 7u16) | ((m & 0x0070u16) << 1u16) | ((c & 1u16) << 4u16) | (m & 0x000Fu16)
}
pub open spec fn rfc_method_of(t: u16) -> u16 {
    ((t & 0x3E00u16) >> 2u16) | ((t & 0x00E0u16) >> 1u16) | (t & 0x000Fu16)
}
pub open spec fn rfc_class_of(t: u16) -> u16 {
    ((t & 0x0100u16) >> 7u16) | ((t & 0x0010u16) >> 4u16)
}

impl MessageClass {
//@item stun_rs :: mod message > impl MessageClass > fn as_u16
//@spec
    ensures r == spec_class_bits(*self), r <= 3,
//@end
}
impl MessageMethod {
//@item stun_rs :: mod message > impl MessageMethod > fn as_u16
//@spec
    ensures r == self.0,
//@end
}
impl MessageType {
//@item stun_rs :: mod message > impl MessageType > fn new
//@spec
    ensures r.method == method, r.class == class,
//@end
//@item stun_rs :: mod message > impl MessageType > fn class
//@spec
    ensures r == self.class,
//@end
//@item stun_rs :: mod message > impl MessageType > fn method
//@spec
    ensures r == self.method,
//@end
//@item stun_rs :: mod message > impl MessageType > fn as_u16
//@tags C02 C01
//@spec
    ensures self.method.0 <= 0x0FFF ==> r == rfc_type(self.method.0, spec_class_bits(self.class)) && r <= 0x3FFF,
//@before "((self.method.0 & 0x1F80) << 2)"
    proof { lemma_bitops_commute(); }
    let ghost m = self.method.0;
    let ghost c = spec_class_bits(self.class);
    assert(c <= 3);
    assert(m <= 0x0FFFu16 && c <= 3u16 ==> (((m & 0x1F80u16) << 2u16) | ((m & 0x0070u16) << 1u16) | (m & 0x000Fu16) | ((c & 0x0002u16) << 7u16) | ((c & 0x0001u16) << 4u16)) == (((m & 0x0F80u16) << 2u16) | ((c & 2u16) << 7u16) | ((m & 0x0070u16) << 1u16) | ((c & 1u16) << 4u16) | (m & 0x000Fu16))) by (bit_vector);
    assert(m <= 0x0FFFu16 && c <= 3u16 ==> (((m & 0x0F80u16) << 2u16) | ((c & 2u16) << 7u16) | ((m & 0x0070u16) << 1u16) | ((c & 1u16) << 4u16) | (m & 0x000Fu16)) <= 0x3FFFu16) by (bit_vector);
//@end
}
impl vstd::std_specs::convert::TryFromSpecImpl<u16> for MessageMethod {
    open spec fn obeys_try_from_spec() -> bool { false }
    open spec fn try_from_spec(v: u16) -> Result<Self, StunError> { arbitrary() }
}
impl TryFrom<u16> for MessageMethod {
    type Error = StunError;
//@item stun_rs :: mod message > impl TryFrom<u16> for MessageMethod > fn try_from
//@sub "Self::Error" => "StunError"
//@spec
    ensures r is Ok <==> value <= 0x0FFF,
        r is Ok ==> r->Ok_0.0 == value,
//@before "(value & 0xF000 =="
    proof { lemma_bitops_commute(); }
    assert((value & 0xF000u16 == 0u16) <==> value <= 0x0FFFu16) by (bit_vector);
//@end
}
impl vstd::std_specs::convert::TryFromSpecImpl<u8> for MessageClass {
    open spec fn obeys_try_from_spec() -> bool { false }
    open spec fn try_from_spec(v: u8) -> Result<Self, StunError> { arbitrary() }
}
impl TryFrom<u8> for MessageClass {
    type Error = StunError;
//@item stun_rs :: mod message > impl TryFrom<u8> for MessageClass > fn try_from
//@sub "Self::Error" => "StunError"
//@spec
    ensures r is Ok <==> value <= 3,
        r is Ok ==> spec_class_bits(r->Ok_0) == value as u16,
//@end
}
impl vstd::std_specs::convert::FromSpecImpl<u16> for MessageType {
    open spec fn obeys_from_spec() -> bool { false }
    open spec fn from_spec(v: u16) -> Self { arbitrary() }
}
impl From<u16> for MessageType {
//@item stun_rs :: mod message > impl From<u16> for MessageType > fn from
//@tags C02 C01 C03 C19
//@spec
    ensures r.method.0 == rfc_method_of(value & 0x3FFFu16), r.method.0 <= 0x0FFF,
        spec_class_bits(r.class) == rfc_class_of(value & 0x3FFFu16),
//@before "let class_u8: u8"
    proof { lemma_bitops_commute(); }
//@?val     assert((((val & 0x0100u16) >> 7u16) | ((val & 0x0010u16) >> 4u16)) <= 3u16) by (bit_vector);
//@?val     assert((((val & 0x3E00u16) >> 2u16) | ((val & 0x00E0u16) >> 1u16) | (val & 0x000Fu16)) <= 0x0FFFu16) by (bit_vector);
//@before "let method_u16: u16"
    // (the same two facts again: whichever of the two conversions comes first in the code finds them in front of it)
//@?val     assert((((val & 0x0100u16) >> 7u16) | ((val & 0x0010u16) >> 4u16)) <= 3u16) by (bit_vector);
//@?val     assert((((val & 0x3E00u16) >> 2u16) | ((val & 0x00E0u16) >> 1u16) | (val & 0x000Fu16)) <= 0x0FFFu16) by (bit_vector);
//@end
}
impl Encode for MessageType {
//@item stun_rs :: mod message > impl Encode for MessageType > fn encode
//@spec
    ensures final(buffer)@.len() == old(buffer)@.len(),
        r is Ok <==> old(buffer)@.len() >= 2,
        r is Ok ==> r->Ok_0 == 2
            && (self.method.0 <= 0x0FFF ==> be16(final(buffer)@) == rfc_type(self.method.0, spec_class_bits(self.class)) as int)
            && forall|i: int| 2 <= i < old(buffer)@.len() ==> final(buffer)@[i] == old(buffer)@[i],
//@end
}
// the interleaving is a bijection on 14 bits: all 4096 x 4 (method, class) pairs at once
// props: C02 C01
proof fn lemma_rfc_type_roundtrip(m: u16, c: u16)
    requires m <= 0x0FFF, c <= 3,
    ensures rfc_method_of(rfc_type(m, c) & 0x3FFFu16) == m, rfc_class_of(rfc_type(m, c) & 0x3FFFu16) == c,
{
    assert(m <= 0x0FFFu16 && c <= 3u16 ==> rfc_method_of(rfc_type(m, c) & 0x3FFFu16) == m) by (bit_vector);
    assert(m <= 0x0FFFu16 && c <= 3u16 ==> rfc_class_of(rfc_type(m, c) & 0x3FFFu16) == c) by (bit_vector);
}
// props: C02 C01
proof fn lemma_rfc_type_roundtrip_rev(t: u16)
    requires t <= 0x3FFF,
    ensures rfc_type(rfc_method_of(t), rfc_class_of(t)) == t,
{
    assert(t <= 0x3FFFu16 ==> rfc_type(rfc_method_of(t), rfc_class_of(t)) == t) by (bit_vector);
}


// the header length field (bytes 2..4, big-endian) set to l
pub open spec fn set_len(p: Seq<u8>, l: int) -> Seq<u8> {
    p.update(2, (l / 256) as u8).update(3, (l % 256) as u8)
}
