// ===== inc/attrs_addr.rs : address attributes (RFC 8489 14.1, 14.2; RFC 8656 18.3, 18.5; RFC 5780 7.3-7.4)
//@include prelude/net.rs
pub open spec fn arr4(s: Seq<u8>) -> [u8; 4] { choose|a: [u8; 4]| a@ == s }
pub open spec fn arr16(s: Seq<u8>) -> [u8; 16] { choose|a: [u8; 16]| a@ == s }
pub proof fn lemma_arr4(a: [u8; 4]) ensures arr4(a@) == a { let b = arr4(a@); assert(b@ =~= a@); vstd::array::axiom_array_ext_equal(a, b); }
pub proof fn lemma_arr16(a: [u8; 16]) ensures arr16(a@) == a { let b = arr16(a@); assert(b@ =~= a@); vstd::array::axiom_array_ext_equal(a, b); }
pub open spec fn ip_bytes(ip: IpAddr) -> Seq<u8> { match ip { IpAddr::V4(a) => a.o@, IpAddr::V6(a) => a.o@ } }
pub open spec fn ip_family(ip: IpAddr) -> u8 { match ip { IpAddr::V4(_) => 1u8, IpAddr::V6(_) => 2u8 } }
// MAPPED-ADDRESS layout: 0x00, family, port (big-endian), address
pub open spec fn addr_wire(a: SocketAddr) -> Seq<u8> { seq![0u8, ip_family(a.ip)] + be16_seq(a.port as int) + ip_bytes(a.ip) }
// (the first byte is ignored by a receiver)
pub open spec fn addr_unwire(raw: Seq<u8>) -> Option<SocketAddr> {
    if raw.len() >= 8 && raw[1] == 1 {
        Some(SocketAddr { ip: IpAddr::V4(Ipv4Addr { o: arr4(raw.subrange(4, 8)) }), port: be16(raw.subrange(2, 4)) as u16 })
    } else if raw.len() >= 20 && raw[1] == 2 {
        Some(SocketAddr { ip: IpAddr::V6(Ipv6Addr { o: arr16(raw.subrange(4, 20)) }), port: be16(raw.subrange(2, 4)) as u16 })
    } else { None }
}
pub open spec fn addr_wire_len(a: SocketAddr) -> int { match a.ip { IpAddr::V4(_) => 8, IpAddr::V6(_) => 20 } }
// props: C01 C02
pub proof fn lemma_addr_roundtrip(a: SocketAddr)
    ensures addr_unwire(addr_wire(a)) == Some(a), addr_wire(a).len() == addr_wire_len(a),
{
    let raw = addr_wire(a);
    lemma_be16_roundtrip(a.port as int);
    assert(raw.subrange(2, 4) =~= be16_seq(a.port as int));
    match a.ip {
        IpAddr::V4(x) => { assert(raw.subrange(4, 8) =~= x.o@); lemma_arr4(x.o); }
        IpAddr::V6(x) => { assert(raw.subrange(4, 20) =~= x.o@); lemma_arr16(x.o); }
    }
}
//@item stun_rs :: mod attributes > mod address_port > fn encoded_size_
//@tags C02 C14
//@spec
    ensures r == addr_wire_len(*addr),
//@end
impl Decode<'_> for SocketAddr {
//@item stun_rs :: mod attributes > mod address_port > impl Decode<'_> for SocketAddr > fn decode
//@tags C01 C02 C03
//@after "dst.clone_from_slice(&buffer[4..8]);"
    proof { assert(dst@ =~= buffer@.subrange(4, 8)); lemma_arr4(dst); }
//@after "dst.clone_from_slice(&buffer[4..20]);"
    proof { assert(dst@ =~= buffer@.subrange(4, 20)); lemma_arr16(dst); }
//@spec
    ensures r is Ok <==> addr_unwire(buffer@) is Some,
        r is Ok ==> Some(r->Ok_0.0) == addr_unwire(buffer@) && r->Ok_0.1 == addr_wire_len(r->Ok_0.0) && r->Ok_0.1 <= buffer@.len(),
//@end
}
impl Encode for SocketAddr {
//@item stun_rs :: mod attributes > mod address_port > impl Encode for SocketAddr > fn encode
//@tags C01 C02 C14
//@prefix
    #[verifier::spinoff_prover]
//@before "Ok(length)"
    // (stated about the finished buffer, so that the order of the four writes does not matter)
    proof {
        assert(buffer@.subrange(2, 4) == be16_seq(self.port as int));
        match self.ip {
            IpAddr::V4(a) => {
                assert(buffer@.subrange(4, 8) =~= a.o@);
                assert(buffer@.subrange(0, 8) =~= seq![0u8, 1u8] + buffer@.subrange(2, 4) + buffer@.subrange(4, 8));
            }
            IpAddr::V6(a) => {
                assert(buffer@.subrange(4, 20) =~= a.o@);
                assert(buffer@.subrange(0, 20) =~= seq![0u8, 2u8] + buffer@.subrange(2, 4) + buffer@.subrange(4, 20));
            }
        }
    }
//@spec
    ensures final(buffer)@.len() == old(buffer)@.len(),
        r is Ok <==> old(buffer)@.len() >= addr_wire_len(*self),
        r is Ok ==> r->Ok_0 == addr_wire_len(*self) && final(buffer)@.subrange(0, r->Ok_0 as int) == addr_wire(*self)
            && forall|i: int| r->Ok_0 <= i < old(buffer)@.len() ==> final(buffer)@[i] == old(buffer)@[i],
//@end
}

// ---------------------------------------------------------------- XOR addresses (RFC 8489 14.2): port ^ (cookie >> 16); IPv4 ^ cookie;
// IPv6 ^ (cookie ++ transaction id)
pub open spec fn cookie_byte(i: int) -> u8 { if i == 0 { 0x21u8 } else if i == 1 { 0x12u8 } else if i == 2 { 0xA4u8 } else { 0x42u8 } }
pub open spec fn xor_key(tid: Seq<u8>, i: int) -> u8 { if i < 4 { cookie_byte(i) } else { tid[i - 4] } }
pub open spec fn xor_bytes(s: Seq<u8>, tid: Seq<u8>) -> Seq<u8> { Seq::new(s.len(), |i: int| s[i] ^ xor_key(tid, i)) }
pub open spec fn xor_ip(ip: IpAddr, tid: Seq<u8>) -> IpAddr {
    match ip {
        IpAddr::V4(a) => IpAddr::V4(Ipv4Addr { o: arr4(xor_bytes(a.o@, tid)) }),
        IpAddr::V6(a) => IpAddr::V6(Ipv6Addr { o: arr16(xor_bytes(a.o@, tid)) }),
    }
}
pub open spec fn xor_sock(a: SocketAddr, tid: Seq<u8>) -> SocketAddr { SocketAddr { ip: xor_ip(a.ip, tid), port: a.port ^ 0x2112u16 } }
pub proof fn lemma_cookie_shift(i: usize)
    requires i < 4,
    ensures ((0x2112_A442u32 >> ((24 - i * 8) as u32)) as u8) == cookie_byte(i as int),
{
    assert((0x2112_A442u32 >> 24u32) as u8 == 0x21u8) by (bit_vector);
    assert((0x2112_A442u32 >> 16u32) as u8 == 0x12u8) by (bit_vector);
    assert((0x2112_A442u32 >> 8u32) as u8 == 0xA4u8) by (bit_vector);
    assert((0x2112_A442u32 >> 0u32) as u8 == 0x42u8) by (bit_vector);
}
// props: C01
pub proof fn lemma_xor_involution(a: SocketAddr, tid: Seq<u8>)
    requires tid.len() == 12,
    ensures xor_sock(xor_sock(a, tid), tid) == a,
{
    let p = a.port;
    assert((p ^ 0x2112u16) ^ 0x2112u16 == p) by (bit_vector);
    assert forall|x: u8, k: u8| (x ^ k) ^ k == x by { assert((x ^ k) ^ k == x) by (bit_vector); }
    match a.ip {
        IpAddr::V4(x) => {
            let y = arr4(xor_bytes(x.o@, tid));
            assert(y@ == xor_bytes(x.o@, tid)) by {
                // an array with these four elements exists
                let w = [x.o[0] ^ xor_key(tid, 0), x.o[1] ^ xor_key(tid, 1), x.o[2] ^ xor_key(tid, 2), x.o[3] ^ xor_key(tid, 3)];
                assert(w@ =~= xor_bytes(x.o@, tid));
            }
            assert(xor_bytes(y@, tid) =~= x.o@);
            lemma_arr4(x.o);
        }
        IpAddr::V6(x) => {
            let y = arr16(xor_bytes(x.o@, tid));
            assert(y@ == xor_bytes(x.o@, tid)) by { lemma_arr16_exists(xor_bytes(x.o@, tid)); }
            assert(xor_bytes(y@, tid) =~= x.o@);
            lemma_arr16(x.o);
        }
    }
}
// every 16-byte sequence is the view of some array (witness: the array literal)
pub proof fn lemma_arr16_exists(s: Seq<u8>)
    requires s.len() == 16,
    ensures arr16(s)@ == s,
{
    let w = [s[0], s[1], s[2], s[3], s[4], s[5], s[6], s[7], s[8], s[9], s[10], s[11], s[12], s[13], s[14], s[15]];
    assert(w@ =~= s);
}
//@item stun_rs :: mod common > fn socket_addr_xor
//@tags C01 C02 C03
//@rules R3M
//@spec
    ensures r == xor_sock(*addr, transaction_id@),
//@before "let xor_port"
    proof { lemma_bitops_commute(); }
    proof { assert((0x2112_A442u32 >> 16u32) as u16 == 0x2112u16) by (bit_vector); }
//@loop 1
    invariant vx_n0 == 4, vx_k0 <= 4,
        forall|k: int| 0 <= k < vx_k0 ==> octets[k] == ip.o[k] ^ cookie_byte(k),
        forall|k: int| vx_k0 <= k < 4 ==> octets[k] == ip.o[k],
    decreases vx_n0 - vx_k0,
//@loopstart 1
    proof { lemma_cookie_shift(vx_k0); }
//@loop 2
    invariant vx_n1 == 4, vx_k1 <= 4,
        forall|k: int| 0 <= k < vx_k1 ==> octets[k] == ip.o[k] ^ cookie_byte(k),
        forall|k: int| vx_k1 <= k < 16 ==> octets[k] == ip.o[k],
    decreases vx_n1 - vx_k1,
//@loopstart 2
    proof { lemma_cookie_shift(vx_k1); }
//@loop 3
    invariant vx_n2 == 16, 4 <= vx_k2 <= 16,
        forall|k: int| 0 <= k < 4 ==> octets[k] == ip.o[k] ^ cookie_byte(k),
        forall|k: int| 4 <= k < vx_k2 ==> octets[k] == ip.o[k] ^ transaction_id[k - 4],
        forall|k: int| vx_k2 <= k < 16 ==> octets[k] == ip.o[k],
    decreases vx_n2 - vx_k2,
//@before "let xor_ip"#1
    proof { assert(octets@ =~= xor_bytes(ip.o@, transaction_id@)); lemma_arr4(octets); }
//@before "let xor_ip"#2
    proof { assert(octets@ =~= xor_bytes(ip.o@, transaction_id@)); lemma_arr16(octets); }
//@end
//@item stun_rs :: mod common > fn xor_encode
//@tags C01 C02 C14
//@sig
pub fn xor_encode(transaction_id: &[u8; TRANSACTION_ID_SIZE], addr: &SocketAddr, buffer: &mut [u8]) -> (r: Result<usize, StunError>)
//@sub "addr.as_ref()" => "addr"
//@spec
    ensures final(buffer)@.len() == old(buffer)@.len(),
        r is Ok <==> old(buffer)@.len() >= addr_wire_len(*addr),
        r is Ok ==> r->Ok_0 == addr_wire_len(*addr) && final(buffer)@.subrange(0, r->Ok_0 as int) == addr_wire(xor_sock(*addr, transaction_id@))
            && forall|i: int| r->Ok_0 <= i < old(buffer)@.len() ==> final(buffer)@[i] == old(buffer)@[i],
//@end
//@item stun_rs :: mod common > fn xor_decode
//@tags C01 C02 C03
//@spec
    ensures r is Ok <==> addr_unwire(buffer@) is Some,
        r is Ok ==> r->Ok_0.0 == xor_sock(addr_unwire(buffer@)->Some_0, transaction_id@) && r->Ok_0.1 <= buffer@.len(),
//@end
