// ===== inc/fp_vocab.rs : FINGERPRINT check vocabulary shared by units attrset and client
#[verifier::external_body]
pub struct Fingerprint { _p: () }
pub uninterp spec fn fp_validates(fp: Fingerprint, input: Seq<u8>) -> bool;   // unit attrs: stored == CRC-32(input)
pub uninterp spec fn fp_input(raw: Seq<u8>) -> Option<Seq<u8>>;                // unit dec: input_text(raw, FINGERPRINT)
pub uninterp spec fn fp_of(a: StunAttribute) -> Fingerprint;
pub uninterp spec fn fp_default_attr() -> StunAttribute;                      // StunAttribute::Fingerprint(Fingerprint::default())
// the first FINGERPRINT of a (decoded) message, if any
pub open spec fn first_fp(attrs: Seq<StunAttribute>) -> Option<int> {
    if exists|k: int| 0 <= k < attrs.len() && attrs[k].ty() == TY_FINGERPRINT && (forall|j: int| 0 <= j < k ==> attrs[j].ty() != TY_FINGERPRINT) {
        Some(choose|k: int| 0 <= k < attrs.len() && attrs[k].ty() == TY_FINGERPRINT && (forall|j: int| 0 <= j < k ==> attrs[j].ty() != TY_FINGERPRINT))
    } else { None }
}
// C10: the verdict the client acts on: None = no FINGERPRINT (or no input text) -> the message is refused
pub open spec fn fp_verdict_of(raw: Seq<u8>, attrs: Seq<StunAttribute>) -> Option<bool> {
    match first_fp(attrs) {
        Some(k) => match fp_input(raw) { Some(t) => Some(fp_validates(fp_of(attrs[k]), t)), None => None },
        None => None,
    }
}
