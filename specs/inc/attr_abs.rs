// ===== inc/attr_abs.rs : stun_rs::StunAttribute as seen by stun-agent: an opaque value with a type code.
// The generated `is_xxx()` / `attribute_type()` dispatch (macro stunt_attribute_impl!) is specified here:
// variant X <=> type code of X (unit attrs proves the per-kind type codes, C02).
//@item! stun_rs :: mod attributes > struct AttributeType
impl Clone for AttributeType { fn clone(&self) -> (r: Self) ensures r == *self { *self } }
impl Copy for AttributeType {}
impl vstd::std_specs::cmp::PartialEqSpecImpl for AttributeType {
    open spec fn obeys_eq_spec() -> bool { true }
    open spec fn eq_spec(&self, other: &AttributeType) -> bool { self.0 == other.0 }
}
impl PartialEq for AttributeType {
    #[verifier::external_body]
    fn eq(&self, other: &AttributeType) -> (r: bool) { unimplemented!() }
}
pub spec const TY_MESSAGE_INTEGRITY: u16 = 0x0008;
pub spec const TY_MESSAGE_INTEGRITY_SHA256: u16 = 0x001C;
pub spec const TY_FINGERPRINT: u16 = 0x8028;
pub spec const TY_USERNAME: u16 = 0x0006;
pub spec const TY_REALM: u16 = 0x0014;
pub spec const TY_NONCE: u16 = 0x0015;
pub spec const TY_USERHASH: u16 = 0x001E;
pub spec const TY_PASSWORD_ALGORITHM: u16 = 0x001D;
pub spec const TY_PASSWORD_ALGORITHMS: u16 = 0x8002;
pub spec const TY_ERROR_CODE: u16 = 0x0009;
#[verifier::external_body]
pub struct StunAttribute { _p: () }
impl StunAttribute {
    pub uninterp spec fn ty(&self) -> u16;
    #[verifier::external_body]
    pub fn attribute_type(&self) -> (r: AttributeType) ensures r.0 == self.ty() { unimplemented!() }
    #[verifier::external_body]
    pub fn is_message_integrity(&self) -> (r: bool) ensures r == (self.ty() == TY_MESSAGE_INTEGRITY) { unimplemented!() }
    #[verifier::external_body]
    pub fn is_message_integrity_sha256(&self) -> (r: bool) ensures r == (self.ty() == TY_MESSAGE_INTEGRITY_SHA256) { unimplemented!() }
    #[verifier::external_body]
    pub fn is_fingerprint(&self) -> (r: bool) ensures r == (self.ty() == TY_FINGERPRINT) { unimplemented!() }
}
impl Clone for StunAttribute {
    #[verifier::external_body]
    fn clone(&self) -> (r: Self) ensures r == *self { unimplemented!() }
}
// trait stun_rs::StunAttributeType, with the type code as a spec constant of the implementing kind
pub trait StunAttributeType {
    spec fn spec_type() -> u16;
    fn get_type() -> (r: AttributeType) where Self: Sized
        ensures r.0 == Self::spec_type();
}
// `E.iter().position(f)`: first index whose element satisfies f (std's Iterator::position on a slice iterator)
pub fn vx_position<T, F: Fn(&T) -> bool>(v: &Vec<T>, f: F) -> (r: Option<usize>)
    requires forall|i: int| 0 <= i < v@.len() ==> call_requires(f, (&v@[i],)),
    ensures match r {
        Some(k) => k < v@.len() && call_ensures(f, (&v@[k as int],), true)
            && forall|j: int| 0 <= j < k ==> call_ensures(f, (&v@[j],), false),
        None => forall|j: int| 0 <= j < v@.len() ==> call_ensures(f, (&v@[j],), false),
    },
{
    let mut i: usize = 0;
    while i < v.len()
        invariant i <= v@.len(),
            forall|j: int| 0 <= j < v@.len() ==> call_requires(f, (&v@[j],)),
            forall|j: int| 0 <= j < i ==> call_ensures(f, (&v@[j],), false),
        decreases v@.len() - i,
    {
        if f(&v[i]) { return Some(i); }
        i += 1;
    }
    None
}
