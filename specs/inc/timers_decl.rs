// ===== inc/timers_decl.rs : timeout.rs / rtt.rs as callees: bodies opaque, contracts imported from unit `timers`
//@include inc/timers_vocab.rs
impl StunMessageTimeout {
//@import timers :: stun_agent :: mod timeout > impl StunMessageTimeout > fn add
//@import timers :: stun_agent :: mod timeout > impl StunMessageTimeout > fn remove
//@import timers :: stun_agent :: mod timeout > impl StunMessageTimeout > fn next_timeout
//@import timers :: stun_agent :: mod timeout > impl StunMessageTimeout > fn check
}
impl Default for StunMessageTimeout {
//@import timers :: stun_agent :: mod timeout > impl ::core::default::Default for StunMessageTimeout > fn default
}
impl RtoManager {
//@import timers :: stun_agent :: mod timeout > impl RtoManager > fn new
//@import timers :: stun_agent :: mod timeout > impl RtoManager > fn next_rto
}
impl RttCalcuator {
//@import timers :: stun_agent :: mod rtt > impl RttCalcuator > fn new
//@import timers :: stun_agent :: mod rtt > impl RttCalcuator > fn reset
//@import timers :: stun_agent :: mod rtt > impl RttCalcuator > fn rto
//@import timers :: stun_agent :: mod rtt > impl RttCalcuator > fn update
}
