// ===== inc/attrs_types.rs : value types of stun-rs/src/types.rs used by attribute kinds
// ---------------------------------------------------------------- AddressFamily (RFC 8489 14.1: 0x01 IPv4, 0x02 IPv6)
//@item! stun_rs :: mod types > const ADDRESS_FAMILY_SIZE
//@item! stun_rs :: mod types > enum AddressFamily
impl Clone for AddressFamily { fn clone(&self) -> (r: Self) ensures r == *self { *self } }
impl Copy for AddressFamily {}
pub open spec fn family_code(f: AddressFamily) -> u8 { match f { AddressFamily::IPv4 => 1u8, AddressFamily::IPv6 => 2u8 } }
pub open spec fn family_of(b: u8) -> Option<AddressFamily> {
    if b == 1 { Some(AddressFamily::IPv4) } else if b == 2 { Some(AddressFamily::IPv6) } else { None }
}
impl vstd::std_specs::convert::TryFromSpecImpl<u8> for AddressFamily {
    open spec fn obeys_try_from_spec() -> bool { false }
    open spec fn try_from_spec(v: u8) -> Result<Self, Self::Error> { arbitrary() }
}
impl TryFrom<u8> for AddressFamily {
    type Error = StunError;
//@item stun_rs :: mod types > impl TryFrom<u8> for AddressFamily > fn try_from
//@tags C02 C03 C19
//@spec
    ensures r is Ok <==> family_of(value) is Some, r is Ok ==> Some(r->Ok_0) == family_of(value),
//@end
}
impl Decode<'_> for AddressFamily {
//@item stun_rs :: mod types > impl crate::Decode<'_> for AddressFamily > fn decode
//@tags C02 C03
//@spec
    ensures r is Ok <==> raw_value@.len() >= 1 && family_of(raw_value@[0]) is Some,
        r is Ok ==> r->Ok_0.1 == 1 && Some(r->Ok_0.0) == family_of(raw_value@[0]),
//@end
}
impl Encode for AddressFamily {
//@item stun_rs :: mod types > impl Encode for AddressFamily > fn encode
//@tags C02 C14
//@spec
    ensures final(raw_value)@.len() == old(raw_value)@.len(),
        r is Ok <==> old(raw_value)@.len() >= 1,
        r is Ok ==> r->Ok_0 == 1 && final(raw_value)@[0] == family_code(*self)
            && forall|i: int| 1 <= i < old(raw_value)@.len() ==> final(raw_value)@[i] == old(raw_value)@[i],
//@end
}
