// ===== inc/attrs_types.rs : value types of stun-rs/src/types.rs used by attribute kinds
// ---------------------------------------------------------------- AddressFamily (RFC 8489 14.1: 0x01 IPv4, 0x02 IPv6)
//@item! stun_rs :: mod types > const ADDRESS_FAMILY_SIZE
//@item! stun_rs :: mod types > enum AddressFamily
impl Clone for AddressFamily { fn clone(&self) -> (r: Self) ensures r == *self { *self } }
impl Copy for AddressFamily {}
pub open spec fn family_code(f: AddressFamily) -> u8 { match f { AddressFamily::IPv4 => 1u8, AddressFamily::IPv6 => 2u8 } }
pub open spec fn family_of(b: u8) -> Option<AddressFamily> {
    if b == 1 { Some(AddressFamily::IPv4) } else if b == 2 { Some(AddressFamily::IPv6) } else { None }
}
impl vstd::std_specs::convert::TryFromSpecImpl<u8> for AddressFamily {
    open spec fn obeys_try_from_spec() -> bool { false }
    open spec fn try_from_spec(v: u8) -> Result<Self, Self::Error> { arbitrary() }
}
impl TryFrom<u8> for AddressFamily {
    type Error = StunError;
//@item stun_rs :: mod types > impl TryFrom<u8> for AddressFamily > fn try_from
//@tags C02 C03 C19
//@spec
    ensures r is Ok <==> family_of(value) is Some, r is Ok ==> Some(r->Ok_0) == family_of(value),
//@end
}
impl Decode<'_> for AddressFamily {
//@item stun_rs :: mod types > impl crate::Decode<'_> for AddressFamily > fn decode
//@tags C02 C03
//@spec
    ensures r is Ok <==> raw_value@.len() >= 1 && family_of(raw_value@[0]) is Some,
        r is Ok ==> r->Ok_0.1 == 1 && Some(r->Ok_0.0) == family_of(raw_value@[0]),
//@end
}
impl Encode for AddressFamily {
//@item stun_rs :: mod types > impl Encode for AddressFamily > fn encode
//@tags C02 C14
//@spec
    ensures final(raw_value)@.len() == old(raw_value)@.len(),
        r is Ok <==> old(raw_value)@.len() >= 1,
        r is Ok ==> r->Ok_0 == 1 && final(raw_value)@[0] == family_code(*self)
            && forall|i: int| 1 <= i < old(raw_value)@.len() ==> final(raw_value)@[i] == old(raw_value)@[i],
//@end
}

// ---------------------------------------------------------------- ErrorCode (RFC 8489 14.8): reserved(21)=0 class(3) number(8) reason(UTF-8)
// The struct keeps its private fields (module + KEEPPRIV) so that the range 300..700 established by `new` is a Verus
// type invariant: that invariant is why class()/number() cannot panic.
pub mod vx_error_code {
    use super::*;
    use vstd::string::*;
//@consts stun_rs :: mod types
//@item stun_rs :: mod types > struct ErrorCode
//@rules KEEPPRIV
//@end
impl ErrorCode {
    #[verifier::type_invariant]
    pub closed spec fn inv(self) -> bool { 300 <= self.error_code < 700 }
    pub closed spec fn code(self) -> u16 { self.error_code }
    pub closed spec fn reason_chars(self) -> Seq<char> { self.reason@ }
//@item stun_rs :: mod types > impl ErrorCode > fn new
//@tags C19 C02
//@sub "String::from(reason)" => "vx_string_from(reason)"
//@closure 1
|| -> (s: Self)
    requires 300 <= error_code < 700,
    ensures s.error_code == error_code && s.reason@ == reason@,
//@spec
    ensures r is Ok <==> 300 <= error_code < 700,
        r is Ok ==> r->Ok_0.code() == error_code && r->Ok_0.reason_chars() == reason@,
//@end
//@item stun_rs :: mod types > impl ErrorCode > fn error_code
//@tags C19
//@spec
    ensures r == self.code(), 300 <= r < 700,
//@head
    proof { use_type_invariant(self); }
//@end
//@item stun_rs :: mod types > impl ErrorCode > fn class
//@tags C19 C02 C03
//@spec
    ensures r == self.code() / 100,
//@head
    proof { use_type_invariant(self); }
//@end
//@item stun_rs :: mod types > impl ErrorCode > fn number
//@tags C19 C02 C03
//@spec
    ensures r == self.code() % 100,
//@head
    proof { use_type_invariant(self); }
//@end
//@item stun_rs :: mod types > impl ErrorCode > fn reason
//@tags C19
//@spec
    ensures r@ == self.reason_chars(),
//@end
}
impl Clone for ErrorCode {
//@item stun_rs :: mod types > impl ::core::clone::Clone for ErrorCode > fn clone
//@tags C19
//@spec
    ensures r == *self,
//@head
    proof { use_type_invariant(self); }
//@end
}
pub proof fn lemma_error_code_ext(a: ErrorCode, b: ErrorCode)
    requires a.code() == b.code(), a.reason_chars() == b.reason_chars(),
    ensures a == b,
{
    axiom_string_ext(a.reason, b.reason);
}
pub open spec fn error_code_wire(code: int, reason: Seq<char>) -> Seq<u8> {
    seq![0u8, 0u8, (code / 100) as u8, (code % 100) as u8] + vstd::utf8::encode_utf8(reason)
}
impl Decode<'_> for ErrorCode {
//@item stun_rs :: mod types > impl crate::Decode<'_> for ErrorCode > fn decode
//@tags C02 C03 C01
//@sub "reason.len()" => "vx_str_len(reason)"
//@after "let class ="
    proof { lemma_bitops_commute(); }
    proof { let b = raw_value[2]; assert(b & 0x07 == b % 8) by (bit_vector); }
//@before "if vx_str_len(reason)"
    proof {
        assert(reason.spec_bytes() == vstd::utf8::encode_utf8(reason@));
    }
//@spec
    // class = low 3 bits of byte 2 (the 21 reserved bits are ignored), must be 3..=6; number = byte 3, must be 0..=99
    ensures r is Ok <==> raw_value@.len() >= 4 && 3 <= raw_value@[2] % 8 <= 6 && raw_value@[3] <= 99
            && vstd::utf8::valid_utf8(raw_value@.subrange(4, raw_value@.len() as int)) && raw_value@.len() - 4 <= 763,
        r is Ok ==> r->Ok_0.1 == raw_value@.len() && r->Ok_0.0.code() == (raw_value@[2] % 8) * 100 + raw_value@[3]
            && vstd::utf8::encode_utf8(r->Ok_0.0.reason_chars()) == raw_value@.subrange(4, raw_value@.len() as int),
//@end
}
impl Encode for ErrorCode {
//@item stun_rs :: mod types > impl Encode for ErrorCode > fn encode
//@tags C02 C14 C01
//@spec
    ensures final(raw_value)@.len() == old(raw_value)@.len(),
        r is Ok <==> vstd::utf8::encode_utf8(self.reason_chars()).len() <= 509
            && old(raw_value)@.len() >= 4 + vstd::utf8::encode_utf8(self.reason_chars()).len(),
        r is Ok ==> r->Ok_0 == 4 + vstd::utf8::encode_utf8(self.reason_chars()).len()
            && final(raw_value)@.subrange(0, r->Ok_0 as int) == error_code_wire(self.code() as int, self.reason_chars())
            && forall|i: int| r->Ok_0 <= i < old(raw_value)@.len() ==> final(raw_value)@[i] == old(raw_value)@[i],
//@end
}
} // mod vx_error_code
pub use vx_error_code::*;
pub type ErrorCodeType = vx_error_code::ErrorCode;
// what a well-formed ERROR-CODE value means (None = malformed)
pub open spec fn error_code_unwire(raw: Seq<u8>) -> Option<ErrorCodeType> {
    if raw.len() >= 4 && 3 <= raw[2] % 8 <= 6 && raw[3] <= 99 && vstd::utf8::valid_utf8(raw.subrange(4, raw.len() as int)) && raw.len() - 4 <= 763 {
        Some(choose|e: ErrorCodeType| e.code() == (raw[2] % 8) * 100 + raw[3]
            && vstd::utf8::encode_utf8(e.reason_chars()) == raw.subrange(4, raw.len() as int))
    } else { None }
}
pub proof fn lemma_error_code_unwire_unique(raw: Seq<u8>, e: ErrorCodeType)
    requires error_code_unwire(raw) is Some, e.code() == (raw[2] % 8) * 100 + raw[3],
        vstd::utf8::encode_utf8(e.reason_chars()) == raw.subrange(4, raw.len() as int),
    ensures error_code_unwire(raw) == Some(e),
{
    let e1 = error_code_unwire(raw)->Some_0;
    lemma_utf8_injective(e1.reason_chars(), e.reason_chars());
    lemma_error_code_ext(e1, e);
}

// props: C01 C02
pub proof fn lemma_error_code_roundtrip(e: ErrorCodeType)
    requires 300 <= e.code() < 700, vstd::utf8::encode_utf8(e.reason_chars()).len() <= 509,
    ensures error_code_unwire(error_code_wire(e.code() as int, e.reason_chars())) == Some(e),
{
    let raw = error_code_wire(e.code() as int, e.reason_chars());
    let r = vstd::utf8::encode_utf8(e.reason_chars());
    vstd::utf8::encode_utf8_valid_utf8(e.reason_chars());
    assert(raw.subrange(4, raw.len() as int) =~= r);
    let c = e.code() as int;
    assert(raw[2] == (c / 100) as u8 && raw[3] == (c % 100) as u8);
    assert(3 <= c / 100 <= 6 && (c / 100) % 8 == c / 100);
    lemma_error_code_unwire_unique(raw, e);
}

// ---------------------------------------------------------------- common.rs: UTF-8 text values (`impl Decode for &str`, `impl Encode for &str`)
impl<'a> Decode<'a> for &'a str {
//@item stun_rs :: mod common > impl<'a> crate::Decode<'a> for &'a str > fn decode
//@tags C01 C02 C03
//@sub "value.len()" => "vx_str_len(value)"
//@spec
    ensures r is Ok <==> vstd::utf8::valid_utf8(raw_value@),
        r is Ok ==> r->Ok_0.1 == raw_value@.len() && r->Ok_0.0.spec_bytes() == raw_value@,
//@end
}
impl Encode for &str {
//@item stun_rs :: mod common > impl Encode for &str > fn encode
//@tags C01 C02 C14
//@sub "self.len()" => "vx_str_len(self)"
//@spec
    ensures final(raw_value)@.len() == old(raw_value)@.len(),
        r is Ok <==> old(raw_value)@.len() >= self.spec_bytes().len(),
        r is Ok ==> r->Ok_0 == self.spec_bytes().len() && final(raw_value)@.subrange(0, r->Ok_0 as int) == self.spec_bytes()
            && forall|i: int| r->Ok_0 <= i < old(raw_value)@.len() ==> final(raw_value)@[i] == old(raw_value)@[i],
//@end
}

// ---------------------------------------------------------------- algorithm.rs (RFC 8489 18.5: 0 reserved, 1 MD5, 2 SHA-256)
//@item! stun_rs :: mod algorithm > enum AlgorithmId
impl Clone for AlgorithmId { fn clone(&self) -> (r: Self) ensures r == *self { *self } }
impl Copy for AlgorithmId {}
pub open spec fn alg_of(v: u16) -> AlgorithmId {
    if v == 0 { AlgorithmId::Reserved } else if v == 1 { AlgorithmId::MD5 } else if v == 2 { AlgorithmId::SHA256 } else { AlgorithmId::Unassigned(v) }
}
pub open spec fn alg_code(a: AlgorithmId) -> u16 {
    match a { AlgorithmId::Reserved => 0u16, AlgorithmId::MD5 => 1u16, AlgorithmId::SHA256 => 2u16, AlgorithmId::Unassigned(v) => v }
}
impl vstd::std_specs::convert::FromSpecImpl<u16> for AlgorithmId {
    open spec fn obeys_from_spec() -> bool { true }
    open spec fn from_spec(v: u16) -> Self { alg_of(v) }
}
impl From<u16> for AlgorithmId {
//@item stun_rs :: mod algorithm > impl From<u16> for AlgorithmId > fn from
//@tags C02 C19
//@spec
    ensures r == alg_of(val),
//@end
}
impl vstd::std_specs::convert::FromSpecImpl<AlgorithmId> for u16 {
    open spec fn obeys_from_spec() -> bool { true }
    open spec fn from_spec(v: AlgorithmId) -> Self { alg_code(v) }
}
impl From<AlgorithmId> for u16 {
//@item stun_rs :: mod algorithm > impl From<AlgorithmId> for u16 > fn from
//@tags C02 C19
//@spec
    ensures r == alg_code(val),
//@end
}
//@item! stun_rs :: mod algorithm > struct Algorithm
// `Option<&[u8]>::map(Vec::from).map(Arc::new)`: an owned, shared copy of the bytes (function items as map arguments have no
// specification; logged //@sub)
#[verifier::external_body]
pub fn vx_opt_arc_vec(p: Option<&[u8]>) -> (r: Option<Arc<Vec<u8>>>)
    ensures r is Some <==> p is Some, r is Some ==> r->Some_0@ == p->Some_0@,
{ p.map(Vec::from).map(Arc::new) }
impl Algorithm {
    pub open spec fn params_view(&self) -> Option<Seq<u8>> { match self.params { Some(a) => Some(a@), None => None } }
//@item stun_rs :: mod algorithm > impl Algorithm > fn new
//@tags C19
//@sig
    pub fn new(algorithm: AlgorithmId, parameters: Option<&[u8]>) -> (r: Self)
//@sub "parameters.into().map(Vec::from).map(Arc::new)" => "vx_opt_arc_vec(parameters)"
//@spec
    ensures r.algorithm == algorithm, r.params_view() == (match parameters { Some(p) => Some(p@), None => None::<Seq<u8>> }),
//@end
//@item stun_rs :: mod algorithm > impl Algorithm > fn algorithm
//@tags C19
//@spec
    ensures r == self.algorithm,
//@end
//@item stun_rs :: mod algorithm > impl Algorithm > fn parameters
//@tags C19
//@closure 1
|v: &Arc<Vec<u8>>| -> (s: &[u8])
    ensures s@ == v@,
//@spec
    ensures r is Some <==> self.params is Some, r is Some ==> r->Some_0@ == self.params->Some_0@,
//@end
}
pub proof fn lemma_algorithm_ext(a: Algorithm, b: Algorithm)
    requires a.algorithm == b.algorithm, a.params_view() == b.params_view(),
    ensures a == b,
{
    if a.params is Some { axiom_arc_vec_ext(a.params->Some_0, b.params->Some_0); }
}

// ---------------------------------------------------------------- strings.rs: QuotedString (RFC 3261 quoted-string / qdtext)
// The grammar check (crate quoted_string_parser) is trusted with an uninterpreted meaning (qs_valid). The trimming is verified:
// is_removable_character and formatted_quoted_string_from are the real bodies; the two char-iterator scans
// (skip_starting_characteres / skip_trailing_characteres: `text.chars()[.rev()].enumerate()` loops) are declared with their meaning,
// and the two `&s[a..]` / `&s[..b]` string slicings go through wrappers that *require* the index to be a character boundary (the
// std panic condition) - proving that requirement from "the skipped characters are ASCII" is the point of this block.
pub uninterp spec fn qs_parse(level: QuotedStringParseLevel, s: Seq<char>) -> bool;    // crate quoted_string_parser
pub open spec fn qs_valid(s: Seq<char>) -> bool { qs_parse(QuotedStringParseLevel::QuotedText, s) || qs_parse(QuotedStringParseLevel::QuotedString, s) }
pub mod vx_trim {
    use super::*;
    use vstd::utf8::*;
pub open spec fn removable(c: char) -> bool { c as u32 == 0x0d || c as u32 == 0x0a || c as u32 == 0x20 || c as u32 == 0x09 || c as u32 == 0x22 }
pub open spec fn lead(cs: Seq<char>) -> int decreases cs.len() { if cs.len() == 0 || !removable(cs[0]) { 0 } else { 1 + lead(cs.subrange(1, cs.len() as int)) } }
pub open spec fn trail(cs: Seq<char>) -> int decreases cs.len() { if cs.len() == 0 || !removable(cs.last()) { 0 } else { 1 + trail(cs.drop_last()) } }
pub proof fn lemma_lead(cs: Seq<char>)
    ensures 0 <= lead(cs) <= cs.len(), forall|i: int| 0 <= i < lead(cs) ==> removable(cs[i]), lead(cs) < cs.len() ==> !removable(cs[lead(cs)]),
    decreases cs.len(),
{
    if cs.len() > 0 && removable(cs[0]) {
        let t = cs.subrange(1, cs.len() as int);
        lemma_lead(t);
        assert forall|i: int| 0 <= i < lead(cs) implies removable(cs[i]) by { if i > 0 { assert(cs[i] == t[i - 1]); } }
        if lead(cs) < cs.len() { assert(cs[lead(cs)] == t[lead(t)]); }
    }
}
pub proof fn lemma_trail(cs: Seq<char>)
    ensures 0 <= trail(cs) <= cs.len(), forall|i: int| cs.len() - trail(cs) <= i < cs.len() ==> removable(cs[i]),
        trail(cs) < cs.len() ==> !removable(cs[cs.len() - trail(cs) - 1]),
    decreases cs.len(),
{
    if cs.len() > 0 && removable(cs.last()) {
        let t = cs.drop_last();
        lemma_trail(t);
        assert forall|i: int| cs.len() - trail(cs) <= i < cs.len() implies removable(cs[i]) by { if i < cs.len() - 1 { assert(cs[i] == t[i]); } }
        if trail(cs) < cs.len() { assert(cs[cs.len() - trail(cs) - 1] == t[t.len() - trail(t) - 1]); }
    }
}
// the encoding of a string whose first n characters are ASCII: n bytes, then the encoding of the rest; byte n is a boundary
pub proof fn lemma_ascii_prefix(cs: Seq<char>, n: int)
    requires 0 <= n <= cs.len(), forall|i: int| 0 <= i < n ==> (cs[i] as u32) < 128,
    ensures encode_utf8(cs.subrange(0, n)).len() == n,
        encode_utf8(cs) == encode_utf8(cs.subrange(0, n)) + encode_utf8(cs.subrange(n, cs.len() as int)),
        is_char_boundary(encode_utf8(cs), n),
{
    let a = cs.subrange(0, n);
    let b = cs.subrange(n, cs.len() as int);
    assert(a + b =~= cs);
    encode_utf8_concat(a, b);
    is_ascii_chars_encode_utf8(a);
    lemma_boundary(a, b);
}
pub proof fn lemma_ascii_suffix(cs: Seq<char>, n: int)
    requires 0 <= n <= cs.len(), forall|i: int| cs.len() - n <= i < cs.len() ==> (cs[i] as u32) < 128,
    ensures encode_utf8(cs.subrange(cs.len() - n, cs.len() as int)).len() == n,
        encode_utf8(cs) == encode_utf8(cs.subrange(0, cs.len() - n)) + encode_utf8(cs.subrange(cs.len() - n, cs.len() as int)),
        is_char_boundary(encode_utf8(cs), encode_utf8(cs).len() - n),
{
    let a = cs.subrange(0, cs.len() - n);
    let b = cs.subrange(cs.len() - n, cs.len() as int);
    assert(a + b =~= cs);
    encode_utf8_concat(a, b);
    is_ascii_chars_encode_utf8(b);
    lemma_boundary(a, b);
}
pub proof fn lemma_boundary(a: Seq<char>, b: Seq<char>) ensures is_char_boundary(encode_utf8(a + b), encode_utf8(a).len() as int) {
    encode_utf8_concat(a, b);
    encode_utf8_valid_utf8(a + b);
    encode_utf8_valid_utf8(b);
    let bytes = encode_utf8(a + b);
    let k = encode_utf8(a).len() as int;
    if k == bytes.len() {
        is_char_boundary_start_end_of_seq(bytes);
    } else {
        is_char_boundary_iff_is_leading_byte(bytes, k);
        assert(b.len() > 0) by { if b.len() == 0 { assert(a + b =~= a); } }
        encode_utf8_first_scalar(b);
        is_char_boundary_start_end_of_seq(encode_utf8(b));
        is_char_boundary_iff_is_leading_byte(encode_utf8(b), 0);
        assert(bytes[k] == encode_utf8(b)[0]);
    }
}
} // mod vx_trim
pub use vx_trim::*;
// what remains after stripping leading and trailing CR / LF / SP / HTAB / DQUOTE
pub open spec fn qs_trim(cs: Seq<char>) -> Seq<char> {
    if lead(cs) == cs.len() { Seq::<char>::empty() } else {
        let b = cs.subrange(lead(cs), cs.len() as int);
        b.subrange(0, b.len() - trail(b))
    }
}
pub struct QuotedStringParser;
pub enum QuotedStringParseLevel { QuotedText, QuotedString }
impl QuotedStringParser {
    #[verifier::external_body]
    pub fn validate(level: QuotedStringParseLevel, s: &str) -> (r: bool) ensures r == qs_parse(level, s@) { unimplemented!() }
}
//@item stun_rs :: mod strings > fn is_removable_character
//@tags C03 C19
//@spec
    ensures r == removable(c),
//@end
#[verifier::external_body]
pub fn skip_starting_characteres(text: &str) -> (r: Option<usize>)
    ensures match r { None => lead(text@) == text@.len(), Some(p) => p as int == lead(text@) && lead(text@) < text@.len() },
{ unimplemented!() }
#[verifier::external_body]
pub fn skip_trailing_characteres(text: &str) -> (r: Option<usize>)
    ensures match r { None => trail(text@) == text@.len(), Some(p) => p as int == trail(text@) && trail(text@) < text@.len() },
{ unimplemented!() }
// str slicing (`&s[a..]`, `&s[..b]`, `&s[0..0]`): panics unless the index is on a character boundary and in range (std)
#[verifier::external_body]
pub fn vx_str_from(s: &str, a: usize) -> (r: &str)
    requires a <= s.spec_bytes().len(), vstd::utf8::is_char_boundary(s.spec_bytes(), a as int),
    ensures r.spec_bytes() == s.spec_bytes().subrange(a as int, s.spec_bytes().len() as int),
{ &s[a..] }
#[verifier::external_body]
pub fn vx_str_to(s: &str, b: usize) -> (r: &str)
    requires b <= s.spec_bytes().len(), vstd::utf8::is_char_boundary(s.spec_bytes(), b as int),
    ensures r.spec_bytes() == s.spec_bytes().subrange(0, b as int),
{ &s[..b] }
#[verifier::external_body]
pub fn vx_str_empty(s: &str) -> (r: &str) ensures r@ == Seq::<char>::empty() { &s[0..0] }
//@item stun_rs :: mod strings > fn formatted_quoted_string_from
//@tags C03 C19 C01
//@sub "&s[pos..]" => "vx_str_from(s, pos)"
//@sub "&s[0..0]" => "vx_str_empty(s)"
//@sub "&s[..s.len() - pos]" => "vx_str_to(s, vx_str_len(s) - pos)"
//@spec
    ensures r is Ok <==> qs_valid(s@), r is Ok ==> r->Ok_0@ == qs_trim(s@),
//@head
    let ghost cs0 = s@;
    proof {
        // the skipped characters are ASCII, so their number is a byte offset on a character boundary
        lemma_lead(cs0);
        lemma_ascii_prefix(cs0, lead(cs0));
        assert(s.spec_bytes() == vstd::utf8::encode_utf8(cs0));
    }
    let ghost bytes0 = s.spec_bytes();
//@stmt "let mut res = s;"
    let ghost b = cs0.subrange(lead(cs0), cs0.len() as int);
    proof {
        assert(s.spec_bytes() == bytes0.subrange(lead(cs0), bytes0.len() as int));
        assert(bytes0 == vstd::utf8::encode_utf8(cs0.subrange(0, lead(cs0))) + vstd::utf8::encode_utf8(b));
        assert(s.spec_bytes() =~= vstd::utf8::encode_utf8(b));
        lemma_utf8_injective(s@, b);
        lemma_trail(b);
        lemma_ascii_suffix(b, trail(b));
        // b starts with a character that is not removable, so not all of b is stripped
        assert(!removable(b[0]));
        assert(trail(b) < b.len());
    }
//@stmt "Ok(res)"
    proof {
        let t = b.subrange(0, b.len() - trail(b));
        assert(res.spec_bytes() =~= vstd::utf8::encode_utf8(t));
        lemma_utf8_injective(res@, t);
    }
//@end
//@item! stun_rs :: mod strings > struct QuotedString
impl QuotedString {
//@item stun_rs :: mod strings > impl QuotedString > fn new
//@tags C19 C03
//@sig
    pub fn new(value: &str) -> (r: Result<Self, StunError>)
//@sub "value.as_ref()" => "value"
//@sub "String::from(val)" => "vx_string_from(val)"
//@spec
    ensures r is Ok <==> qs_valid(value@), r is Ok ==> r->Ok_0.0@ == qs_trim(value@),
//@end
//@item stun_rs :: mod strings > impl QuotedString > fn as_str
//@tags C19
//@spec
    ensures r@ == self.0@,
//@end
}
// `&str != &str` compares contents
#[verifier::external_body]
pub fn vx_str_ne(a: &str, b: &str) -> (r: bool) ensures r == (a@ != b@) { a != b }
impl<'a> Decode<'a> for QuotedString {
//@item stun_rs :: mod strings > impl<'a> crate::Decode<'a> for QuotedString > fn decode
//@tags C01 C02 C03
//@sub "QuotedString::try_from(str)?" => "QuotedString::new(str)?"
//@sub "quoted.as_str() != str" => "vx_str_ne(quoted.as_str(), str)"
//@sub "str.len()" => "vx_str_len(str)"
//@spec
    // accepted: valid UTF-8 that is already the bare quoted text (no surrounding quotes / white space)
    ensures r is Ok <==> vstd::utf8::valid_utf8(raw_value@) && qs_ok(vstd::utf8::decode_utf8(raw_value@)),
        r is Ok ==> r->Ok_0.1 == raw_value@.len() && vstd::utf8::encode_utf8(r->Ok_0.0.0@) == raw_value@,
//@before "let quoted"
    proof {
        assert(vstd::utf8::encode_utf8(str@) == raw_value@);
        vstd::utf8::encode_utf8_decode_utf8(str@);
    }
//@end
}
pub open spec fn qs_ok(s: Seq<char>) -> bool { qs_valid(s) && qs_trim(s) == s }
impl Encode for QuotedString {
//@item stun_rs :: mod strings > impl Encode for QuotedString > fn encode
//@tags C01 C02 C14
//@sub "self.as_str().len()" => "vx_str_len(self.as_str())"
//@spec
    ensures final(raw_value)@.len() == old(raw_value)@.len(),
        r is Ok <==> old(raw_value)@.len() >= vstd::utf8::encode_utf8(self.0@).len(),
        r is Ok ==> r->Ok_0 == vstd::utf8::encode_utf8(self.0@).len()
            && final(raw_value)@.subrange(0, r->Ok_0 as int) == vstd::utf8::encode_utf8(self.0@)
            && forall|i: int| r->Ok_0 <= i < old(raw_value)@.len() ==> final(raw_value)@[i] == old(raw_value)@[i],
//@end
}

// ---------------------------------------------------------------- strings.rs: PRECIS OpaqueString profile (RFC 8265), third-party crates
// precis_core / precis_profiles: trusted, uninterpreted meaning
pub uninterp spec fn opaque_ok(s: Seq<char>) -> bool;                 // the profile accepts the string
pub uninterp spec fn opaque_prepared(s: Seq<char>) -> Seq<char>;     // OpaqueString::prepare
pub uninterp spec fn opaque_enforced(s: Seq<char>) -> Seq<char>;     // OpaqueString::enforce
pub struct PrecisError;
impl From<PrecisError> for StunError {
    #[verifier::external_body]
    fn from(e: PrecisError) -> StunError { unimplemented!() }
}
#[verifier::external_body]
pub struct CowStr { _p: () }      // std::borrow::Cow<'_, str>
impl CowStr {
    pub uninterp spec fn chars(&self) -> Seq<char>;
    #[verifier::external_body]
    pub fn as_ref(&self) -> (r: &str) ensures r@ == self.chars() { unimplemented!() }
    #[verifier::external_body]
    pub fn len(&self) -> (r: usize) ensures r == vstd::utf8::encode_utf8(self.chars()).len() { unimplemented!() }
}
pub mod strings {
    use super::*;
    #[verifier::external_body]
    pub fn opaque_string_prepapre(s: &str) -> (r: Result<CowStr, PrecisError>)
        ensures r is Ok <==> opaque_ok(s@), r is Ok ==> r->Ok_0.chars() == opaque_prepared(s@),
    { unimplemented!() }
    #[verifier::external_body]
    pub fn opaque_string_enforce(s: &str) -> (r: Result<CowStr, PrecisError>)
        ensures r is Ok <==> opaque_ok(s@), r is Ok ==> r->Ok_0.chars() == opaque_enforced(s@),
    { unimplemented!() }
}
impl VxDisplay for CowStr { open spec fn disp(&self) -> Seq<char> { self.chars() } }

// ---------------------------------------------------------------- types.rs: HMACKey (RFC 8489 9.1.1 short-term key, 9.2.2 long-term key)
// third-party digests (crates md5, hmac_sha256): trusted, uninterpreted
pub uninterp spec fn md5_spec(data: Seq<u8>) -> Seq<u8>;
pub uninterp spec fn sha256_spec(data: Seq<u8>) -> Seq<u8>;
pub mod md5 {
    use super::*;
    pub struct Digest(pub [u8; 16]);
    #[verifier::external_body]
    pub fn compute(data: &str) -> (r: Digest) ensures r.0@ == md5_spec(data.spec_bytes()) { unimplemented!() }
}
// common.rs sha256(): hmac_sha256::Hash::hash(s.as_bytes()).to_vec()
#[verifier::external_body]
pub fn sha256(s: &str) -> (r: Vec<u8>) ensures r@ == sha256_spec(s.spec_bytes()) { unimplemented!() }
//@item! stun_rs :: mod types > enum CredentialMechanism
impl Clone for CredentialMechanism { fn clone(&self) -> (r: Self) ensures r == *self { *self } }
impl Copy for CredentialMechanism {}
impl CredentialMechanism {
//@item stun_rs :: mod types > impl CredentialMechanism > fn is_short_term
//@tags C19
//@spec
    ensures r == (*self is ShortTerm),
//@end
//@item stun_rs :: mod types > impl CredentialMechanism > fn is_long_term
//@tags C19
//@spec
    ensures r == (*self is LongTerm),
//@end
}
//@item! stun_rs :: mod types > struct HMACKeyPriv
//@item! stun_rs :: mod types > struct HMACKey
// the long-term key input: username ":" OpaqueString(realm) ":" OpaqueString(password), UTF-8
pub open spec fn lt_key_text(user: Seq<char>, realm: Seq<char>, password: Seq<char>) -> Seq<u8> {
    vstd::utf8::encode_utf8(user + ":"@ + opaque_enforced(realm) + ":"@ + opaque_enforced(password))
}
impl HMACKey {
    pub open spec fn bytes(&self) -> Seq<u8> { self.0.key@ }
//@item stun_rs :: mod types > impl HMACKey > fn new_short_term
//@tags C04 C19 C07 C13
//@sig
    pub fn new_short_term(password: &str) -> (r: Result<Self, StunError>)
//@sub "opaque_string_enforce(password.as_ref())?" => "strings::opaque_string_enforce(password)?"
//@spec
    // the key is the OpaqueString-processed password, UTF-8
    ensures r is Ok <==> opaque_ok(password@),
        r is Ok ==> r->Ok_0.bytes() == vstd::utf8::encode_utf8(opaque_enforced(password@)) && r->Ok_0.0.mechanism is ShortTerm,
//@end
//@item stun_rs :: mod types > impl HMACKey > fn new_long_term
//@tags C04 C19 C08 C13
//@rules R1S
//@sig
    pub fn new_long_term(username: &str, realm: &str, password: &str, algorithm: &Algorithm) -> (r: Result<Self, StunError>)
//@sub "opaque_string_enforce(realm.as_ref())?" => "strings::opaque_string_enforce(realm)?"
//@sub "opaque_string_enforce(password.as_ref())?" => "strings::opaque_string_enforce(password)?"
//@sub "username.as_ref()" => "username"
//@sub "algorithm.as_ref()" => "algorithm"
//@spec
    // MD5 / SHA-256 of user:realm:password, the algorithm chosen by the PASSWORD-ALGORITHM value
    ensures r is Ok <==> opaque_ok(realm@) && opaque_ok(password@) && (algorithm.algorithm is MD5 || algorithm.algorithm is SHA256),
        r is Ok ==> r->Ok_0.0.mechanism is LongTerm && r->Ok_0.bytes() == (if algorithm.algorithm is MD5 {
            md5_spec(lt_key_text(username@, realm@, password@)) } else { sha256_spec(lt_key_text(username@, realm@, password@)) }),
//@end
//@item stun_rs :: mod types > impl HMACKey > fn as_bytes
//@tags C04 C19
//@spec
    ensures r@ == self.bytes(),
//@end
//@item stun_rs :: mod types > impl HMACKey > fn credential_mechanism
//@tags C19
//@spec
    ensures r == self.0.mechanism,
//@end
//@item stun_rs :: mod types > impl HMACKey > fn get_key
//@tags C04 C19
//@spec
    ensures r is Ok <==> (params.algorithm is MD5 || params.algorithm is SHA256),
        r is Ok ==> r->Ok_0@ == (if params.algorithm is MD5 { md5_spec(key.spec_bytes()) } else { sha256_spec(key.spec_bytes()) }),
//@end
}
