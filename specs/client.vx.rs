#![feature(allocator_api)]
#![allow(unused, non_snake_case, non_camel_case_types, dead_code)]
use vstd::prelude::*;
use core::cmp::Ordering;
use vstd::multiset::Multiset;
use std::sync::Arc;
use std::collections::HashMap;
use vstd::std_specs::hash::*;
verus! {
broadcast use vstd::std_specs::hash::group_hash_axioms;
//@include prelude/time.rs
//@include prelude/std_misc.rs
//@include prelude/agent.rs
//@include inc/timers_decl.rs
// every primitive / Duration constant of client.rs (new ones follow automatically)
//@consts stun_agent :: mod client
//@consts stun_agent :: mod timeout
//@consts stun_agent :: mod rtt


// ---- HashMap<TransactionId, StunTransaction>: vstd's model needs the key type to hash/compare structurally
// (derived Hash/Eq on [u8; 12]); trusted
pub broadcast proof fn axiom_txid_key_model()
    ensures #[trigger] obeys_key_model::<TransactionId>(),
{ admit(); }
pub assume_specification<'a, K, V, S, A, Q> [std::collections::HashMap::<K, V, S, A>::get_mut]
  (m: &'a mut std::collections::HashMap<K, V, S, A>, k: &Q) -> (r: Option<&'a mut V>)
  where A: std::alloc::Allocator, K: Eq + std::hash::Hash + std::borrow::Borrow<Q>,
        Q: std::marker::MetaSized + std::hash::Hash + Eq + ?Sized, S: std::hash::BuildHasher,
  ensures obeys_key_model::<K>() && builds_valid_hashers::<S>() ==> match r {
    Some(v) => contains_borrowed_key(old(m)@, k) && maps_borrowed_key_to_value(old(m)@, k, *v)
               && final(m)@.dom() == old(m)@.dom() && maps_borrowed_key_to_value(final(m)@, k, *final(v))
               && (forall|k2: K| #![auto] old(m)@.contains_key(k2) && !maps_borrowed_key_to_value(old(m)@, k, old(m)@[k2]) ==> final(m)@[k2] == old(m)@[k2]),
    None => final(m)@ == old(m)@ && !contains_borrowed_key(old(m)@, k) };
// HashMap::get_mut for the transaction table, through a monomorphic wrapper carrying std's documented contract
// (the generic assume_specification above cannot say "every other key keeps its value")
#[verifier::external_body]
pub fn vx_tr_get_mut<'a>(m: &'a mut HashMap<TransactionId, StunTransaction>, k: &TransactionId) -> (r: Option<&'a mut StunTransaction>)
    ensures match r {
        Some(v) => old(m)@.contains_key(*k) && *v == old(m)@[*k] && final(m)@ == old(m)@.insert(*k, *final(v)),
        None => !old(m)@.contains_key(*k) && final(m)@ == old(m)@,
    },
{ unimplemented!() }
impl core::hash::Hash for TransactionId {
    #[verifier::external_body]
    fn hash<H: core::hash::Hasher>(&self, state: &mut H) { unimplemented!() }
}

// ---------------------------------------------------------------- events.rs
pub uninterp spec fn vx_default<T>() -> T;
pub assume_specification<T: Default> [std::mem::take] (v: &mut T) -> (r: T)
    ensures r == *old(v), *final(v) == vx_default::<T>();
pub proof fn axiom_vec_default<E>()
    ensures vx_default::<Vec<E>>()@.len() == 0,
{ admit(); }
//@item! stun_agent :: mod events > enum StunTransactionError
//@item! stun_agent :: mod events > enum StunClientEvent
//@item! stun_agent :: mod events > struct TransactionEventHandler
//@item! stun_agent :: enum StunAgentError
//@item! stun_agent :: mod integrity > enum IntegrityError

// The event batch of one client call. In the crate it is `TransactionEvents<'a>`, which borrows the handler and
// commits in `Drop`. Rewrite R11 makes that explicit: `handler.init()` becomes a local batch and the extracted
// `drop` body (verified below as `vx_commit`) is called where the batch goes out of scope.
pub struct VxEvents { pub events: Vec<StunClientEvent> }
impl VxEvents {
    pub fn vx_init() -> (r: VxEvents) ensures r.events@ == Seq::<StunClientEvent>::empty() { VxEvents { events: Vec::new() } }
    pub fn push(&mut self, event: StunClientEvent)
        ensures final(self).events@ == old(self).events@.push(event),
    { self.events.push(event); }
}
impl Default for TransactionEventHandler {
//@item stun_agent :: mod events > impl ::core::default::Default for TransactionEventHandler > fn default
//@tags C05 C19
//@sub "::core::default::Default::default()" => "Vec::new()"
//@spec
    ensures r.events@.len() == 0,
//@end
}
impl TransactionEventHandler {
//@item stun_agent :: mod events > impl TransactionEventHandler > fn events
//@tags C05
//@head
    proof { axiom_vec_default::<StunClientEvent>(); }
//@spec
    ensures r@ == old(self).events@, final(self).events@.len() == 0,
//@end
    // body = `impl Drop for TransactionEvents<'_>::drop` with self.handler := self, self.events := batch.events
//@item stun_agent :: mod events > impl Drop for TransactionEvents<'_> > fn drop
//@tags C05 C12 C17 C11
//@sig
pub fn vx_commit(&mut self, batch: VxEvents)
//@sub "self.handler.events" => "VX_HANDLER_EVENTS" all
//@sub "self.events" => "vx_batch.events" all
//@sub "VX_HANDLER_EVENTS" => "self.events" all
//@head
    let mut vx_batch = batch;
//@spec
    ensures final(self).events@ == (if batch.events@.len() == 0 { old(self).events@ } else { batch.events@ }),
//@end
}


// ---------------------------------------------------------------- collaborators, abstract in this unit
// attribute set handed in by the application and completed by the mechanisms (unit attrset)
#[verifier::external_body]
pub struct StunAttributes { _p: () }
impl StunAttributes {
    // representation invariant of the attribute set (unit attrset): established by Default, kept by add/remove
    pub uninterp spec fn wf(&self) -> bool;
    // the attributes in wire order: ordinary ones in first-insertion order, then MI, SHA256, FINGERPRINT (unit attrset)
    pub uninterp spec fn flat(&self) -> Seq<StunAttribute>;
}
// C13 vocabulary, defined in the units that prove it: cred (mech_prepared_*), attrset (fp_added = add_fingerprint_attribute)
pub uninterp spec fn mech_prepared_request(m: CredentialMechanismClient, s0: StunAttributes, s1: StunAttributes) -> bool;
pub uninterp spec fn mech_prepared_indication(m: CredentialMechanismClient, s0: StunAttributes, s1: StunAttributes) -> bool;
pub uninterp spec fn fp_added(s0: StunAttributes, s1: StunAttributes) -> bool;
// what the client makes of the application's attribute set before encoding (C13): first the mechanism's preparation
// (credential attributes replaced / appended, integrity attributes under the right key), then FINGERPRINT if configured
pub open spec fn prepared(is_request: bool, m: Option<CredentialMechanismClient>, use_fingerprint: bool, s0: StunAttributes, s2: StunAttributes) -> bool {
    exists|s1: StunAttributes| #[trigger] mech_step(is_request, m, s0, s1) && (if use_fingerprint { fp_added(s1, s2) } else { s2 == s1 })
}
pub open spec fn mech_step(is_request: bool, m: Option<CredentialMechanismClient>, s0: StunAttributes, s1: StunAttributes) -> bool {
    match m {
        Some(mm) => if is_request { mech_prepared_request(mm, s0, s1) } else { mech_prepared_indication(mm, s0, s1) },
        None => s1 == s0,
    }
}
#[verifier::external_body]
pub struct MessageEncoder { _p: () }
#[verifier::external_body]
pub struct MessageDecoder { _p: () }
impl Default for MessageEncoder { #[verifier::external_body] fn default() -> Self { unimplemented!() } }
impl Default for MessageDecoder { #[verifier::external_body] fn default() -> Self { unimplemented!() } }
// wire image of a message produced by the encoder / accepted by the decoder (units codec, attrset)
pub uninterp spec fn wire_of(msg: StunMessage) -> Seq<u8>;
pub uninterp spec fn encodes_ok(msg: StunMessage, buflen: int) -> bool;
// the message the client's (fixed, default-configured) decoder makes of a byte string, if any
pub uninterp spec fn decoded(bytes: Seq<u8>) -> Option<StunMessage>;
impl MessageEncoder {
    #[verifier::external_body]
    pub fn encode(&self, buffer: &mut [u8], msg: &StunMessage) -> (r: Result<usize, StunEncodeError>)
        ensures final(buffer)@.len() == old(buffer)@.len(),
            r is Ok <==> encodes_ok(*msg, old(buffer)@.len() as int),
            r is Ok ==> r->Ok_0 <= old(buffer)@.len() && final(buffer)@.subrange(0, r->Ok_0 as int) == wire_of(*msg),
    { unimplemented!() }
}
impl MessageDecoder {
    #[verifier::external_body]
    pub fn decode(&self, buffer: &[u8]) -> (r: Result<(StunMessage, usize), StunDecodeError>)
        ensures r is Ok ==> decoded(buffer@) == Some(r->Ok_0.0),
            r is Err ==> decoded(buffer@) is None,
            // only a type code without a registered decoder comes out as `Unknown` (theorem_unknown_unregistered, unit rt,
            // over MessageDecoder::decode's contract proved in unit dec); the credential mechanisms require it of what they receive
            r is Ok ==> r->Ok_0.0.decoder_made(),
    { unimplemented!() }
}
// message.rs::create_stun_message: `None` asks for a fresh random transaction id
#[verifier::external_body]
pub fn create_stun_message(method: MessageMethod, class: MessageClass, transaction_id: Option<TransactionId>,
    attributes: StunAttributes) -> (r: StunMessage)
    ensures r.smethod() == method, r.sclass() == class, transaction_id is Some ==> r.sid() == transaction_id->Some_0,
        r.attrs_view() == attributes.flat(),
{ unimplemented!() }
// fingerprint.rs (contracts proved in unit attrset)
//@include inc/attr_abs.rs
//@include inc/fp_vocab.rs
impl StunMessage {
    pub uninterp spec fn attrs_view(&self) -> Seq<StunAttribute>;
    // every `Unknown` attribute of the message has a type code no decoder is registered for (defined in unit cred)
    pub uninterp spec fn decoder_made(&self) -> bool;
}
pub open spec fn fp_verdict(raw: Seq<u8>, msg: StunMessage) -> Option<bool> { fp_verdict_of(raw, msg.attrs_view()) }
//@import attrset :: stun_agent :: mod fingerprint > fn validate_fingerprint
#[verifier::external_body]
pub fn add_fingerprint_attribute(attributes: &mut StunAttributes)
    requires old(attributes).wf(),
    ensures final(attributes).wf(), fp_added(*old(attributes), *final(attributes)),
{ unimplemented!() }

// credential mechanism (units cred): abstract state; `violated` is the documented marker set of C17
#[verifier::external_body]
pub struct MechState { _p: () }
#[verifier::external_body]
pub struct CredentialMechanismClient { _p: () }
impl CredentialMechanismClient {
    pub uninterp spec fn st(&self) -> MechState;
    pub uninterp spec fn violated(&self) -> Set<TransactionId>;
    pub uninterp spec fn wf(&self) -> bool;
    // contracts proved on the real dispatch + mechanisms in unit cred
//@import cred :: stun_agent :: mod client > impl CredentialMechanismClient > fn prepare_request
//@import cred :: stun_agent :: mod client > impl CredentialMechanismClient > fn prepare_indication
//@import cred :: stun_agent :: mod client > impl CredentialMechanismClient > fn recv_message
//@import cred :: stun_agent :: mod client > impl CredentialMechanismClient > fn signal_protection_violated_on_timeout
}

// ---------------------------------------------------------------- client.rs
// C13: `bytes` is the encoding of a message of the asked method and class whose attributes are, in order, the
// application's attribute set as prepared by the mechanism and the fingerprint option
pub open spec fn packet_of(c0: StunClient, method: MessageMethod, class: MessageClass, app: StunAttributes, s2: StunAttributes,
    msg: StunMessage, bytes: Seq<u8>) -> bool {
    &&& prepared(class is Request, c0.mechanism, c0.use_fingerprint, app, s2)
    &&& msg.smethod() == method && msg.sclass() == class && msg.attrs_view() == s2.flat()
    &&& bytes == wire_of(msg)
}
pub open spec fn sat_sub(a: int, b: int) -> int { if a >= b { a - b } else { 0 } }
// `h1` is `h0` after RttCalcuator::update(r) (the contract proved in unit timers, restated as a relation)
pub open spec fn rtt_updated(h0: RttCalcuator, h1: RttCalcuator, r: Duration) -> bool {
    &&& h1.granularity == h0.granularity && h1.configured_rto == h0.configured_rto
    &&& (h0.srtt.ns@ == 0 ==> {
            let f = rfc6298_first(r.ns@ as int, h0.granularity.ns@ as int);
            h1.srtt.ns@ == f.0 && h1.rttvar.ns@ == f.1 && h1.rto.ns@ == f.2
        })
    &&& (h0.srtt.ns@ != 0 ==> {
            let var = dur_mul_f32(h0.rttvar, vxs_f32_1_0_sub_BETA()).ns@
                + dur_mul_f32(dur(if h0.srtt.ns@ >= r.ns@ { h0.srtt.ns@ - r.ns@ } else { r.ns@ - h0.srtt.ns@ }), vxs_f32_BETA()).ns@;
            let srtt = dur_mul_f32(h0.srtt, vxs_f32_1_0_sub_ALPHA()).ns@ + dur_mul_f32(r, vxs_f32_ALPHA()).ns@;
            let kvar = dur_mul_f32(dur(var as int), vxs_f32_K_as_f32());
            &&& h1.rttvar.ns@ == var
            &&& h1.srtt.ns@ == srtt
            &&& h1.rto.ns@ == srtt + (if kvar.ns@ >= h0.granularity.ns@ { kvar.ns@ } else { h0.granularity.ns@ })
        })
}
//@item! stun_agent :: mod client > enum StunClientMessageClass
//@item! stun_agent :: mod client > struct StunTransaction
//@item! stun_agent :: mod client > struct RttHandler
//@item! stun_agent :: mod client > enum StunRttCalcuator
//@item! stun_agent :: mod client > struct StunClient

//@item stun_agent :: mod client > fn process_integrity_error
//@tags C03 C05 C06 C07 C08 C10 C11 C12 C13 C15 C17
//@spec
    ensures match error {
        IntegrityError::ProtectionViolated => r == Ok::<Option<StunClientEvent>, StunAgentError>(Some(StunClientEvent::TransactionFailed((*transaction_id, StunTransactionError::ProtectionViolated)))),
        IntegrityError::Retry => r == Ok::<Option<StunClientEvent>, StunAgentError>(Some(StunClientEvent::Retry(*transaction_id))),
        IntegrityError::NotRetryable => r == Ok::<Option<StunClientEvent>, StunAgentError>(Some(StunClientEvent::TransactionFailed((*transaction_id, StunTransactionError::DoNotRetry)))),
        IntegrityError::Discarded => r is Err && r->Err_0 is Discarded,
    },
//@end


//@item stun_agent :: mod client > fn encode_buffer
//@tags C03 C05 C06 C07 C08 C10 C11 C12 C13 C15 C17
//@sub "encoder.encode(&mut buffer, msg)" => "encoder.encode(buffer.as_mut_slice(), msg)"
//@spec
    ensures r is Ok <==> encodes_ok(*msg, buffer@.len() as int),
        r is Ok ==> r->Ok_0@ == wire_of(*msg),
//@end
//@item stun_agent :: mod client > fn prepare_stun_message
//@tags C03 C05 C06 C07 C08 C10 C11 C12 C13 C15 C17
//@stmt "if use_fingerprint"
    let ghost s1 = *attributes;
    proof {
        assert(mech_step(class is Request, (if mechanism is Some { Some(*old(mechanism->Some_0)) } else { None::<CredentialMechanismClient> }), *old(attributes), s1));
    }
//@spec
    requires old(attributes).wf(), mechanism is Some ==> old(mechanism->Some_0).wf(),
    ensures mechanism is Some ==> final(mechanism->Some_0).violated() == old(mechanism->Some_0).violated() && final(mechanism->Some_0).wf()
            && final(mechanism->Some_0).st() == old(mechanism->Some_0).st(),
        final(attributes).wf(),
        r is Ok ==> prepared(class is Request, (if mechanism is Some { Some(*old(mechanism->Some_0)) } else { None::<CredentialMechanismClient> }),
            use_fingerprint, *old(attributes), *final(attributes)),
        r is Err ==> !(r->Err_0 is MaxOutstandingRequestsReached),
//@end

pub open spec fn finish_rtt_rel(rtt0: StunRttCalcuator, rtt1: StunRttCalcuator, tr0: Map<TransactionId, StunTransaction>,
    id: TransactionId, now: Instant) -> bool {
    match (rtt0, rtt1) {
        (StunRttCalcuator::Unreliable(h0), StunRttCalcuator::Unreliable(h1)) =>
            h1.rm == h0.rm && h1.rc == h0.rc && h1.last_request == h0.last_request
            && (if tr0.contains_key(id) && tr0[id].instant is Some {
                    rtt_updated(h0.rtt, h1.rtt, dur(sat_sub(now.ns@, tr0[id].instant->Some_0.ns@)))
                } else { h1.rtt == h0.rtt }),
        (a, b) => a == b,
    }
}
// C17: the credential mechanism after a rejected buffer: same state; the only permitted difference is the
// marker for the transaction of a *response* that failed authentication (unreliable transport)
pub open spec fn mech_frame(m0: Option<CredentialMechanismClient>, m1: Option<CredentialMechanismClient>, raw: Seq<u8>) -> bool {
    (m0 is None ==> m1 is None) && (m0 is Some ==> m1 is Some && m1->Some_0.st() == m0->Some_0.st()
        && (m1->Some_0.violated() == m0->Some_0.violated()
            || (decoded(raw) is Some && !(decoded(raw)->Some_0.sclass() is Indication)
                && m1->Some_0.violated() == m0->Some_0.violated().insert(decoded(raw)->Some_0.sid()))))
}
// what a successful on_buffer_recv did with the decoded message `m`
pub open spec fn recv_ok_post(c0: StunClient, c1: StunClient, raw: Seq<u8>, m: StunMessage, now: Instant) -> bool {
    let e = c1.transaction_events.events@[0];
    &&& decoded(raw) == Some(m)
    &&& !(m.sclass() is Request)
    &&& c1.transaction_events.events@.len() == 1
    // what is handed to the application: the message itself, or the mechanism's verdict about it
    &&& (e == StunClientEvent::StunMessageReceived(m)
         || e == StunClientEvent::Retry(m.sid())
         || e == StunClientEvent::TransactionFailed((m.sid(), StunTransactionError::ProtectionViolated))
         || e == StunClientEvent::TransactionFailed((m.sid(), StunTransactionError::DoNotRetry)))
    &&& (c0.mechanism is None ==> e == StunClientEvent::StunMessageReceived(m))
    // an indication is delivered as such or refused: it never yields a verdict about a request
    &&& (m.sclass() is Indication ==> e == StunClientEvent::StunMessageReceived(m))
    // C10: with fingerprints in use nothing is delivered or completed unless the FINGERPRINT is present and right
    &&& (c0.use_fingerprint ==> fp_verdict(raw, m) == Some(true))
    &&& (if m.sclass() is Indication {
            c1.transactions@ == c0.transactions@ && c1.timeouts == c0.timeouts && c1.rtt == c0.rtt
        } else {
            // C05/C12: a response is only taken for a request still awaiting one, which thereby ends: one slot freed
            &&& c0.transactions@.contains_key(m.sid())
            &&& c1.transactions@ == c0.transactions@.remove(m.sid())
            &&& (forall|x: TimeoutItem| #[trigger] c1.timeouts.ms().count(x)
                    == (if x.transaction_id != m.sid() { c0.timeouts.ms().count(x) } else { 0 }))
            &&& finish_rtt_rel(c0.rtt, c1.rtt, c0.transactions@, m.sid(), now)
        })
}
// the schedule of a request after a timer call at `now` that found it expired and retransmitted it (unit timers,
// RtoManager::next_rto): same origin, a later slot whose time is still ahead, every slot in between has passed
pub open spec fn rto_advanced(m0: RtoManager, m1: RtoManager, now: int) -> bool {
    &&& m1.wf() && m1.latest == Some(inst(now))
    &&& m1.rtt() == m0.rtt() && m1.rm() == m0.rm() && m1.rc() == m0.rc()
    &&& m1.origin() == m0.origin()
    &&& m0.j() < m1.j() <= m0.rc()
    &&& m1.deadline() > now
    &&& m1.deadline() == m0.origin() + sched(m0.rtt(), m0.rm(), m0.rc(), m1.j())
    &&& forall|k: int| m0.j() <= k < m1.j() ==> m0.origin() + #[trigger] sched(m0.rtt(), m0.rm(), m0.rc(), k) <= now
}
// facts about what StunMessageTimeout::check popped that do not change during the timer call (kept opaque in the loop
// invariant so that they are not re-proved at every loop boundary; revealed where used)
#[verifier::opaque]
pub open spec fn popped_facts(c0: StunClient, removed: Seq<TimeoutItem>, ids: Seq<TransactionId>, now: int) -> bool {
    &&& ids.len() == removed.len()
    &&& (forall|k: int| 0 <= k < removed.len() ==> ids[k] == #[trigger] removed[k].transaction_id && removed[k].expiry() <= now)
    &&& (forall|k: int| 0 <= k < removed.len() ==> c0.transactions@.contains_key(#[trigger] removed[k].transaction_id)
            && removed[k] == c0.entry(removed[k].transaction_id))
    &&& (forall|a: int, b: int| 0 <= a < b < removed.len() ==> removed[a].transaction_id != removed[b].transaction_id)
}
// one event of a timer call, about request `id`
pub open spec fn tmo_event_ok(c0: StunClient, tr1: Map<TransactionId, StunTransaction>, id: TransactionId, e: StunClientEvent, now: int) -> bool {
    &&& c0.transactions@.contains_key(id)
    &&& dl(c0.transactions@, id) <= now          // only a request whose pending deadline has passed is touched
    &&& match e {
        // retransmission: byte-identical packet, RTT sampling cancelled (Karn), schedule advanced
        StunClientEvent::OutputPacket(p) =>
            tr1.contains_key(id) && p == c0.transactions@[id].packet
            && tr1[id].packet == c0.transactions@[id].packet && tr1[id].instant is None
            && rto_advanced(c0.transactions@[id].rtos, tr1[id].rtos, now),
        // final failure: never before the last deadline t0 + S(Rc); the request is gone afterwards;
        // reported as protection-violated exactly when the marker for it was set (C07)
        StunClientEvent::TransactionFailed(f) =>
            f.0 == id && !tr1.contains_key(id)
            && (f.1 is TimedOut || f.1 is ProtectionViolated)
            && (f.1 is ProtectionViolated <==> c0.mechanism is Some && c0.mechanism->Some_0.violated().contains(id))
            && c0.transactions@[id].rtos.at(c0.transactions@[id].rtos.rc()) <= now,
        _ => false,
    }
}
pub open spec fn tmo_batch_ok(c0: StunClient, c1: StunClient, ev: Seq<StunClientEvent>, ids: Seq<TransactionId>, now: int) -> bool {
    &&& ids.no_duplicates()
    &&& ids.len() <= ev.len() <= ids.len() + 1
    &&& (forall|k: int| 0 <= k < ids.len() ==> tmo_event_ok(c0, c1.transactions@, #[trigger] ids[k], ev[k], now))
    // every request whose deadline has passed was served in this call (C11)
    &&& (forall|id: TransactionId| c0.transactions@.contains_key(id) && dl(c0.transactions@, id) <= now ==> ids.contains(id))
    // C11: a timer notification, last, exactly when some request is still outstanding
    &&& (ev.len() == ids.len() + 1 <==> c1.transactions@.len() > 0)
    &&& (ev.len() == ids.len() + 1 ==> ev[ids.len() as int] is RestransmissionTimeOut
            && notif_ok_m(c1.transactions@, ev[ids.len() as int]->RestransmissionTimeOut_0.0, ev[ids.len() as int]->RestransmissionTimeOut_0.1, now))
}
proof fn lemma_check_post_unfold(a: Multiset<TimeoutItem>, b: Multiset<TimeoutItem>, removed: Seq<TimeoutItem>, ids: Seq<TransactionId>, now: int)
    requires check_post(a, b, removed, ids, now),
    ensures forall|k: int| 0 <= k < removed.len() ==> ids[k] == #[trigger] removed[k].transaction_id && removed[k].expiry() <= now,
        removed.len() == ids.len(),
{
}
proof fn lemma_check_post_unfold2(a: Multiset<TimeoutItem>, b: Multiset<TimeoutItem>, removed: Seq<TimeoutItem>, ids: Seq<TransactionId>, now: int)
    requires check_post(a, b, removed, ids, now),
    ensures forall|y: TimeoutItem| b.count(y) > 0 ==> y.expiry() > now,
        forall|y: TimeoutItem| a.count(y) == b.count(y) + removed.to_multiset().count(y),
{
}
proof fn lemma_count_two(s: Seq<TimeoutItem>, a: int, b: int)
    requires 0 <= a < b < s.len(), s[a] == s[b],
    ensures s.to_multiset().count(s[a]) >= 2,
{
    s.to_multiset_ensures();
    let s2 = s.remove(b);
    s2.to_multiset_ensures();
    assert(s2[a] == s[a]);
    assert(s2.contains(s[a]));
    assert(s2.to_multiset().count(s[a]) >= 1);
    assert(s2.to_multiset() =~= s.to_multiset().remove(s[b]));
    assert(s.contains(s[b]));
    assert(s.to_multiset().count(s[b]) >= 1);
    assert(s.to_multiset().remove(s[b]).count(s[b]) == s.to_multiset().count(s[b]) - 1);
}
pub open spec fn dl(tr: Map<TransactionId, StunTransaction>, id: TransactionId) -> int { tr[id].rtos.deadline() }
// C11: `(id, left)` is an accurate timer notification at time `now`: it names an outstanding request with the
// earliest pending deadline and gives the time remaining until it (zero if overdue)
pub open spec fn notif_ok_m(tr: Map<TransactionId, StunTransaction>, id: TransactionId, left: Duration, now: int) -> bool {
    &&& tr.contains_key(id)
    &&& left.ns@ == sat_sub(dl(tr, id), now)
    &&& forall|k: TransactionId| tr.contains_key(k) ==> dl(tr, id) <= #[trigger] dl(tr, k)
}
impl StunRttCalcuator {
    pub open spec fn wf(&self) -> bool {
        match self {
            StunRttCalcuator::Reliable(t) => true,
            StunRttCalcuator::Unreliable(h) => h.rc <= 31,
        }
    }
}
impl StunClient {
    // the timer entry that belongs to an outstanding request: it carries the deadline of the interval in progress
    pub open spec fn entry(&self, id: TransactionId) -> TimeoutItem {
        TimeoutItem { instant: self.transactions@[id].rtos.latest->Some_0, timeout: self.transactions@[id].rtos.last_rto, transaction_id: id }
    }
    pub open spec fn tr_ok(&self, id: TransactionId) -> bool {
        self.transactions@[id].rtos.wf() && self.transactions@[id].rtos.latest is Some
            && self.timeouts.ms().count(self.entry(id)) > 0
    }
    pub open spec fn timers_ok(&self) -> bool {
        &&& forall|x: TimeoutItem| #[trigger] self.timeouts.ms().count(x) > 0 ==>
                self.transactions@.contains_key(x.transaction_id) && self.timeouts.ms().count(x) == 1
                && x == self.entry(x.transaction_id)
    }
    // representation invariant: one timer per outstanding request and none for anything else; each timer is the
    // deadline its request's schedule is waiting for; the table respects the configured limit
    pub open spec fn wf(&self) -> bool {
        &&& self.timeouts.wf()
        &&& self.rtt.wf()
        &&& (self.mechanism is Some ==> self.mechanism->Some_0.wf())
        &&& self.transactions@.dom().finite()
        &&& self.transactions@.len() <= self.max_transactions
        &&& self.timers_ok()
        &&& forall|id: TransactionId| #[trigger] self.transactions@.contains_key(id) ==> self.tr_ok(id)
    }
//@item stun_agent :: mod client > impl StunClient > fn transaction_finished
//@tags C03 C05 C06 C07 C08 C10 C11 C12 C13 C15 C17
//@head
    broadcast use axiom_txid_key_model;
    let ghost ms0 = self.timeouts.ms();
//@tail
    proof {
        assert(self.timeouts.wf());
        assert(self.rtt.wf());
        assert(self.transactions@.dom().finite());
        assert(self.transactions@.len() <= self.max_transactions);
        assert(self.timers_ok());
        assert(forall|id: TransactionId| #[trigger] self.transactions@.contains_key(id) ==> self.tr_ok(id));
    }
//@spec
    requires old(self).wf(),
    ensures final(self).wf(),
        final(self).transactions@ == old(self).transactions@.remove(*transaction_id),
        final(self).max_transactions == old(self).max_transactions,
        final(self).mechanism == old(self).mechanism,
        final(self).transaction_events == old(self).transaction_events,
        final(self).use_fingerprint == old(self).use_fingerprint,
        forall|x: TimeoutItem| #[trigger] final(self).timeouts.ms().count(x)
            == (if x.transaction_id != *transaction_id { old(self).timeouts.ms().count(x) } else { 0 }),
        // Karn's rule and RFC 6298 feeding: a sample is taken iff the request was never retransmitted
        finish_rtt_rel(old(self).rtt, final(self).rtt, old(self).transactions@, *transaction_id, instant),
//@end
//@item stun_agent :: mod client > impl StunClient > fn set_timeout
//@tags C03 C05 C06 C07 C08 C10 C11 C12 C13 C15 C17
//@closure 1
|| -> (e: StunAgentError)
    ensures e is InternalError,
//@head
    let ghost rtt0 = self.rtt;
//@tail
    proof {
        let m = rto_manager;
        assert(sched(m.rtt(), m.rm(), m.rc(), 1) == sched(m.rtt(), m.rm(), m.rc(), 0) + ivl(m.rtt(), m.rm(), m.rc(), 0));
        assert(sched(m.rtt(), m.rm(), m.rc(), 0) == 0);
    }
//@spec
    requires old(self).wf(), !old(self).transactions@.contains_key(transaction_id),
    ensures
        final(self).transactions@ == old(self).transactions@,
        final(self).max_transactions == old(self).max_transactions,
        final(self).mechanism == old(self).mechanism,
        final(self).transaction_events == old(self).transaction_events,
        final(self).use_fingerprint == old(self).use_fingerprint,
        final(self).rtt.wf(), final(self).timeouts.wf(),
        // C15: the estimate goes stale after more than 600 s between consecutive requests; the new request's
        // first interval is the current estimate (configured timeout on reliable transport)
        match (old(self).rtt, final(self).rtt) {
            (StunRttCalcuator::Unreliable(h0), StunRttCalcuator::Unreliable(h1)) => {
                let stale = h0.last_request is Some && sat_sub(instant.ns@, h0.last_request->Some_0.ns@) > 600_000_000_000;
                &&& h1.rm == h0.rm && h1.rc == h0.rc && h1.last_request == Some(instant)
                &&& (stale ==> h1.rtt.rto == h0.rtt.configured_rto && h1.rtt.srtt.ns@ == 0 && h1.rtt.rttvar.ns@ == 0
                        && h1.rtt.configured_rto == h0.rtt.configured_rto && h1.rtt.granularity == h0.rtt.granularity)
                &&& (!stale ==> h1.rtt == h0.rtt)
                &&& (r is Ok ==> r->Ok_0.rtt() == h1.rtt.rto.ns@ && r->Ok_0.rm() == h0.rm && r->Ok_0.rc() == h0.rc)
            },
            (StunRttCalcuator::Reliable(t0), StunRttCalcuator::Reliable(t1)) =>
                t1 == t0 && (r is Ok ==> r->Ok_0.rtt() == t0.ns@ && r->Ok_0.rm() == 1 && r->Ok_0.rc() == 1),
            _ => false,
        },
        r is Ok ==> {
            let mgr = r->Ok_0;
            &&& mgr.wf() && mgr.latest == Some(instant) && mgr.j() == 1
            &&& mgr.last_rto.ns@ == ivl(mgr.rtt(), mgr.rm(), mgr.rc(), 0)
            &&& mgr.origin() == instant.ns@
            &&& final(self).timeouts.ms() == old(self).timeouts.ms().insert(
                    TimeoutItem { instant, timeout: mgr.last_rto, transaction_id })
        },
        r is Err ==> final(self).timeouts == old(self).timeouts && !(r->Err_0 is MaxOutstandingRequestsReached),
//@end
    pub open spec fn deadline(&self, id: TransactionId) -> int { dl(self.transactions@, id) }
    pub open spec fn notif_ok(&self, id: TransactionId, left: Duration, now: int) -> bool {
        notif_ok_m(self.transactions@, id, left, now)
    }
    pub proof fn lemma_notif(&self, now: int, x: TimeoutItem, left: Duration)
        requires self.wf(), self.timeouts.ms().count(x) > 0,
            forall|y: TimeoutItem| self.timeouts.ms().count(y) > 0 ==> x.expiry() <= y.expiry(),
            left.ns@ == (if x.expiry() > now { x.expiry() - now } else { 0 }),
        ensures self.notif_ok(x.transaction_id, left, now),
    {
        assert(x == self.entry(x.transaction_id));
        assert(x.expiry() == self.deadline(x.transaction_id));
        assert forall|k: TransactionId| self.transactions@.contains_key(k) implies dl(self.transactions@, x.transaction_id) <= #[trigger] dl(self.transactions@, k) by {
            assert(self.tr_ok(k));
            let y = self.entry(k);
            assert(self.timeouts.ms().count(y) > 0);
            assert(x.expiry() <= y.expiry());
            assert(y.expiry() == self.deadline(k));
        }
    }
//@item stun_agent :: mod client > impl StunClient > fn prepare_request
//@tags C03 C05 C06 C07 C08 C10 C11 C12 C13 C15 C17
//@spec
    requires old(attributes).wf(), old(self).mechanism is Some ==> old(self).mechanism->Some_0.wf(),
    ensures final(self).mechanism is Some ==> final(self).mechanism->Some_0.wf(),
        old(self).mechanism is None ==> final(self).mechanism is None, final(self).transactions == old(self).transactions, final(self).timeouts == old(self).timeouts,
        final(self).rtt == old(self).rtt, final(self).max_transactions == old(self).max_transactions,
        final(self).transaction_events == old(self).transaction_events,
        final(self).use_fingerprint == old(self).use_fingerprint,
        final(self).encoder == old(self).encoder, final(self).decoder == old(self).decoder,
        r is Err ==> !(r->Err_0 is MaxOutstandingRequestsReached),
        final(attributes).wf(),
        r is Ok ==> prepared(true, old(self).mechanism, old(self).use_fingerprint, *old(attributes), *final(attributes)),
//@end
//@item stun_agent :: mod client > impl StunClient > fn prepare_indication
//@tags C03 C05 C06 C07 C08 C10 C11 C12 C13 C15 C17
//@spec
    requires old(attributes).wf(), old(self).mechanism is Some ==> old(self).mechanism->Some_0.wf(),
    ensures final(self).mechanism is Some ==> final(self).mechanism->Some_0.wf(),
        old(self).mechanism is None ==> final(self).mechanism is None, final(self).transactions == old(self).transactions, final(self).timeouts == old(self).timeouts,
        final(self).rtt == old(self).rtt, final(self).max_transactions == old(self).max_transactions,
        final(self).transaction_events == old(self).transaction_events,
        final(self).use_fingerprint == old(self).use_fingerprint,
        final(self).encoder == old(self).encoder, final(self).decoder == old(self).decoder,
        r is Err ==> !(r->Err_0 is MaxOutstandingRequestsReached),
        final(attributes).wf(),
        r is Ok ==> prepared(false, old(self).mechanism, old(self).use_fingerprint, *old(attributes), *final(attributes)),
//@end
//@item stun_agent :: mod client > impl StunClient > fn send_request
//@tags C03 C05 C06 C07 C08 C10 C11 C12 C13 C15 C17
//@rules R11
//@closure 1
|e: StunEncodeError| -> (x: StunAgentError)
    ensures x is InternalError,
//@head
    broadcast use axiom_txid_key_model;
    let ghost app0 = attributes;
//@stmt "let msg ="
    let ghost s2 = attributes;
//@before "let transaction ="
    // freshness of the random 96-bit transaction id chosen by create_stun_message (assumption, see DESIGN.md)
    proof { assume(!self.transactions@.contains_key(msg.sid())); }
    let ghost pre = *self;
//@before "self.transactions.insert("
    let ghost mid = *self;
    let ghost new_entry = TimeoutItem { instant, timeout: transaction.rtos.last_rto, transaction_id: msg.sid() };
//@after "self.transactions.insert("
    proof {
        assert(self.transactions@.dom() =~= old(self).transactions@.dom().insert(msg.sid()));
        assert(self.entry(msg.sid()) == new_entry);
        assert forall|id: TransactionId| #[trigger] self.transactions@.contains_key(id) implies self.tr_ok(id) by {
            if id != msg.sid() { assert(old(self).tr_ok(id)); assert(self.entry(id) == old(self).entry(id)); }
        }
        assert(self.timers_ok()) by {
            assert forall|x: TimeoutItem| #[trigger] self.timeouts.ms().count(x) > 0 implies
                self.transactions@.contains_key(x.transaction_id) && self.timeouts.ms().count(x) == 1
                && x == self.entry(x.transaction_id) by {
                if x != new_entry {
                    assert(old(self).timeouts.ms().count(x) > 0);
                    assert(x.transaction_id != msg.sid());
                } else {
                    assert(old(self).timeouts.ms().count(x) == 0) by {
                        if old(self).timeouts.ms().count(x) > 0 { assert(old(self).transactions@.contains_key(x.transaction_id)); }
                    }
                }
            }
        }
        assert(self.wf());
    }
//@after "if let Some((id, left)) = self.timeouts.next_timeout(instant)"
    proof {
        if events.events@.len() == 2 {
            let x = self.timeouts.top();
            self.lemma_notif(instant.ns@, x, events.events@[1]->RestransmissionTimeOut_0.1);
        }
    }
//@tail
    proof {
        let id = msg.sid();
        assert(!old(self).transactions@.contains_key(id));
        assert(self.transactions@.dom() == old(self).transactions@.dom().insert(id));
        assert(self.transactions@.len() == old(self).transactions@.len() + 1);
        assert(self.transactions@[id].instant == Some(instant));
        assert(self.transactions@[id].rtos.j() == 1);
        assert(self.transactions@[id].rtos.origin() == instant.ns@);
        assert(self.transaction_events.events@.len() == 2);
        assert(self.transaction_events.events@[0] == StunClientEvent::OutputPacket(self.transactions@[id].packet));
        assert(forall|k: TransactionId| old(self).transactions@.contains_key(k) ==> self.transactions@[k] == old(self).transactions@[k]);
        assert(self.transaction_events.events@[1] is RestransmissionTimeOut);
        assert(self.notif_ok(self.transaction_events.events@[1]->RestransmissionTimeOut_0.0,
                    self.transaction_events.events@[1]->RestransmissionTimeOut_0.1, instant.ns@));
        assert(prepared(true, old(self).mechanism, old(self).use_fingerprint, app0, s2));
        assert(msg.attrs_view() == s2.flat());
        assert(self.transactions@[id].packet@ == wire_of(msg));
        assert(packet_of(*old(self), method, MessageClass::Request, app0, s2, msg, self.transactions@[id].packet@));
    }
//@spec
    requires old(self).wf(), attributes.wf(),
    ensures final(self).wf(),
        final(self).max_transactions == old(self).max_transactions,
        final(self).use_fingerprint == old(self).use_fingerprint,
        // C12: refused exactly when the table is full, and then nothing at all changes
        old(self).transactions@.len() >= old(self).max_transactions ==>
            r is Err && r->Err_0 is MaxOutstandingRequestsReached && *final(self) == *old(self),
        (r is Err && r->Err_0 is MaxOutstandingRequestsReached) ==> old(self).transactions@.len() >= old(self).max_transactions,
        // any other failure leaves the requests, their timers and the pending events alone
        r is Err ==> final(self).transactions@ == old(self).transactions@ && final(self).timeouts == old(self).timeouts
            && final(self).transaction_events == old(self).transaction_events,
        r is Ok ==> {
            let id = r->Ok_0;
            &&& !old(self).transactions@.contains_key(id)
            &&& final(self).transactions@.dom() == old(self).transactions@.dom().insert(id)
            &&& final(self).transactions@.len() == old(self).transactions@.len() + 1
            &&& (forall|k: TransactionId| old(self).transactions@.contains_key(k) ==> final(self).transactions@[k] == old(self).transactions@[k])
            // first transmission now; the first interval of the schedule is running (C06), RTT sample armed (C15)
            &&& final(self).transactions@[id].instant == Some(instant)
            &&& final(self).transactions@[id].rtos.j() == 1
            &&& final(self).transactions@[id].rtos.origin() == instant.ns@
            // exactly: the packet, then an accurate timer notification (C11: some request is outstanding)
            &&& final(self).transaction_events.events@.len() == 2
            &&& final(self).transaction_events.events@[0] == StunClientEvent::OutputPacket(final(self).transactions@[id].packet)
            &&& final(self).transaction_events.events@[1] is RestransmissionTimeOut
            &&& final(self).notif_ok(final(self).transaction_events.events@[1]->RestransmissionTimeOut_0.0,
                    final(self).transaction_events.events@[1]->RestransmissionTimeOut_0.1, instant.ns@)
            // C13: the packet is the encoding of a Request of the asked method carrying exactly the prepared attribute set
            &&& exists|s2: StunAttributes, msg: StunMessage| #[trigger] packet_of(*old(self), method, MessageClass::Request, attributes, s2, msg,
                    final(self).transactions@[id].packet@) && msg.sid() == id
        },
//@end
//@item stun_agent :: mod client > impl StunClient > fn send_indication
//@tags C03 C05 C06 C07 C08 C10 C11 C12 C13 C15 C17
//@rules R11
//@spec
    requires old(self).wf(), attributes.wf(),
    ensures final(self).wf(),
        // C12: indications never consume a slot; they have no timer and no retransmissions
        final(self).transactions@ == old(self).transactions@, final(self).timeouts == old(self).timeouts,
        final(self).rtt == old(self).rtt, final(self).max_transactions == old(self).max_transactions,
        final(self).use_fingerprint == old(self).use_fingerprint,
        r is Err ==> final(self).transaction_events == old(self).transaction_events,
        r is Ok ==> final(self).transaction_events.events@.len() == 1
            && final(self).transaction_events.events@[0] is OutputPacket
            // C13: the packet is the encoding of an Indication of the asked method carrying the prepared attribute set
            && exists|s2: StunAttributes, msg: StunMessage| #[trigger] packet_of(*old(self), method, MessageClass::Indication, attributes, s2, msg,
                    final(self).transaction_events.events@[0]->OutputPacket_0@) && msg.sid() == r->Ok_0,
//@head
    let ghost app0 = attributes;
//@stmt "let msg ="
    let ghost s2 = attributes;
//@tail
    proof {
        assert(packet_of(*old(self), method, MessageClass::Indication, app0, s2, msg, self.transaction_events.events@[0]->OutputPacket_0@));
    }
//@closure 1
|e: StunEncodeError| -> (x: StunAgentError)
    ensures x is InternalError,
//@end
//@item stun_agent :: mod client > impl StunClient > fn events
//@tags C05
//@spec
    ensures final(self).transactions == old(self).transactions, final(self).timeouts == old(self).timeouts,
        final(self).rtt == old(self).rtt, final(self).max_transactions == old(self).max_transactions,
        final(self).mechanism == old(self).mechanism, final(self).use_fingerprint == old(self).use_fingerprint,
        r@ == old(self).transaction_events.events@, final(self).transaction_events.events@.len() == 0,
//@end
//@item stun_agent :: mod client > impl StunClient > fn on_buffer_recv
//@tags C03 C05 C06 C07 C08 C10 C11 C12 C13 C15 C17
//@rules R11
//@closure 1
|e: StunDecodeError| -> (x: StunAgentError)
    ensures x is InternalError,
//@head
    broadcast use axiom_txid_key_model;
//@after "let (msg, _) ="
    let ghost gm = msg;
//@tail
    proof {
        assert(recv_ok_post(*old(self), *self, buffer@, gm, instant));
    }
//@spec
    requires old(self).wf(),
    ensures final(self).wf(),
        final(self).max_transactions == old(self).max_transactions,
        final(self).use_fingerprint == old(self).use_fingerprint,
        // C17: a rejected buffer changes nothing (but the documented marker)
        r is Err ==> {
            &&& final(self).transactions@ == old(self).transactions@
            &&& final(self).timeouts == old(self).timeouts
            &&& final(self).rtt == old(self).rtt
            &&& final(self).transaction_events == old(self).transaction_events
            &&& mech_frame(old(self).mechanism, final(self).mechanism, buffer@)
        },
        r is Ok ==> decoded(buffer@) is Some && recv_ok_post(*old(self), *final(self), buffer@, decoded(buffer@)->Some_0, instant),
//@end
    // what StunMessageTimeout::check(now) popped, read against the client's invariant: the popped entries are the
    // (unique) timers of distinct outstanding requests, all due; what is left belongs to other requests
    #[verifier::spinoff_prover]
    pub proof fn lemma_after_check(&self, ms1: Multiset<TimeoutItem>, removed: Seq<TimeoutItem>, ids: Seq<TransactionId>, now: int)
        requires self.wf(), check_post(self.timeouts.ms(), ms1, removed, ids, now),
        ensures
            popped_facts(*self, removed, ids, now),
            ids.len() == removed.len(),
            forall|k: int| 0 <= k < removed.len() ==> ids[k] == #[trigger] removed[k].transaction_id && removed[k].expiry() <= now,
            forall|k: int| 0 <= k < removed.len() ==> self.transactions@.contains_key(#[trigger] removed[k].transaction_id)
                && removed[k] == self.entry(removed[k].transaction_id),
            forall|a: int, b: int| 0 <= a < b < removed.len() ==> removed[a].transaction_id != removed[b].transaction_id,
            forall|x: TimeoutItem| #[trigger] ms1.count(x) > 0 ==> self.timeouts.ms().count(x) > 0 && x.expiry() > now
                && (forall|k: int| 0 <= k < removed.len() ==> x.transaction_id != #[trigger] removed[k].transaction_id),
            forall|y: TimeoutItem| self.timeouts.ms().count(y) == ms1.count(y) + removed.to_multiset().count(y),
    {
        reveal(popped_facts);
        let ms0 = self.timeouts.ms();
        removed.to_multiset_ensures();
        assert forall|k: int| 0 <= k < removed.len() implies
            self.transactions@.contains_key(#[trigger] removed[k].transaction_id) && removed[k] == self.entry(removed[k].transaction_id)
            && ms0.count(removed[k]) == 1 && ms1.count(removed[k]) == 0 && removed.to_multiset().count(removed[k]) == 1 by {
            assert(removed.contains(removed[k]));
            assert(removed.to_multiset().count(removed[k]) > 0);
            assert(ms0.count(removed[k]) == ms1.count(removed[k]) + removed.to_multiset().count(removed[k]));
        }
        assert forall|a: int, b: int| 0 <= a < b < removed.len() implies removed[a].transaction_id != removed[b].transaction_id by {
            if removed[a].transaction_id == removed[b].transaction_id {
                assert(removed[a] == removed[b]);
                lemma_count_two(removed, a, b);
            }
        }
        assert forall|x: TimeoutItem| #[trigger] ms1.count(x) > 0 implies ms0.count(x) > 0 && x.expiry() > now
            && (forall|k: int| 0 <= k < removed.len() ==> x.transaction_id != #[trigger] removed[k].transaction_id) by {
            assert(ms0.count(x) == ms1.count(x) + removed.to_multiset().count(x));
            assert forall|k: int| 0 <= k < removed.len() implies x.transaction_id != #[trigger] removed[k].transaction_id by {
                if x.transaction_id == removed[k].transaction_id { assert(x == removed[k]); }
            }
        }
        // the four conjuncts of popped_facts, stated once more so that the opaque predicate is established from facts already proved
        assert(ids.len() == removed.len());
        assert(forall|k: int| 0 <= k < removed.len() ==> ids[k] == #[trigger] removed[k].transaction_id && removed[k].expiry() <= now);
        assert(forall|k: int| 0 <= k < removed.len() ==> self.transactions@.contains_key(#[trigger] removed[k].transaction_id)
            && removed[k] == self.entry(removed[k].transaction_id));
        assert(forall|a: int, b: int| 0 <= a < b < removed.len() ==> removed[a].transaction_id != removed[b].transaction_id);
        assert(popped_facts(*self, removed, ids, now));
    }
    pub proof fn lemma_empty_iff(&self)
        requires self.wf(),
        ensures self.timeouts.ms().len() == 0 <==> self.transactions@.len() == 0,
    {
        if self.transactions@.len() > 0 {
            let id = self.transactions@.dom().choose();
            assert(self.transactions@.dom().contains(id));
            assert(self.transactions@.contains_key(id));
            assert(self.tr_ok(id));
            assert(self.timeouts.ms().count(self.entry(id)) > 0);
            assert(self.timeouts.ms().len() > 0);
        }
        if self.timeouts.ms().len() > 0 {
            let x = self.timeouts.ms().choose();
            assert(self.timeouts.ms().count(x) > 0);
            assert(self.transactions@.contains_key(x.transaction_id));
            assert(self.transactions@.dom().contains(x.transaction_id));
            if self.transactions@.len() == 0 {
                assert(self.transactions@.dom() =~= Set::<TransactionId>::empty());
            }
        }
    }
//@item stun_agent :: mod client > impl StunClient > fn on_timeout
//@tags C03 C05 C06 C07 C08 C10 C11 C12 C13 C15 C17
//@rules R3V R6? R11
//@sub "self.transactions.get_mut(&transaction_id)" => "vx_tr_get_mut(&mut self.transactions, &transaction_id)"
//@head
    broadcast use axiom_txid_key_model;
    let ghost c0 = *self;
    let ghost now = instant.ns@;
//@stmt "VxEvents::vx_init()"
    let ghost removed = choose|removed: Seq<TimeoutItem>| check_post(c0.timeouts.ms(), self.timeouts.ms(), removed, timed_out@, now);
    let ghost ms1 = self.timeouts.ms();
    proof {
        c0.lemma_after_check(ms1, removed, timed_out@, now);
        assert forall|id: TransactionId| #[trigger] self.transactions@.contains_key(id)
            && (forall|k: int| 0 <= k < removed.len() ==> #[trigger] removed[k].transaction_id != id) implies self.tr_ok(id) by {
            assert(c0.tr_ok(id));
            assert(ms1.count(c0.entry(id)) > 0) by {
                let x = c0.entry(id);
                if ms1.count(x) == 0 {
                    assert(removed.to_multiset().count(x) > 0);
                    removed.to_multiset_ensures();
                    assert(removed.contains(x));
                    let k = choose|k: int| 0 <= k < removed.len() && removed[k] == x;
                    assert(removed[k].transaction_id == id);
                }
            }
        }
    }
//@before "self.transaction_events.vx_commit(" #last
    let ghost evs = events.events@;
    let ghost ids = Seq::new(removed.len(), |k: int| removed[k].transaction_id);
    proof {
        reveal(popped_facts);
        assert(self.wf());
        self.lemma_empty_iff();
        assert forall|a: int, b: int| 0 <= a < ids.len() && 0 <= b < ids.len() && a != b implies ids[a] != ids[b] by {
            if a < b { assert(removed[a].transaction_id != removed[b].transaction_id); }
            else { assert(removed[b].transaction_id != removed[a].transaction_id); }
        }
        assert(ids.no_duplicates());
        removed.to_multiset_ensures();
        // every request that was due has been served
        assert forall|id: TransactionId| c0.transactions@.contains_key(id) && dl(c0.transactions@, id) <= now implies ids.contains(id) by {
            let x = c0.entry(id);
            assert(c0.tr_ok(id));
            assert(x.expiry() == dl(c0.transactions@, id));
            assert(c0.timeouts.ms().count(x) == ms1.count(x) + removed.to_multiset().count(x));
            assert(ms1.count(x) == 0);
            assert(removed.contains(x));
            let k = choose|k: int| 0 <= k < removed.len() && removed[k] == x;
            assert(ids[k] == id);
        }
        // requests that were not due are not among the served ones
        assert forall|id: TransactionId| c0.transactions@.contains_key(id) && dl(c0.transactions@, id) > now implies
            self.transactions@.contains_key(id) && self.transactions@[id] == c0.transactions@[id] by {
            assert forall|k: int| 0 <= k < removed.len() implies #[trigger] removed[k].transaction_id != id by {
                if removed[k].transaction_id == id { assert(removed[k] == c0.entry(id)); }
            }
        }
        if evs.len() == ids.len() + 1 {
            let x = self.timeouts.top();
            self.lemma_notif(now, x, evs[ids.len() as int]->RestransmissionTimeOut_0.1);
        }
        assert forall|k: int| 0 <= k < ids.len() implies tmo_event_ok(c0, self.transactions@, #[trigger] ids[k], evs[k], now) by {
            assert(tmo_event_ok(c0, self.transactions@, removed[k].transaction_id, evs[k], now));
        }
    }
//@tail
    proof {
        if evs.len() == 0 {
            assert(self.transaction_events.events@ == c0.transaction_events.events@);
            assert(ids.len() == 0);
        } else {
            assert(self.transaction_events.events@ == evs);
            assert(tmo_batch_ok(c0, *self, self.transaction_events.events@, ids, now));
        }
    }
//@loopstart 1
    let ghost i = vx_i0 as int;
    let ghost cur = removed[i].transaction_id;
    let ghost tr0 = self.transactions@;
    let ghost ms0 = self.timeouts.ms();
    let ghost mech0 = self.mechanism;
    proof {
        reveal(popped_facts);
        assert(tr0.contains_key(cur) && tr0[cur] == c0.transactions@[cur]);
        assert(c0.tr_ok(cur));
    }
//@loopend 1
    proof {
        reveal(popped_facts);
        let tr1 = self.transactions@;
        let ms1b = self.timeouts.ms();
        assert(events.events@.len() == i + 1);
        if tr1.contains_key(cur) {
            // retransmitted
            let item = TimeoutItem { instant, timeout: tr1[cur].rtos.last_rto, transaction_id: cur };
            assert(tr1 =~= tr0.insert(cur, tr1[cur]));
            assert(ms1b == ms0.insert(item));
            assert(self.entry(cur) == item);
            assert(ms0.count(item) == 0) by { if ms0.count(item) > 0 { assert(item.transaction_id != removed[i].transaction_id); } }
            assert(tr1.dom() =~= tr0.dom());
        } else {
            assert(tr1 =~= tr0.remove(cur));
            assert(ms1b == ms0);
            assert(tr1.dom() =~= tr0.dom().remove(cur));
            assert(tr1.len() == tr0.len() - 1);
        }
        assert forall|x: TimeoutItem| #[trigger] ms1b.count(x) > 0 implies
            tr1.contains_key(x.transaction_id) && ms1b.count(x) == 1 && x == self.entry(x.transaction_id) by {
            if x.transaction_id != cur {
                assert(ms0.count(x) > 0);
                assert(tr0.contains_key(x.transaction_id));
            }
        }
        assert forall|id: TransactionId| #[trigger] tr1.contains_key(id)
            && (forall|k: int| i + 1 <= k < removed.len() ==> #[trigger] removed[k].transaction_id != id) implies self.tr_ok(id) by {
            if id != cur {
                assert(forall|k: int| i <= k < removed.len() ==> #[trigger] removed[k].transaction_id != id);
                assert(tr0.contains_key(id));
                assert(tr1[id] == tr0[id]);
            }
        }
    }
//@loop 1
    invariant
        obeys_key_model::<TransactionId>(),
        vx_i0 <= timed_out@.len(), timed_out@.len() == removed.len(), now == instant.ns@, c0 == *old(self), c0.wf(),
        popped_facts(c0, removed, timed_out@, now),
        self.timeouts.wf(), self.rtt == c0.rtt, self.max_transactions == c0.max_transactions,
        self.use_fingerprint == c0.use_fingerprint, self.transaction_events == c0.transaction_events,
        self.transactions@.dom().finite(), self.transactions@.dom().subset_of(c0.transactions@.dom()),
        self.transactions@.len() <= self.max_transactions,
        self.timers_ok(),
        // the requests still to be served in this call have no timer and are as they were
        forall|k: int, x: TimeoutItem| vx_i0 <= k < removed.len() && #[trigger] self.timeouts.ms().count(x) > 0
            ==> x.transaction_id != #[trigger] removed[k].transaction_id,
        forall|k: int| vx_i0 <= k < removed.len() ==> self.transactions@.contains_key(#[trigger] removed[k].transaction_id)
            && self.transactions@[removed[k].transaction_id] == c0.transactions@[removed[k].transaction_id],
        // every other request has its timer
        forall|id: TransactionId| #[trigger] self.transactions@.contains_key(id)
            && (forall|k: int| vx_i0 <= k < removed.len() ==> #[trigger] removed[k].transaction_id != id) ==> self.tr_ok(id),
        // requests that were not due are untouched
        forall|id: TransactionId| #[trigger] c0.transactions@.contains_key(id)
            && (forall|k: int| 0 <= k < removed.len() ==> #[trigger] removed[k].transaction_id != id)
            ==> self.transactions@.contains_key(id) && self.transactions@[id] == c0.transactions@[id],
        // mechanism: only the markers of served requests are consumed
        c0.mechanism is Some <==> self.mechanism is Some,
        self.mechanism is Some ==> self.mechanism->Some_0.wf(),
        self.mechanism is Some ==> self.mechanism->Some_0.st() == c0.mechanism->Some_0.st()
            && (forall|k: int| vx_i0 <= k < removed.len() ==> self.mechanism->Some_0.violated().contains(#[trigger] removed[k].transaction_id)
                == c0.mechanism->Some_0.violated().contains(removed[k].transaction_id))
            && (forall|id: TransactionId| #[trigger] self.transactions@.contains_key(id) ==>
                (self.mechanism->Some_0.violated().contains(id) == c0.mechanism->Some_0.violated().contains(id))),
        // events so far: one per served request
        events.events@.len() == vx_i0,
        forall|k: int| 0 <= k < vx_i0 ==> tmo_event_ok(c0, self.transactions@, (#[trigger] removed[k]).transaction_id, events.events@[k], now),
    decreases timed_out@.len() - vx_i0,
//@spec
    requires old(self).wf(),
    ensures final(self).wf(),
        final(self).max_transactions == old(self).max_transactions,
        final(self).use_fingerprint == old(self).use_fingerprint,
        final(self).rtt == old(self).rtt,
        final(self).transactions@.dom().subset_of(old(self).transactions@.dom()),
        // C07/C17: a timer call leaves the credential state alone and consumes only the markers of requests it fails:
        // the marker of a request that is merely retransmitted (or not due) survives until its final time-out
        old(self).mechanism is Some <==> final(self).mechanism is Some,
        final(self).mechanism is Some ==> final(self).mechanism->Some_0.st() == old(self).mechanism->Some_0.st()
            && forall|id: TransactionId| #[trigger] final(self).transactions@.contains_key(id) ==>
                (final(self).mechanism->Some_0.violated().contains(id) == old(self).mechanism->Some_0.violated().contains(id)),
        // requests whose deadline lies ahead are not touched
        forall|id: TransactionId| old(self).transactions@.contains_key(id) && dl(old(self).transactions@, id) > instant.ns@
            ==> final(self).transactions@.contains_key(id) && final(self).transactions@[id] == old(self).transactions@[id],
        // the events of this call (they replace the pending ones unless there are none and nothing is outstanding)
        (final(self).transaction_events.events@ == old(self).transaction_events.events@ && final(self).transactions@.len() == 0
            && (forall|id: TransactionId| old(self).transactions@.contains_key(id) ==> dl(old(self).transactions@, id) > instant.ns@))
        || exists|ids: Seq<TransactionId>| tmo_batch_ok(*old(self), *final(self), final(self).transaction_events.events@, ids, instant.ns@),
//@end
}

// ---------------------------------------------------------------- configuration (client.rs): defaults of RFC 8489 and the estimator a transport gets
//@item! stun_agent :: mod client > struct RttConfig
//@item! stun_agent :: mod client > enum TransportReliability
impl Default for RttConfig {
//@item stun_agent :: mod client > impl Default for RttConfig > fn default
//@tags C03 C05 C06 C07 C08 C10 C11 C12 C13 C15 C17 C19
//@spec
    // RFC 8489 6.2.1: RTO 500 ms, Rm 16, Rc 7; clock granularity 1 ms
    ensures r.rto.ns@ == 500_000_000, r.granularity.ns@ == 1_000_000, r.rm == 16, r.rc == 7,
//@end
}
impl vstd::std_specs::convert::FromSpecImpl<TransportReliability> for StunRttCalcuator {
    open spec fn obeys_from_spec() -> bool { false }
    open spec fn from_spec(v: TransportReliability) -> Self { arbitrary() }
}
impl From<TransportReliability> for StunRttCalcuator {
//@item stun_agent :: mod client > impl From<TransportReliability> for StunRttCalcuator > fn from
//@tags C03 C05 C06 C07 C08 C10 C11 C12 C13 C15 C17 C19
//@spec
    // a reliable transport keeps its single time-out; an unreliable one starts with the configured RTO, no sample, Rm and Rc as given
    // (the representation invariant of the client needs Rc <= 31: 2^(Rc-1) is computed in 32 bits)
    ensures match reliability {
        TransportReliability::Reliable(t) => r == StunRttCalcuator::Reliable(t),
        TransportReliability::Unreliable(c) => r is Unreliable && r->Unreliable_0.rm == c.rm && r->Unreliable_0.rc == c.rc
            && r->Unreliable_0.last_request is None && r->Unreliable_0.rtt.srtt.ns@ == 0 && r->Unreliable_0.rtt.rto == c.rto
            && (c.rc <= 31 ==> r.wf()),
    },
//@end
}
// ---------------------------------------------------------------- the builder and StunClient::new (client.rs): what is configured is what the client runs with
// collaborators of StunClient::new that are abstract in this unit (their contracts are proved in units attrs and cred)
#[verifier::external_body]
pub struct UserName { _p: () }
#[verifier::external_body]
pub struct HMACKey { _p: () }
#[verifier::external_body]
pub struct StunError { _p: () }
#[verifier::external_body]
pub struct ShortTermCredentialClient { _p: () }
#[verifier::external_body]
pub struct LongTermCredentialClient { _p: () }
//@item! stun_agent :: enum Integrity
//@item! stun_agent :: enum CredentialMechanism
impl UserName {
    #[verifier::external_body]
    pub fn new(name: String) -> Result<UserName, StunError> { unimplemented!() }
}
impl HMACKey {
    #[verifier::external_body]
    pub fn new_short_term(password: String) -> Result<HMACKey, StunError> { unimplemented!() }
}
impl ShortTermCredentialClient {
    #[verifier::external_body]
    pub fn new(user_name: UserName, key: HMACKey, integrity: Option<Integrity>, is_reliable: bool) -> ShortTermCredentialClient { unimplemented!() }
}
impl LongTermCredentialClient {
    #[verifier::external_body]
    pub fn new(user_name: UserName, password: String, is_reliable: bool) -> LongTermCredentialClient { unimplemented!() }
}
// the two variants of the real enum CredentialMechanismClient (abstract here): a new mechanism satisfies its invariant and has
// no protection-violated marker (unit cred: ShortTermCredentialClient::new / LongTermCredentialClient::new start with an empty set)
#[verifier::external_body]
pub fn vx_mech_short(m: ShortTermCredentialClient) -> (r: CredentialMechanismClient)
    ensures r.wf(), r.violated() == Set::<TransactionId>::empty(),
{ unimplemented!() }
#[verifier::external_body]
pub fn vx_mech_long(m: LongTermCredentialClient) -> (r: CredentialMechanismClient)
    ensures r.wf(), r.violated() == Set::<TransactionId>::empty(),
{ unimplemented!() }
//@item! stun_agent :: mod client > struct StunClientParameters
//@item! stun_agent :: mod client > struct StunClienteBuilder
pub open spec fn reliability_ok(t: TransportReliability) -> bool {
    match t { TransportReliability::Reliable(_) => true, TransportReliability::Unreliable(c) => c.rc <= 31 }
}
impl StunClienteBuilder {
//@item stun_agent :: mod client > impl StunClienteBuilder > fn new
//@tags C03 C05 C06 C07 C08 C10 C11 C12 C13 C15 C17 C19
//@spec
    // RFC-independent defaults: no credentials, no FINGERPRINT, ten outstanding requests
    ensures r.0.reliability == reliability, r.0.mechanism is None, r.0.user_name is None, r.0.password is None,
        !r.0.fingerprint, r.0.max_transactions == 10,
//@end
//@item stun_agent :: mod client > impl StunClienteBuilder > fn with_max_transactions
//@tags C03 C05 C06 C07 C08 C10 C11 C12 C13 C15 C17 C19
//@rules R5?
//@spec
    // exactly the limit asked for (0 included: such a client refuses every request), nothing else touched
    ensures r.0.max_transactions == max_transactions, r.0.reliability == self.0.reliability, r.0.mechanism == self.0.mechanism,
        r.0.user_name == self.0.user_name, r.0.password == self.0.password, r.0.fingerprint == self.0.fingerprint,
//@end
//@item stun_agent :: mod client > impl StunClienteBuilder > fn with_mechanism
//@tags C03 C05 C06 C07 C08 C10 C11 C12 C13 C15 C17 C19
//@rules R5?
//@sig
    pub fn with_mechanism(self, user_name: String, password: String, mechanism: CredentialMechanism) -> (r: Self)
//@sub "user_name.into()" => "user_name"
//@sub "password.into()" => "password"
//@spec
    ensures r.0.mechanism == Some(mechanism), r.0.user_name == Some(user_name), r.0.password == Some(password),
        r.0.max_transactions == self.0.max_transactions, r.0.reliability == self.0.reliability, r.0.fingerprint == self.0.fingerprint,
//@end
//@item stun_agent :: mod client > impl StunClienteBuilder > fn with_fingerprint
//@tags C03 C05 C06 C07 C08 C10 C11 C12 C13 C15 C17 C19
//@rules R5?
//@spec
    ensures r.0.fingerprint, r.0.max_transactions == self.0.max_transactions, r.0.reliability == self.0.reliability,
        r.0.mechanism == self.0.mechanism, r.0.user_name == self.0.user_name, r.0.password == self.0.password,
//@end
//@item stun_agent :: mod client > impl StunClienteBuilder > fn build
//@tags C03 C05 C06 C07 C08 C10 C11 C12 C13 C15 C17 C19
//@spec
    ensures r is Ok ==> client_as_configured(r->Ok_0, self.0),
//@end
}
// a new client: nothing outstanding, no timer, no pending event; limit, FINGERPRINT option, transport and the presence of a
// credential mechanism are the configured ones; it satisfies the representation invariant every method needs
pub open spec fn client_as_configured(c: StunClient, p: StunClientParameters) -> bool {
    &&& c.max_transactions == p.max_transactions
    &&& c.use_fingerprint == p.fingerprint
    &&& (c.mechanism is Some <==> p.mechanism is Some)
    &&& (c.mechanism is Some ==> c.mechanism->Some_0.violated() == Set::<TransactionId>::empty())
    &&& c.transactions@ == Map::<TransactionId, StunTransaction>::empty()
    &&& c.timeouts.ms().len() == 0
    &&& c.transaction_events.events@.len() == 0
    &&& (match p.reliability {
            TransportReliability::Reliable(t) => c.rtt == StunRttCalcuator::Reliable(t),
            TransportReliability::Unreliable(cfg) => c.rtt is Unreliable && c.rtt->Unreliable_0.rm == cfg.rm && c.rtt->Unreliable_0.rc == cfg.rc
                && c.rtt->Unreliable_0.last_request is None && c.rtt->Unreliable_0.rtt.srtt.ns@ == 0 && c.rtt->Unreliable_0.rtt.rto == cfg.rto,
        })
    &&& (reliability_ok(p.reliability) ==> c.wf())
}
impl StunClient {
//@item stun_agent :: mod client > impl StunClient > fn new
//@tags C03 C05 C06 C07 C08 C10 C11 C12 C13 C15 C17 C19
//@closure 1
|| -> (e: StunAgentError)
    ensures e is InternalError,
//@closure 2
|| -> (e: StunAgentError)
    ensures e is InternalError,
//@closure 3
|e: StunError| -> (x: StunAgentError)
    ensures x is InternalError,
//@closure 4
|e: StunError| -> (x: StunAgentError)
    ensures x is InternalError,
//@sub "String::from(\"User name is required\")" => "vx_fmt()"
//@sub "String::from(\"Password is required\")" => "vx_fmt()"
//@sub "CredentialMechanismClient::ShortTerm(" => "vx_mech_short("
//@sub "CredentialMechanismClient::LongTerm(" => "vx_mech_long("
//@sub "encoder: Default::default()" => "encoder: MessageEncoder::default()"
//@sub "decoder: Default::default()" => "decoder: MessageDecoder::default()"
//@sub "transactions: Default::default()" => "transactions: HashMap::new()"
//@sub "transaction_events: Default::default()" => "transaction_events: TransactionEventHandler::default()"
//@stmt "Ok(Self {"
    let vx_timeouts = StunMessageTimeout::default();
//@sub "timeouts: StunMessageTimeout::default()" => "timeouts: vx_timeouts"
//@spec
    ensures r is Ok ==> client_as_configured(r->Ok_0, params),
        // the only refusals: a mechanism without user name / password, or credentials the OpaqueString profile rejects
        params.mechanism is None ==> r is Ok,
//@end
}
// base case of the client's representation invariant: no outstanding request, no timer
pub proof fn lemma_wf_initial(c: StunClient)
    requires c.timeouts.wf(), c.timeouts.ms().len() == 0, c.rtt.wf(), c.mechanism is Some ==> c.mechanism->Some_0.wf(),
        c.transactions@ == Map::<TransactionId, StunTransaction>::empty(),
    ensures c.wf(),
{
    assert forall|x: TimeoutItem| #[trigger] c.timeouts.ms().count(x) > 0 implies false by {
        if c.timeouts.ms().count(x) > 0 { assert(c.timeouts.ms().len() > 0); }
    }
}

// ---------------------------------------------------------------- C05 over whole call histories: a lemma over the per-call contracts
// which request an event reports a final outcome for (a delivered indication is not the outcome of a request)
pub open spec fn final_of(e: StunClientEvent) -> Option<TransactionId> {
    match e {
        StunClientEvent::StunMessageReceived(m) => if m.sclass() is Indication { None } else { Some(m.sid()) },
        StunClientEvent::TransactionFailed(f) => Some(f.0),
        StunClientEvent::Retry(id) => Some(id),
        _ => None,
    }
}
// what one API call may do to the set of outstanding requests and which final outcomes it may report
pub open spec fn step_sound(t0: Set<TransactionId>, t1: Set<TransactionId>, evs: Seq<StunClientEvent>, new_id: Option<TransactionId>) -> bool {
    // the table only grows by the request sent in this call
    &&& (forall|id: TransactionId| t1.contains(id) ==> t0.contains(id) || new_id == Some(id))
    // a final outcome is reported only for a request outstanding before the call, which is gone after it
    &&& (forall|k: int| 0 <= k < evs.len() && final_of(#[trigger] evs[k]) is Some ==>
            t0.contains(final_of(evs[k])->Some_0) && !t1.contains(final_of(evs[k])->Some_0))
    // and at most once within the call
    &&& (forall|j: int, k: int| 0 <= j < k < evs.len() && final_of(evs[j]) is Some ==> final_of(evs[j]) != final_of(evs[k]))
}
// on_buffer_recv returning Ok is such a step (contract recv_ok_post)
pub proof fn lemma_step_recv(c0: StunClient, c1: StunClient, raw: Seq<u8>, m: StunMessage, now: Instant)
    requires recv_ok_post(c0, c1, raw, m, now),
    ensures step_sound(c0.transactions@.dom(), c1.transactions@.dom(), c1.transaction_events.events@, None),
{
}
// on_timeout is such a step (contract tmo_batch_ok)
pub proof fn lemma_step_timeout(c0: StunClient, c1: StunClient, ids: Seq<TransactionId>, now: int)
    requires tmo_batch_ok(c0, c1, c1.transaction_events.events@, ids, now), c1.transactions@.dom().subset_of(c0.transactions@.dom()),
    ensures step_sound(c0.transactions@.dom(), c1.transactions@.dom(), c1.transaction_events.events@, None),
{
    let ev = c1.transaction_events.events@;
    assert forall|k: int| 0 <= k < ev.len() && final_of(#[trigger] ev[k]) is Some implies
        c0.transactions@.dom().contains(final_of(ev[k])->Some_0) && !c1.transactions@.dom().contains(final_of(ev[k])->Some_0) by {
        if k < ids.len() { assert(tmo_event_ok(c0, c1.transactions@, ids[k], ev[k], now)); }
    }
    assert forall|j: int, k: int| 0 <= j < k < ev.len() && final_of(ev[j]) is Some implies final_of(ev[j]) != final_of(ev[k]) by {
        if k < ids.len() {
            assert(tmo_event_ok(c0, c1.transactions@, ids[j], ev[j], now));
            assert(tmo_event_ok(c0, c1.transactions@, ids[k], ev[k], now));
            assert(ids[j] != ids[k]);
        }
    }
}
// C05: along any history of calls in which request ids are not reused, every request gets at most one final outcome
// props: C05
pub proof fn theorem_c05_history(doms: Seq<Set<TransactionId>>, evs: Seq<Seq<StunClientEvent>>, news: Seq<Option<TransactionId>>,
    i: int, k: int, j: int, l: int)
    requires
        doms.len() == evs.len() + 1, news.len() == evs.len(),
        forall|s: int| 0 <= s < evs.len() ==> step_sound(#[trigger] doms[s], doms[s + 1], evs[s], news[s]),
        // a fresh id was never outstanding before (random 96-bit ids: the assumption recorded at send_request)
        forall|s: int, r: int| 0 <= r <= s < evs.len() && (#[trigger] news[s]) is Some ==> !(#[trigger] doms[r]).contains(news[s]->Some_0),
        0 <= i <= j < evs.len(), 0 <= k < evs[i].len(), 0 <= l < evs[j].len(),
        final_of(evs[i][k]) is Some, final_of(evs[i][k]) == final_of(evs[j][l]),
    ensures i == j && k == l,
{
    let id = final_of(evs[i][k])->Some_0;
    assert(step_sound(doms[i], doms[i + 1], evs[i], news[i]));
    if i < j {
        // gone after call i, and it can only come back as a fresh id, which it is not (it was outstanding at call i)
        lemma_stays_out(doms, evs, news, id, i, j);
        assert(step_sound(doms[j], doms[j + 1], evs[j], news[j]));
    } else if k != l {
        if k < l { assert(final_of(evs[i][k]) != final_of(evs[i][l])); } else { assert(final_of(evs[i][l]) != final_of(evs[i][k])); }
    }
}
proof fn lemma_stays_out(doms: Seq<Set<TransactionId>>, evs: Seq<Seq<StunClientEvent>>, news: Seq<Option<TransactionId>>, id: TransactionId, i: int, m: int)
    requires
        doms.len() == evs.len() + 1, news.len() == evs.len(),
        forall|s: int| 0 <= s < evs.len() ==> step_sound(#[trigger] doms[s], doms[s + 1], evs[s], news[s]),
        forall|s: int, r: int| 0 <= r <= s < evs.len() && (#[trigger] news[s]) is Some ==> !(#[trigger] doms[r]).contains(news[s]->Some_0),
        0 <= i < m <= evs.len(), doms[i].contains(id), !doms[i + 1].contains(id),
    ensures !doms[m].contains(id),
    decreases m - i,
{
    if m > i + 1 {
        lemma_stays_out(doms, evs, news, id, i, m - 1);
        assert(step_sound(doms[m - 1], doms[m], evs[m - 1], news[m - 1]));
        if doms[m].contains(id) {
            assert(news[m - 1] == Some(id));
            assert(!doms[i].contains(news[m - 1]->Some_0));
        }
    }
}
proof fn vx_sentinel() ensures false {}
} // verus!
fn main() {}
