#![feature(allocator_api)]
#![allow(unused, non_snake_case, non_camel_case_types, dead_code)]
use vstd::prelude::*;
use core::cmp::Ordering;
use vstd::multiset::Multiset;
use std::sync::Arc;
use std::collections::HashMap;
use vstd::std_specs::hash::*;
verus! {
broadcast use vstd::std_specs::hash::group_hash_axioms;
//@include prelude/time.rs
//@include prelude/agent.rs
//@include inc/timers_decl.rs

proof fn vx_sentinel() ensures false {}
} // verus!
fn main() {}
