#![feature(allocator_api)]
#![allow(unused, non_snake_case, non_camel_case_types, dead_code)]
use vstd::prelude::*;
verus! {
//@include prelude/core.rs
//@include inc/codec_common.rs
//@include inc/raw_header.rs

// ---------------------------------------------------------------- raw.rs: TLV walk over the attribute bytes
// attribute header at pos: type(16) length(16); the value is padded to a multiple of 4 (RFC 8489 section 14)
pub open spec fn tlv_len(body: Seq<u8>, pos: int) -> int { be16(body.subrange(pos + 2, pos + 4)) }
pub open spec fn tlv_type(body: Seq<u8>, pos: int) -> int { be16(body.subrange(pos, pos + 2)) }
pub open spec fn tlv_next(body: Seq<u8>, pos: int) -> int { pos + 4 + tlv_len(body, pos) + pad4(tlv_len(body, pos)) }
// a complete, padded TLV starts at pos
pub open spec fn tlv_ok(body: Seq<u8>, pos: int) -> bool {
    0 <= pos && pos + 4 <= body.len() && tlv_next(body, pos) <= body.len()
}
//@item! stun_rs :: mod raw > struct RawAttribute
//@item! stun_rs :: mod raw > struct RawAttributes
//@item! stun_rs :: mod raw > struct RawAttributesIter
//@item! stun_rs :: mod raw > struct RawMessage
impl<'a> Decode<'a> for RawMessage<'a> {
//@item stun_rs :: mod raw > impl<'a> Decode<'a> for RawMessage<'a> > fn decode
//@tags C03 C01 C18 C09
//@spec
    ensures r is Ok <==> header_ok(buffer@) && buffer@.len() >= 20 + be16(buffer@.subrange(2, 4)),
        r is Ok ==> {
            let n = 20 + be16(buffer@.subrange(2, 4));
            &&& r->Ok_0.1 == n
            &&& r->Ok_0.0.attributes@ == buffer@.subrange(20, n)
            &&& r->Ok_0.0.header.msg_type as int == be16(buffer@) % 16384
            &&& r->Ok_0.0.header.transaction_id@ == buffer@.subrange(8, 20)
        },
//@end
}
impl<'a> Decode<'a> for RawAttribute<'a> {
//@item stun_rs :: mod raw > impl<'a> Decode<'a> for RawAttribute<'a> > fn decode
//@tags C03 C01
//@spec
    ensures r is Ok <==> buffer@.len() >= 4 && buffer@.len() >= 4 + tlv_len(buffer@, 0),
        r is Ok ==> r->Ok_0.1 == 4 + tlv_len(buffer@, 0)
            && r->Ok_0.0.attr_type as int == tlv_type(buffer@, 0)
            && r->Ok_0.0.value@ == buffer@.subrange(4, 4 + tlv_len(buffer@, 0)),
//@end
}
impl<'a> vstd::std_specs::convert::FromSpecImpl<&'a [u8]> for RawAttributes<'a> {
    open spec fn obeys_from_spec() -> bool { true }
    open spec fn from_spec(v: &'a [u8]) -> Self { RawAttributes(v) }
}
impl<'a> From<&'a [u8]> for RawAttributes<'a> {
//@item stun_rs :: mod raw > impl<'a> From<&'a [u8]> for RawAttributes<'a> > fn from
//@spec
    ensures r.0 == buff,
//@end
}
impl RawAttributesIter<'_> {
//@item stun_rs :: mod raw > impl RawAttributesIter<'_> > fn pos
//@spec
    ensures r == self.pos,
//@end
}
// (R7) `impl FallibleIterator for RawAttributesIter` / `impl IntoFallibleIterator for RawAttributes`, verified as
// inherent methods (Verus forbids `requires` on trait impls; fallible_iterator's trait is third-party)
impl<'a> RawAttributesIter<'a> {
//@item stun_rs :: mod raw > impl<'a> FallibleIterator for RawAttributesIter<'a> > fn next
//@tags C03 C01 C09 C18
//@sub "Self::Item" => "RawAttribute<'a>"
//@sub "Self::Error" => "StunError"
//@head
    proof { axiom_slice_len_limit(self.buffer); }
//@spec
    requires old(self).pos <= old(self).buffer@.len(),
    ensures final(self).buffer == old(self).buffer,
        old(self).pos == old(self).buffer@.len() ==> r == Ok::<Option<RawAttribute<'a>>, StunError>(None) && final(self).pos == old(self).pos,
        old(self).pos < old(self).buffer@.len() ==> {
            let body = old(self).buffer@;
            let p = old(self).pos as int;
            &&& (r is Ok <==> tlv_ok(body, p))
            // strictly advances (termination of every TLV walk) and never leaves the buffer
            &&& (r is Ok ==> r->Ok_0 is Some && final(self).pos == tlv_next(body, p) && final(self).pos > old(self).pos
                    && final(self).pos <= body.len()
                    && r->Ok_0->Some_0.attr_type as int == tlv_type(body, p)
                    && r->Ok_0->Some_0.value@ == body.subrange(p + 4, p + 4 + tlv_len(body, p)))
        },
//@before "let size = value_size + padding(value_size);"
    proof {
        let body = self.buffer@;
        let p = self.pos as int;
        let sub = body.subrange(p, body.len() as int);
        assert(sub.subrange(2, 4) =~= body.subrange(p + 2, p + 4));
        assert(sub.subrange(0, 2) =~= body.subrange(p, p + 2));
        assert(sub.subrange(4, 4 + tlv_len(sub, 0)) =~= body.subrange(p + 4, p + 4 + tlv_len(body, p)));
    }
//@end
}
impl<'a> RawAttributes<'a> {
//@item stun_rs :: mod raw > impl<'a> IntoFallibleIterator for RawAttributes<'a> > fn into_fallible_iter
//@sub "Self::IntoFallibleIter" => "RawAttributesIter<'a>"
//@spec
    ensures r.buffer == self.0, r.pos == 0,
//@end
}

// ---- RFC 8489 14.5-14.7: the text a MAC / CRC is computed over: the message up to (excluding) the first attribute
// of the given type, with the header length adjusted to point at the end of that attribute
pub open spec fn find_tlv(body: Seq<u8>, pos: int, t: int) -> Option<(int, int)>
    decreases body.len() - pos
{
    if pos < 0 || pos >= body.len() || !tlv_ok(body, pos) { None }
    else if tlv_type(body, pos) == t { Some((pos, tlv_next(body, pos))) }
    else { find_tlv(body, tlv_next(body, pos), t) }
}
pub open spec fn input_text(b: Seq<u8>, t: int) -> Option<Seq<u8>> {
    if header_ok(b) && b.len() >= 20 + be16(b.subrange(2, 4)) {
        match find_tlv(b.subrange(20, 20 + be16(b.subrange(2, 4))), 0, t) {
            Some(se) => Some(set_len(b.subrange(0, 20 + se.0), se.1)),
            None => None,
        }
    } else { None }
}
pub open spec fn opt_usize_none(o: Option<usize>) -> bool { o is None }
pub open spec fn found_is(len: Option<usize>, pos: usize, body: Seq<u8>, t: int) -> bool {
    match len { Some(l) => find_tlv(body, 0, t) == Some((pos as int, l as int)) && l <= body.len(),
                None => find_tlv(body, 0, t) is None }
}
//@item stun_rs :: mod raw > fn get_input_text
//@tags C04 C10 C03
//@closure 1
|| -> (e: StunError)
    ensures true,
//@sub "&mut out[2..4]" => "&mut out.as_mut_slice()[2..4]"
//@tail
    proof {
        assert(out@ =~= set_len(buffer@.subrange(0, index as int), len as int));
    }
//@head
    let ghost t = attr_type as int;
//@stmt "let mut iter ="
    let ghost body = attributes.0@;
//@loop 1
    invariant_except_break
        opt_usize_none(len), pos == iter.pos,
        find_tlv(body, 0, t) == find_tlv(body, iter.pos as int, t),
    invariant
        iter.buffer@ == body, iter.pos <= body.len(), pos <= iter.pos,
        body.len() <= 65535, t == attr_type as int,
        header_ok(buffer@), buffer@.len() >= 20 + be16(buffer@.subrange(2, 4)),
        body == buffer@.subrange(20, 20 + be16(buffer@.subrange(2, 4))),
    ensures
        iter.buffer@ == body, body.len() <= 65535, pos <= body.len(),
        found_is(len, pos, body, t),
    decreases body.len() - iter.pos,
//@spec
    ensures r is Ok <==> input_text(buffer@, attr_type as int) is Some,
        r is Ok ==> r->Ok_0@ == input_text(buffer@, attr_type as int)->Some_0,
//@end


// ---------------------------------------------------------------- context.rs: the message decoder
//@include inc/admission.rs
impl vstd::std_specs::convert::FromSpecImpl<&[u8; TRANSACTION_ID_SIZE]> for TransactionId {
    open spec fn obeys_from_spec() -> bool { true }
    open spec fn from_spec(v: &[u8; TRANSACTION_ID_SIZE]) -> Self { TransactionId(*v) }
}
impl From<&[u8; TRANSACTION_ID_SIZE]> for TransactionId {
//@item stun_rs :: mod types > impl From<&[u8; TRANSACTION_ID_SIZE]> for TransactionId > fn from
//@spec
    ensures r.0@ == buff@,
//@end
}
//@item! stun_rs :: mod attributes > struct AttributeType
impl Clone for AttributeType { fn clone(&self) -> (r: Self) ensures r == *self { *self } }
impl Copy for AttributeType {}
impl vstd::std_specs::convert::FromSpecImpl<u16> for AttributeType {
    open spec fn obeys_from_spec() -> bool { true }
    open spec fn from_spec(v: u16) -> Self { AttributeType(v) }
}
impl From<u16> for AttributeType {
    #[verifier::external_body]
    fn from(val: u16) -> (r: Self) { unimplemented!() }
}
impl vstd::std_specs::cmp::PartialEqSpecImpl for AttributeType {
    open spec fn obeys_eq_spec() -> bool { true }
    open spec fn eq_spec(&self, other: &AttributeType) -> bool { self.0 == other.0 }
}
impl PartialEq for AttributeType {
    #[verifier::external_body]
    fn eq(&self, other: &AttributeType) -> (r: bool) { unimplemented!() }
}
impl AttributeType {
//@item stun_rs :: mod attributes > impl AttributeType > fn as_u16
//@spec
    ensures r == self.0,
//@end
}
//@include prelude/err_levels.rs
#[verifier::external_body]
pub struct HMACKey { _p: () }
impl Clone for HMACKey { #[verifier::external_body] fn clone(&self) -> (r: Self) ensures r == *self { unimplemented!() } }
//@item! stun_rs :: mod context > struct DecoderContext
impl Clone for DecoderContext {
//@item stun_rs :: mod context > impl ::core::clone::Clone for DecoderContext > fn clone
//@spec
    ensures r == *self,
//@end
}
impl DecoderContext {
//@item stun_rs :: mod context > impl DecoderContext > fn validate
//@spec
    ensures r == self.validation,
//@end
//@item stun_rs :: mod context > impl DecoderContext > fn with_unknown_data
//@spec
    ensures r == self.unknown_data,
//@end
}
//@item! stun_rs :: mod context > struct AttributeDecoderContext
impl<'a> AttributeDecoderContext<'a> {
//@item stun_rs :: mod context > impl<'a> AttributeDecoderContext<'a> > fn new
//@spec
    ensures r.ctx == ctx, r.decoded_msg == decoded_msg, r.raw_value == raw_value,
//@end
}
// ---- the attribute, abstract in this unit (per-kind decoders: unit attrs)
#[verifier::external_body]
pub struct StunAttribute { _p: () }
pub uninterp spec fn registered(t: u16) -> bool;
// what the registered decoder of type t makes of a value, given the message bytes before it (XOR attributes read the
// transaction id from there); None if it rejects the value
pub uninterp spec fn dec_attr(t: u16, value: Seq<u8>, prefix: Seq<u8>) -> Option<StunAttribute>;
pub uninterp spec fn unknown_attr(t: u16, data: Option<Seq<u8>>) -> StunAttribute;
pub uninterp spec fn attr_verifies(a: StunAttribute, input: Seq<u8>, ctx: DecoderContext) -> bool;
impl StunAttribute {
    pub uninterp spec fn spec_type(&self) -> u16;
    pub uninterp spec fn verifiable(&self) -> bool;
    #[verifier::external_body]
    pub fn attribute_type(&self) -> (r: AttributeType) ensures r.0 == self.spec_type() { unimplemented!() }
    #[verifier::external_body]
    pub fn as_verifiable_ref(&self) -> (r: Option<VerifiableRef<'_>>)
        ensures r is Some <==> self.verifiable(), r is Some ==> *r->Some_0.a == *self,
    { unimplemented!() }
}
// `&dyn Verifiable` (trait objects are outside the verifier's dialect): a reference to the attribute itself
pub struct VerifiableRef<'a> { pub a: &'a StunAttribute }
impl<'a> VerifiableRef<'a> {
    #[verifier::external_body]
    pub fn verify(&self, input: &[u8], ctx: &DecoderContext) -> (r: bool)
        ensures r == attr_verifies(*self.a, input@, *ctx),
    { unimplemented!() }
}
// (R12) `type DecoderHandler = fn(AttributeDecoderContext) -> Result<(StunAttribute, usize), StunError>`: function-pointer
// types are outside the dialect; the registry entry is an opaque value with a `call` method
#[verifier::external_body]
pub struct DecoderHandler { _p: () }
impl DecoderHandler {
    pub uninterp spec fn ty(&self) -> u16;
    #[verifier::external_body]
    pub fn call(&self, ctx: AttributeDecoderContext) -> (r: Result<(StunAttribute, usize), StunError>)
        ensures r is Ok <==> dec_attr(self.ty(), ctx.raw_value@, ctx.decoded_msg@) is Some,
            r is Ok ==> r->Ok_0.0 == dec_attr(self.ty(), ctx.raw_value@, ctx.decoded_msg@)->Some_0,
    { unimplemented!() }
}
#[verifier::external_body]
pub fn get_handler(t: AttributeType) -> (r: Option<&'static DecoderHandler>)
    ensures r is Some <==> registered(t.0), r is Some ==> r->Some_0.ty() == t.0,
{ unimplemented!() }
#[verifier::external_body]
pub struct Unknown { _p: () }
impl Unknown {
    pub uninterp spec fn uty(&self) -> u16;
    pub uninterp spec fn udata(&self) -> Option<Seq<u8>>;
    #[verifier::external_body]
    pub fn new(attr_type: AttributeType, data: Option<&[u8]>) -> (r: Unknown)
        ensures r.uty() == attr_type.0, r.udata() == (match data { Some(d) => Some(d@), None => None::<Seq<u8>> }),
    { unimplemented!() }
}
impl vstd::std_specs::convert::FromSpecImpl<Unknown> for StunAttribute {
    open spec fn obeys_from_spec() -> bool { true }
    open spec fn from_spec(v: Unknown) -> Self { unknown_attr(v.uty(), v.udata()) }
}
impl From<Unknown> for StunAttribute {
    #[verifier::external_body]
    fn from(v: Unknown) -> (r: Self) { unimplemented!() }
}

//@item stun_rs :: mod context > fn validate_attribute
//@tags C09 C18 C04 C10
//@sub "&input" => "input.as_slice()"
//@closure 1
|| -> (e: StunError)
    ensures true,
//@spec
    ensures r is Ok <==> !needs_validation(*ctx, *attr) || attr_valid(*attr, buffer@, ctx->Some_0),
//@end
pub open spec fn needs_validation(ctx: Option<DecoderContext>, a: StunAttribute) -> bool {
    ctx is Some && ctx->Some_0.validation && a.verifiable()
}
pub open spec fn attr_valid(a: StunAttribute, b: Seq<u8>, ctx: DecoderContext) -> bool {
    input_text(b, a.spec_type() as int) is Some && attr_verifies(a, input_text(b, a.spec_type() as int)->Some_0, ctx)
}
//@item! stun_rs :: mod context > struct AttributeFilter
impl Default for AttributeFilter {
//@item stun_rs :: mod context > impl ::core::default::Default for AttributeFilter > fn default
//@sub "::core::default::Default::default()" => "false" all
//@spec
    ensures !r.message_integrity && !r.message_integrity_sha256 && !r.fingerprint,
//@end
}
pub struct MessageIntegrity;
pub struct MessageIntegritySha256;
pub struct Fingerprint;
impl MessageIntegrity { #[verifier::external_body] pub fn get_type() -> (r: AttributeType) ensures r.0 == 0x0008 { unimplemented!() } }
impl MessageIntegritySha256 { #[verifier::external_body] pub fn get_type() -> (r: AttributeType) ensures r.0 == 0x001C { unimplemented!() } }
impl Fingerprint { #[verifier::external_body] pub fn get_type() -> (r: AttributeType) ensures r.0 == 0x8028 { unimplemented!() } }
pub open spec fn filter_flags(f: AttributeFilter) -> AdmFlags {
    AdmFlags { mi: f.message_integrity, sha: f.message_integrity_sha256, fp: f.fingerprint }
}
//@item stun_rs :: mod context > fn ignore_attribute
//@tags C09 C18 C10
//@spec
    ensures r == !adm_step(filter_flags(*old(f)), attr_type.0).0,
        filter_flags(*final(f)) == adm_step(filter_flags(*old(f)), attr_type.0).1,
//@end
proof fn vx_sentinel() ensures false {}
} // verus!
fn main() {}
