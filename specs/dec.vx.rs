#![feature(allocator_api)]
#![allow(unused, non_snake_case, non_camel_case_types, dead_code)]
use vstd::prelude::*;
verus! {
//@include prelude/core.rs
//@include inc/codec_common.rs
//@include inc/raw_header.rs

// ---------------------------------------------------------------- raw.rs: TLV walk over the attribute bytes
// attribute header at pos: type(16) length(16); the value is padded to a multiple of 4 (RFC 8489 section 14)
pub open spec fn tlv_len(body: Seq<u8>, pos: int) -> int { be16(body.subrange(pos + 2, pos + 4)) }
pub open spec fn tlv_type(body: Seq<u8>, pos: int) -> int { be16(body.subrange(pos, pos + 2)) }
pub open spec fn tlv_next(body: Seq<u8>, pos: int) -> int { pos + 4 + tlv_len(body, pos) + pad4(tlv_len(body, pos)) }
// a complete, padded TLV starts at pos
pub open spec fn tlv_ok(body: Seq<u8>, pos: int) -> bool {
    0 <= pos && pos + 4 <= body.len() && tlv_next(body, pos) <= body.len()
}
//@item! stun_rs :: mod raw > struct RawAttribute
//@item! stun_rs :: mod raw > struct RawAttributes
//@item! stun_rs :: mod raw > struct RawAttributesIter
//@item! stun_rs :: mod raw > struct RawMessage
impl<'a> Decode<'a> for RawMessage<'a> {
//@item stun_rs :: mod raw > impl<'a> Decode<'a> for RawMessage<'a> > fn decode
//@tags C03 C01 C18 C09
//@spec
    ensures r is Ok <==> header_ok(buffer@) && buffer@.len() >= 20 + be16(buffer@.subrange(2, 4)),
        r is Ok ==> {
            let n = 20 + be16(buffer@.subrange(2, 4));
            &&& r->Ok_0.1 == n
            &&& r->Ok_0.0.attributes@ == buffer@.subrange(20, n)
            &&& r->Ok_0.0.header.msg_type as int == be16(buffer@) % 16384
            &&& r->Ok_0.0.header.transaction_id@ == buffer@.subrange(8, 20)
        },
//@end
}
impl<'a> Decode<'a> for RawAttribute<'a> {
//@item stun_rs :: mod raw > impl<'a> Decode<'a> for RawAttribute<'a> > fn decode
//@tags C03 C01
//@spec
    ensures r is Ok <==> buffer@.len() >= 4 && buffer@.len() >= 4 + tlv_len(buffer@, 0),
        r is Ok ==> r->Ok_0.1 == 4 + tlv_len(buffer@, 0)
            && r->Ok_0.0.attr_type as int == tlv_type(buffer@, 0)
            && r->Ok_0.0.value@ == buffer@.subrange(4, 4 + tlv_len(buffer@, 0)),
//@end
}
impl<'a> vstd::std_specs::convert::FromSpecImpl<&'a [u8]> for RawAttributes<'a> {
    open spec fn obeys_from_spec() -> bool { true }
    open spec fn from_spec(v: &'a [u8]) -> Self { RawAttributes(v) }
}
impl<'a> From<&'a [u8]> for RawAttributes<'a> {
//@item stun_rs :: mod raw > impl<'a> From<&'a [u8]> for RawAttributes<'a> > fn from
//@spec
    ensures r.0 == buff,
//@end
}
impl RawAttributesIter<'_> {
//@item stun_rs :: mod raw > impl RawAttributesIter<'_> > fn pos
//@spec
    ensures r == self.pos,
//@end
}
// (R7) `impl FallibleIterator for RawAttributesIter` / `impl IntoFallibleIterator for RawAttributes`, verified as
// inherent methods (Verus forbids `requires` on trait impls; fallible_iterator's trait is third-party)
impl<'a> RawAttributesIter<'a> {
//@item stun_rs :: mod raw > impl<'a> FallibleIterator for RawAttributesIter<'a> > fn next
//@tags C03 C01 C09 C18
//@sub "Self::Item" => "RawAttribute<'a>"
//@sub "Self::Error" => "StunError"
//@head
    proof { axiom_slice_len_limit(self.buffer); }
//@spec
    requires old(self).pos <= old(self).buffer@.len(),
    ensures final(self).buffer == old(self).buffer,
        old(self).pos == old(self).buffer@.len() ==> r == Ok::<Option<RawAttribute<'a>>, StunError>(None) && final(self).pos == old(self).pos,
        old(self).pos < old(self).buffer@.len() ==> {
            let body = old(self).buffer@;
            let p = old(self).pos as int;
            &&& (r is Ok <==> tlv_ok(body, p))
            // strictly advances (termination of every TLV walk) and never leaves the buffer
            &&& (r is Ok ==> r->Ok_0 is Some && final(self).pos == tlv_next(body, p) && final(self).pos > old(self).pos
                    && final(self).pos <= body.len()
                    && r->Ok_0->Some_0.attr_type as int == tlv_type(body, p)
                    && r->Ok_0->Some_0.value@ == body.subrange(p + 4, p + 4 + tlv_len(body, p)))
        },
//@before "let size = value_size + padding(value_size);"
    proof {
        let body = self.buffer@;
        let p = self.pos as int;
        let sub = body.subrange(p, body.len() as int);
        assert(sub.subrange(2, 4) =~= body.subrange(p + 2, p + 4));
        assert(sub.subrange(0, 2) =~= body.subrange(p, p + 2));
        assert(sub.subrange(4, 4 + tlv_len(sub, 0)) =~= body.subrange(p + 4, p + 4 + tlv_len(body, p)));
    }
//@end
}
impl<'a> RawAttributes<'a> {
//@item stun_rs :: mod raw > impl<'a> IntoFallibleIterator for RawAttributes<'a> > fn into_fallible_iter
//@sub "Self::IntoFallibleIter" => "RawAttributesIter<'a>"
//@spec
    ensures r.buffer == self.0, r.pos == 0,
//@end
}

// ---- RFC 8489 14.5-14.7: the text a MAC / CRC is computed over: the message up to (excluding) the first attribute
// of the given type, with the header length adjusted to point at the end of that attribute
pub open spec fn find_tlv(body: Seq<u8>, pos: int, t: int) -> Option<(int, int)>
    decreases body.len() - pos
{
    if pos < 0 || pos >= body.len() || !tlv_ok(body, pos) { None }
    else if tlv_type(body, pos) == t { Some((pos, tlv_next(body, pos))) }
    else { find_tlv(body, tlv_next(body, pos), t) }
}
pub open spec fn input_text(b: Seq<u8>, t: int) -> Option<Seq<u8>> {
    if header_ok(b) && b.len() >= 20 + be16(b.subrange(2, 4)) {
        match find_tlv(b.subrange(20, 20 + be16(b.subrange(2, 4))), 0, t) {
            Some(se) => Some(set_len(b.subrange(0, 20 + se.0), se.1)),
            None => None,
        }
    } else { None }
}
pub open spec fn opt_usize_none(o: Option<usize>) -> bool { o is None }
pub open spec fn found_is(len: Option<usize>, pos: usize, body: Seq<u8>, t: int) -> bool {
    match len { Some(l) => find_tlv(body, 0, t) == Some((pos as int, l as int)) && l <= body.len(),
                None => find_tlv(body, 0, t) is None }
}
//@item stun_rs :: mod raw > fn get_input_text
//@tags C04 C10 C03
//@closure 1
|| -> (e: StunError)
    ensures true,
//@sub "&mut out[2..4]" => "&mut out.as_mut_slice()[2..4]"
//@tail
    proof {
        assert(out@ =~= set_len(buffer@.subrange(0, index as int), len as int));
    }
//@head
    let ghost t = attr_type as int;
//@stmt "let mut iter ="
    let ghost body = attributes.0@;
//@loop 1
    invariant_except_break
        opt_usize_none(len), pos == iter.pos,
        find_tlv(body, 0, t) == find_tlv(body, iter.pos as int, t),
    invariant
        iter.buffer@ == body, iter.pos <= body.len(), pos <= iter.pos,
        body.len() <= 65535, t == attr_type as int,
        header_ok(buffer@), buffer@.len() >= 20 + be16(buffer@.subrange(2, 4)),
        body == buffer@.subrange(20, 20 + be16(buffer@.subrange(2, 4))),
    ensures
        iter.buffer@ == body, body.len() <= 65535, pos <= body.len(),
        found_is(len, pos, body, t),
    decreases body.len() - iter.pos,
//@spec
    ensures r is Ok <==> input_text(buffer@, attr_type as int) is Some,
        r is Ok ==> r->Ok_0@ == input_text(buffer@, attr_type as int)->Some_0,
//@end

proof fn vx_sentinel() ensures false {}
} // verus!
fn main() {}
