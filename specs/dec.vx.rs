#![feature(allocator_api)]
#![allow(unused, non_snake_case, non_camel_case_types, dead_code)]
use vstd::prelude::*;
verus! {
//@include prelude/core.rs
//@include prelude/std_misc.rs
//@include inc/codec_common.rs
//@include inc/raw_header.rs

// ---------------------------------------------------------------- raw.rs: TLV walk over the attribute bytes
//@item! stun_rs :: mod raw > struct RawAttribute
//@item! stun_rs :: mod raw > struct RawAttributes
//@item! stun_rs :: mod raw > struct RawAttributesIter
//@item! stun_rs :: mod raw > struct RawMessage
impl<'a> Decode<'a> for RawMessage<'a> {
//@item stun_rs :: mod raw > impl<'a> Decode<'a> for RawMessage<'a> > fn decode
//@tags C03 C01 C18 C09
//@spec
    ensures r is Ok <==> header_ok(buffer@) && buffer@.len() >= 20 + be16(buffer@.subrange(2, 4)),
        r is Ok ==> {
            let n = 20 + be16(buffer@.subrange(2, 4));
            &&& r->Ok_0.1 == n
            &&& r->Ok_0.0.attributes@ == buffer@.subrange(20, n)
            &&& r->Ok_0.0.header.msg_type as int == be16(buffer@) % 16384
            &&& r->Ok_0.0.header.transaction_id@ == buffer@.subrange(8, 20)
        },
//@end
}
impl<'a> Decode<'a> for RawAttribute<'a> {
//@item stun_rs :: mod raw > impl<'a> Decode<'a> for RawAttribute<'a> > fn decode
//@tags C03 C01
//@spec
    ensures r is Ok <==> buffer@.len() >= 4 && buffer@.len() >= 4 + tlv_len(buffer@, 0),
        r is Ok ==> r->Ok_0.1 == 4 + tlv_len(buffer@, 0)
            && r->Ok_0.0.attr_type as int == tlv_type(buffer@, 0)
            && r->Ok_0.0.value@ == buffer@.subrange(4, 4 + tlv_len(buffer@, 0)),
//@end
}
impl<'a> vstd::std_specs::convert::FromSpecImpl<&'a [u8]> for RawAttributes<'a> {
    open spec fn obeys_from_spec() -> bool { true }
    open spec fn from_spec(v: &'a [u8]) -> Self { RawAttributes(v) }
}
impl<'a> From<&'a [u8]> for RawAttributes<'a> {
//@item stun_rs :: mod raw > impl<'a> From<&'a [u8]> for RawAttributes<'a> > fn from
//@spec
    ensures r.0 == buff,
//@end
}
impl RawAttributesIter<'_> {
//@item stun_rs :: mod raw > impl RawAttributesIter<'_> > fn pos
//@spec
    ensures r == self.pos,
//@end
}
// (R7) `impl FallibleIterator for RawAttributesIter` / `impl IntoFallibleIterator for RawAttributes`, verified as
// inherent methods (Verus forbids `requires` on trait impls; fallible_iterator's trait is third-party)
impl<'a> RawAttributesIter<'a> {
//@item stun_rs :: mod raw > impl<'a> FallibleIterator for RawAttributesIter<'a> > fn next
//@tags C03 C01 C09 C18
//@sub "Self::Item" => "RawAttribute<'a>"
//@sub "Self::Error" => "StunError"
//@head
    proof { axiom_slice_len_limit(self.buffer); }
//@spec
    requires old(self).pos <= old(self).buffer@.len(),
    ensures final(self).buffer == old(self).buffer,
        old(self).pos == old(self).buffer@.len() ==> r == Ok::<Option<RawAttribute<'a>>, StunError>(None) && final(self).pos == old(self).pos,
        old(self).pos < old(self).buffer@.len() ==> {
            let body = old(self).buffer@;
            let p = old(self).pos as int;
            &&& (r is Ok <==> tlv_ok(body, p))
            // strictly advances (termination of every TLV walk) and never leaves the buffer
            &&& (r is Ok ==> r->Ok_0 is Some && final(self).pos == tlv_next(body, p) && final(self).pos > old(self).pos
                    && final(self).pos <= body.len()
                    && r->Ok_0->Some_0.attr_type as int == tlv_type(body, p)
                    && r->Ok_0->Some_0.value@ == body.subrange(p + 4, p + 4 + tlv_len(body, p)))
        },
//@before "let size = value_size + padding(value_size);"
    proof {
        let body = self.buffer@;
        let p = self.pos as int;
        let sub = body.subrange(p, body.len() as int);
        assert(sub.subrange(2, 4) =~= body.subrange(p + 2, p + 4));
        assert(sub.subrange(0, 2) =~= body.subrange(p, p + 2));
        assert(sub.subrange(4, 4 + tlv_len(sub, 0)) =~= body.subrange(p + 4, p + 4 + tlv_len(body, p)));
    }
//@end
}
impl<'a> RawAttributes<'a> {
//@item stun_rs :: mod raw > impl<'a> IntoFallibleIterator for RawAttributes<'a> > fn into_fallible_iter
//@sub "Self::IntoFallibleIter" => "RawAttributesIter<'a>"
//@spec
    ensures r.buffer == self.0, r.pos == 0,
//@end
}

pub open spec fn opt_usize_none(o: Option<usize>) -> bool { o is None }
pub open spec fn found_is(len: Option<usize>, pos: usize, body: Seq<u8>, t: int) -> bool {
    match len { Some(l) => find_tlv(body, 0, t) == Some((pos as int, l as int)) && l <= body.len(),
                None => find_tlv(body, 0, t) is None }
}
//@item stun_rs :: mod raw > fn get_input_text
//@tags C04 C10 C03
//@closure 1
|| -> (e: StunError)
    ensures true,
//@sub "&mut out[2..4]" => "&mut out.as_mut_slice()[2..4]"
//@tail
    proof {
        assert(out@ =~= set_len(buffer@.subrange(0, index as int), len as int));
    }
//@head
    let ghost t = attr_type as int;
//@stmt "let mut iter ="
    let ghost body = attributes.0@;
//@loop 1
    invariant_except_break
        opt_usize_none(len), pos == iter.pos,
        find_tlv(body, 0, t) == find_tlv(body, iter.pos as int, t),
    invariant
        iter.buffer@ == body, iter.pos <= body.len(), pos <= iter.pos,
        body.len() <= 65535, t == attr_type as int,
        header_ok(buffer@), buffer@.len() >= 20 + be16(buffer@.subrange(2, 4)),
        body == buffer@.subrange(20, 20 + be16(buffer@.subrange(2, 4))),
    ensures
        iter.buffer@ == body, body.len() <= 65535, pos <= body.len(),
        found_is(len, pos, body, t),
    decreases body.len() - iter.pos,
//@spec
    ensures r is Ok <==> input_text(buffer@, attr_type as int) is Some,
        r is Ok ==> r->Ok_0@ == input_text(buffer@, attr_type as int)->Some_0,
//@end


// ---------------------------------------------------------------- context.rs: the message decoder
//@include inc/admission.rs
impl vstd::std_specs::convert::FromSpecImpl<&[u8; TRANSACTION_ID_SIZE]> for TransactionId {
    open spec fn obeys_from_spec() -> bool { true }
    open spec fn from_spec(v: &[u8; TRANSACTION_ID_SIZE]) -> Self { TransactionId(*v) }
}
impl From<&[u8; TRANSACTION_ID_SIZE]> for TransactionId {
//@item stun_rs :: mod types > impl From<&[u8; TRANSACTION_ID_SIZE]> for TransactionId > fn from
//@spec
    ensures r.0@ == buff@,
//@end
}
//@item! stun_rs :: mod attributes > struct AttributeType
impl Clone for AttributeType { fn clone(&self) -> (r: Self) ensures r == *self { *self } }
impl Copy for AttributeType {}
impl vstd::std_specs::convert::FromSpecImpl<u16> for AttributeType {
    open spec fn obeys_from_spec() -> bool { true }
    open spec fn from_spec(v: u16) -> Self { AttributeType(v) }
}
impl From<u16> for AttributeType {
    #[verifier::external_body]
    fn from(val: u16) -> (r: Self) { unimplemented!() }
}
impl vstd::std_specs::cmp::PartialEqSpecImpl for AttributeType {
    open spec fn obeys_eq_spec() -> bool { true }
    open spec fn eq_spec(&self, other: &AttributeType) -> bool { self.0 == other.0 }
}
impl PartialEq for AttributeType {
    #[verifier::external_body]
    fn eq(&self, other: &AttributeType) -> (r: bool) { unimplemented!() }
}
impl AttributeType {
//@item stun_rs :: mod attributes > impl AttributeType > fn as_u16
//@spec
    ensures r == self.0,
//@end
}
//@include prelude/err_levels.rs
#[verifier::external_body]
pub struct HMACKey { _p: () }
impl Clone for HMACKey { #[verifier::external_body] fn clone(&self) -> (r: Self) ensures r == *self { unimplemented!() } }
//@item! stun_rs :: mod context > struct DecoderContext
impl Clone for DecoderContext {
//@item stun_rs :: mod context > impl ::core::clone::Clone for DecoderContext > fn clone
//@spec
    ensures r == *self,
//@end
}
impl DecoderContext {
//@item stun_rs :: mod context > impl DecoderContext > fn validate
//@spec
    ensures r == self.validation,
//@end
//@item stun_rs :: mod context > impl DecoderContext > fn with_unknown_data
//@spec
    ensures r == self.unknown_data,
//@end
//@item stun_rs :: mod context > impl DecoderContext > fn key
//@spec
    ensures r is Some <==> self.key is Some, r is Some ==> *r->Some_0 == self.key->Some_0,
//@end
}
//@item! stun_rs :: mod context > struct AttributeDecoderContext
impl<'a> AttributeDecoderContext<'a> {
//@item stun_rs :: mod context > impl<'a> AttributeDecoderContext<'a> > fn new
//@spec
    ensures r.ctx == ctx, r.decoded_msg == decoded_msg, r.raw_value == raw_value,
//@end
}
// ---- the attribute, abstract in this unit (per-kind decoders: unit attrs)
#[verifier::external_body]
pub struct StunAttribute { _p: () }
impl StunAttribute {
    pub uninterp spec fn spec_type(&self) -> u16;
    pub uninterp spec fn verifiable(&self) -> bool;
    #[verifier::external_body]
    pub fn attribute_type(&self) -> (r: AttributeType) ensures r.0 == self.spec_type() { unimplemented!() }
    #[verifier::external_body]
    pub fn as_verifiable_ref(&self) -> (r: Option<VerifiableRef<'_>>)
        ensures r is Some <==> self.verifiable(), r is Some ==> *r->Some_0.a == *self,
    { unimplemented!() }
}
// `&dyn Verifiable` (trait objects are outside the verifier's dialect): a reference to the attribute itself
pub struct VerifiableRef<'a> { pub a: &'a StunAttribute }
impl<'a> VerifiableRef<'a> {
    #[verifier::external_body]
    pub fn verify(&self, input: &[u8], ctx: &DecoderContext) -> (r: bool)
        ensures r == attr_verifies(*self.a, input@, *ctx),
    { unimplemented!() }
}
// (R12) `type DecoderHandler = fn(AttributeDecoderContext) -> Result<(StunAttribute, usize), StunError>`: function-pointer
// types are outside the dialect; the registry entry is an opaque value with a `call` method
#[verifier::external_body]
pub struct DecoderHandler { _p: () }
impl DecoderHandler {
    pub uninterp spec fn ty(&self) -> u16;
    #[verifier::external_body]
    pub fn call(&self, ctx: AttributeDecoderContext) -> (r: Result<(StunAttribute, usize), StunError>)
        // the precondition the attribute-kind decoders are verified under in unit `attrs` (an attribute length is 16 bits)
        requires ctx.raw_value@.len() <= 0xFFFF,
        ensures r is Ok <==> dec_attr(self.ty(), ctx.raw_value@, ctx.decoded_msg@) is Some,
            r is Ok ==> r->Ok_0.0 == dec_attr(self.ty(), ctx.raw_value@, ctx.decoded_msg@)->Some_0,
    { unimplemented!() }
}
#[verifier::external_body]
pub fn get_handler(t: AttributeType) -> (r: Option<&'static DecoderHandler>)
    ensures r is Some <==> registered(t.0), r is Some ==> r->Some_0.ty() == t.0,
{ unimplemented!() }
#[verifier::external_body]
pub struct Unknown { _p: () }
impl Unknown {
    pub uninterp spec fn uty(&self) -> u16;
    pub uninterp spec fn udata(&self) -> Option<Seq<u8>>;
    #[verifier::external_body]
    pub fn new(attr_type: AttributeType, data: Option<&[u8]>) -> (r: Unknown)
        ensures r.uty() == attr_type.0, r.udata() == (match data { Some(d) => Some(d@), None => None::<Seq<u8>> }),
    { unimplemented!() }
}
impl vstd::std_specs::convert::FromSpecImpl<Unknown> for StunAttribute {
    open spec fn obeys_from_spec() -> bool { true }
    open spec fn from_spec(v: Unknown) -> Self { unknown_attr(v.uty(), v.udata()) }
}
impl From<Unknown> for StunAttribute {
    #[verifier::external_body]
    fn from(v: Unknown) -> (r: Self) { unimplemented!() }
}

//@item stun_rs :: mod context > fn validate_attribute
//@tags C09 C18 C04 C10
//@sub "&input" => "input.as_slice()"
//@closure 1
|| -> (e: StunError)
    ensures true,
//@spec
    ensures r is Ok <==> !needs_validation(*ctx, *attr) || attr_valid(*attr, buffer@, ctx->Some_0),
//@end
//@item! stun_rs :: mod context > struct AttributeFilter
impl Default for AttributeFilter {
//@item stun_rs :: mod context > impl ::core::default::Default for AttributeFilter > fn default
//@sub "::core::default::Default::default()" => "false" all
//@spec
    ensures !r.message_integrity && !r.message_integrity_sha256 && !r.fingerprint,
//@end
}
pub struct MessageIntegrity;
pub struct MessageIntegritySha256;
pub struct Fingerprint;
impl MessageIntegrity { #[verifier::external_body] pub fn get_type() -> (r: AttributeType) ensures r.0 == 0x0008 { unimplemented!() } }
impl MessageIntegritySha256 { #[verifier::external_body] pub fn get_type() -> (r: AttributeType) ensures r.0 == 0x001C { unimplemented!() } }
impl Fingerprint { #[verifier::external_body] pub fn get_type() -> (r: AttributeType) ensures r.0 == 0x8028 { unimplemented!() } }
pub open spec fn filter_flags(f: AttributeFilter) -> AdmFlags {
    AdmFlags { mi: f.message_integrity, sha: f.message_integrity_sha256, fp: f.fingerprint }
}
//@item stun_rs :: mod context > fn ignore_attribute
//@tags C09 C18 C10
//@spec
    ensures r == !adm_step(filter_flags(*old(f)), attr_type.0).0,
        filter_flags(*final(f)) == adm_step(filter_flags(*old(f)), attr_type.0).1,
//@end

// ---- message builder (real code of message.rs; contracts as in unit attrset)
//@item! stun_rs :: mod message > struct StunMessageParameters
//@item! stun_rs :: mod message > struct StunMessageBuilder
//@item! stun_rs :: mod message > struct StunMessage
impl Default for TransactionId {
    #[verifier::external_body]
    fn default() -> Self { unimplemented!() }
}
impl StunMessageBuilder {
//@item stun_rs :: mod message > impl StunMessageBuilder > fn new
//@spec
    ensures r.0.method == method, r.0.class == class, r.0.transaction_id is None, r.0.attributes@.len() == 0,
//@end
//@item stun_rs :: mod message > impl StunMessageBuilder > fn with_transaction_id
//@rules R5
//@spec
    ensures r.0.method == self.0.method, r.0.class == self.0.class, r.0.transaction_id == Some(transaction_id),
        r.0.attributes@ == self.0.attributes@,
//@end
//@item stun_rs :: mod message > impl StunMessageBuilder > fn with_attribute
//@rules R5
//@sig
pub fn with_attribute(self, attribute: StunAttribute) -> (r: Self)
//@sub "attribute.into()" => "attribute"
//@spec
    ensures r.0.method == self.0.method, r.0.class == self.0.class, r.0.transaction_id == self.0.transaction_id,
        r.0.attributes@ == self.0.attributes@.push(attribute),
//@end
//@item stun_rs :: mod message > impl StunMessageBuilder > fn build
//@spec
    ensures r.method == self.0.method, r.class == self.0.class, r.attributes@ == self.0.attributes@,
        self.0.transaction_id is Some ==> r.transaction_id == self.0.transaction_id->Some_0,
//@end
}

//@include inc/dec_vocab.rs
//@item! stun_rs :: mod context > struct MessageDecoder
impl MessageDecoder {
//@item stun_rs :: mod context > impl MessageDecoder > fn decode
//@tags C03 C09 C18 C01
//@sub "handler(ctx)" => "handler.call(ctx)"
//@closure 1
|error: StunError| -> (e: StunDecodeError)
    ensures true,
//@stmt "let mut iter ="
    proof { lemma_bitops_commute(); }
    let ghost b = buffer@;
    let ghost body = attributes.0@;
    let ghost mut sts: Seq<int> = Seq::empty();
    let ghost mut cur: int = 0;
    proof {
        let v = raw_msg.header.msg_type;
        assert(v < 16384u16 ==> (v & 0x3FFFu16) == v) by (bit_vector);
    }
//@stmt "while let"
    proof {
        assert(body == b.subrange(20, 20 + be16(b.subrange(2, 4))));
        assert(flags_at(types_at(body, sts), 0) == (AdmFlags { mi: false, sha: false, fp: false }));
        lemma_walk_join(body, sts, 0);
    }
//@loop 1
    invariant
        b == buffer@, header_ok(b), b.len() >= 20 + be16(b.subrange(2, 4)), size == 20 + be16(b.subrange(2, 4)),
        body == b.subrange(20, 20 + be16(b.subrange(2, 4))),
        iter.buffer@ == body, iter.pos <= body.len(), index == 20 + iter.pos, position == sts.len(), position <= iter.pos,
        cur == iter.pos,
        walk_prefix(body, sts, cur),
        walk(body, 0) == (match walk(body, cur) { Some(r) => Some(sts + r), None => None::<Seq<int>> }),
        filter_flags(filter) == flags_at(types_at(body, sts), sts.len() as int),
//@?ignore         ignore == !opt_not_ignore(self.ctx),
        dec_upto(b, sts, sts.len() as int, self.ctx) == Some(builder.0.attributes@),
        builder.0.method.0 == rfc_method_of((be16(b) % 16384) as u16), spec_class_bits(builder.0.class) == rfc_class_of((be16(b) % 16384) as u16),
        builder.0.transaction_id is Some && builder.0.transaction_id->Some_0.0@ == b.subrange(8, 20),
    ensures
        iter.pos == body.len(),
    decreases body.len() - iter.pos,
//@loopstart 1
    let ghost p = cur;
    let ghost k = sts.len() as int;
    let ghost s1 = sts.push(p);
    let ghost acc0 = builder.0.attributes@;
    proof {
        assert(tlv_ok(body, p) && iter.pos == tlv_next(body, p));
        lemma_dec_upto_prefix(b, sts, p, k, self.ctx);
        assert(s1[k] == p);
        assert(types_at(body, s1) =~= types_at(body, sts).push(tlv_type(body, p) as u16));
        lemma_flags_prefix(types_at(body, sts), tlv_type(body, p) as u16, k);
        lemma_flags_admit(types_at(body, s1), k);
        if dec_upto(b, s1, k + 1, self.ctx) is None { lemma_step_fail(b, sts, p, self.ctx); }
        assert(buffer@.subrange(0, index as int) == b.subrange(0, 20 + p));
        assert(raw_attr.value@ == body.subrange(p + 4, p + 4 + tlv_len(body, p)));
        assert(raw_attr.attr_type == tlv_type(body, p) as u16);
    }
//@loopend 1
    proof {
        assert(walk_prefix(body, s1, iter.pos as int)) by {
            assert forall|i: int| 0 <= i < s1.len() - 1 implies #[trigger] s1[i + 1] == tlv_next(body, s1[i]) by {
                if i + 1 < sts.len() { assert(sts[i + 1] == tlv_next(body, sts[i])); }
            }
        }
        lemma_walk_join(body, s1, iter.pos as int);
        sts = s1;
        cur = iter.pos as int;
    }
//@tail
    proof {
        assert(walk(body, cur) == Some(Seq::<int>::empty()));
        assert(sts + Seq::<int>::empty() =~= sts);
        assert(walk(body, 0) == Some(sts));
    }
//@spec
    ensures
        // C03/C18: success, the consumed size and the message are functions of the first 20 + length bytes and the options
        r is Ok <==> decoded(buffer@, self.ctx) is Some,
        r is Ok ==> {
            let n = 20 + be16(buffer@.subrange(2, 4));
            &&& r->Ok_0.1 == n && n <= buffer@.len() && header_ok(buffer@)
            &&& r->Ok_0.0.attributes@ == decoded(buffer@, self.ctx)->Some_0
            &&& r->Ok_0.0.method.0 == rfc_method_of((be16(buffer@) % 16384) as u16)
            &&& spec_class_bits(r->Ok_0.0.class) == rfc_class_of((be16(buffer@) % 16384) as u16)
            &&& r->Ok_0.0.transaction_id.0@ == buffer@.subrange(8, 20)
        },
//@end
}

// ---------------------------------------------------------------- C18: options only filter or decorate
pub open spec fn with_validation(c: DecoderContext, v: bool) -> DecoderContext { DecoderContext { validation: v, ..c } }
// if decoding with validation succeeds, decoding without it succeeds with the same message
// props: C18
pub proof fn lemma_c18_validation_upto(b: Seq<u8>, sts: Seq<int>, k: int, c: DecoderContext)
    requires dec_upto(b, sts, k, Some(with_validation(c, true))) is Some,
    ensures dec_upto(b, sts, k, Some(with_validation(c, false))) == dec_upto(b, sts, k, Some(with_validation(c, true))),
    decreases k,
{
    if k > 0 { lemma_c18_validation_upto(b, sts, k - 1, c); }
}
// props: C18
pub proof fn lemma_c18_validation(b: Seq<u8>, c: DecoderContext)
    requires decoded(b, Some(with_validation(c, true))) is Some,
    ensures decoded(b, Some(with_validation(c, false))) == decoded(b, Some(with_validation(c, true))),
{
    let sts = walk(b.subrange(20, 20 + be16(b.subrange(2, 4))), 0)->Some_0;
    lemma_c18_validation_upto(b, sts, sts.len() as int, c);
}
// a decoder built without a context behaves like one built with the default context
// props: C18
pub proof fn lemma_c18_default_ctx(b: Seq<u8>, sts: Seq<int>, k: int, key: Option<HMACKey>)
    ensures dec_upto(b, sts, k, None) == dec_upto(b, sts, k, Some(DecoderContext { key: None, validation: false, unknown_data: false, not_ignore: false })),
    decreases k,
{
    if k > 0 { lemma_c18_default_ctx(b, sts, k - 1, key); }
}
// with the ordering rule disabled every wire attribute is returned, in order; the default result is the subsequence
// of the admitted ones
pub open spec fn pick(all: Seq<StunAttribute>, ts: Seq<u16>, k: int) -> Seq<StunAttribute>
    decreases k
{
    if k <= 0 { Seq::<StunAttribute>::empty() }
    else if admitted(ts, k - 1) { pick(all, ts, k - 1).push(all[k - 1]) } else { pick(all, ts, k - 1) }
}
// props: C18 C09
pub proof fn lemma_c18_not_ignore(b: Seq<u8>, sts: Seq<int>, k: int, c: DecoderContext)
    requires 0 <= k <= sts.len(), !c.validation,
        dec_upto(b, sts, k, Some(DecoderContext { not_ignore: true, ..c })) is Some,
    ensures ({
        let all = dec_upto(b, sts, k, Some(DecoderContext { not_ignore: true, ..c }))->Some_0;
        let body = b.subrange(20, 20 + be16(b.subrange(2, 4)));
        &&& all.len() == k
        &&& (forall|i: int| 0 <= i < k ==> Some(#[trigger] all[i]) == attr_at(b, sts[i], c.unknown_data))
        &&& dec_upto(b, sts, k, Some(DecoderContext { not_ignore: false, ..c })) == Some(pick(all, types_at(body, sts), k))
    }),
    decreases k,
{
    if k > 0 {
        let cn = Some(DecoderContext { not_ignore: true, ..c });
        let cd = Some(DecoderContext { not_ignore: false, ..c });
        lemma_c18_not_ignore(b, sts, k - 1, c);
        let body = b.subrange(20, 20 + be16(b.subrange(2, 4)));
        let all0 = dec_upto(b, sts, k - 1, cn)->Some_0;
        let all = dec_upto(b, sts, k, cn)->Some_0;
        assert(all == all0.push(attr_at(b, sts[k - 1], c.unknown_data)->Some_0));
        lemma_pick_push(all0, attr_at(b, sts[k - 1], c.unknown_data)->Some_0, types_at(body, sts), k - 1);
    }
}
proof fn lemma_pick_push(all: Seq<StunAttribute>, x: StunAttribute, ts: Seq<u16>, k: int)
    requires 0 <= k <= all.len(),
    ensures pick(all.push(x), ts, k) == pick(all, ts, k),
    decreases k,
{
    if k > 0 { lemma_pick_push(all, x, ts, k - 1); assert(all.push(x)[k - 1] == all[k - 1]); }
}
// keeping unknown-attribute data changes nothing but the payload of Unknown attributes
pub open spec fn same_but_unknown_data(a: StunAttribute, a_ud: StunAttribute, t: u16, v: Seq<u8>) -> bool {
    if registered(t) { a == a_ud } else { a == unknown_attr(t, None) && a_ud == unknown_attr(t, Some(v)) }
}
// props: C18
pub proof fn lemma_c18_unknown_data(b: Seq<u8>, st: int)
    ensures ({
        let body = b.subrange(20, 20 + be16(b.subrange(2, 4)));
        let t = tlv_type(body, st) as u16;
        let v = body.subrange(st + 4, st + 4 + tlv_len(body, st));
        &&& (attr_at(b, st, false) is Some <==> attr_at(b, st, true) is Some)
        &&& (attr_at(b, st, false) is Some ==> same_but_unknown_data(attr_at(b, st, false)->Some_0, attr_at(b, st, true)->Some_0, t, v))
    }),
{
}

// ---------------------------------------------------------------- C09: nothing after FINGERPRINT (or inadmissible after integrity) matters
// props: C09
pub proof fn lemma_c09_after_fingerprint(ts: Seq<u16>, i: int, j: int)
    requires 0 <= i < j < ts.len(), kind_of(ts[i]) == 3,
    ensures !admitted(ts, j),
{
    assert(seen(ts, j, 3));
}
// attributes that are not admitted and that their handlers accept (well-formed) do not change the decoded message,
// with or without validation
// props: C09
pub proof fn lemma_c09_inadmissible_suffix(b: Seq<u8>, sts: Seq<int>, k0: int, k: int, c: Option<DecoderContext>)
    requires 0 <= k0 <= k <= sts.len(), !opt_not_ignore(c),
        forall|i: int| k0 <= i < k ==> !admitted(types_at(b.subrange(20, 20 + be16(b.subrange(2, 4))), sts), i)
            && attr_at(b, #[trigger] sts[i], opt_unknown_data(c)) is Some,
    ensures dec_upto(b, sts, k, c) == dec_upto(b, sts, k0, c),
    decreases k - k0,
{
    if k0 < k {
        lemma_c09_inadmissible_suffix(b, sts, k0, k - 1, c);
        assert(attr_at(b, sts[k - 1], opt_unknown_data(c)) is Some);
    }
}

// ---------------------------------------------------------------- C03: the result depends only on the first 20 + length bytes
// props: C03
pub proof fn lemma_c03_prefix_only(b1: Seq<u8>, b2: Seq<u8>, c: Option<DecoderContext>)
    requires b1.len() >= 20, b2.len() >= 20,
        b1.len() >= 20 + be16(b1.subrange(2, 4)), b2.len() >= 20 + be16(b1.subrange(2, 4)),
        b1.subrange(0, 20 + be16(b1.subrange(2, 4))) == b2.subrange(0, 20 + be16(b1.subrange(2, 4))),
        !opt_validation(c),
    ensures decoded(b1, c) == decoded(b2, c),
{
    let n = 20 + be16(b1.subrange(2, 4));
    let p1 = b1.subrange(0, n);
    let p2 = b2.subrange(0, n);
    assert forall|i: int| 0 <= i < n implies b1[i] == b2[i] by { assert(p1[i] == p2[i]); }
    assert(b1.subrange(2, 4) =~= b2.subrange(2, 4));
    assert(header_ok(b1) == header_ok(b2));
    let body1 = b1.subrange(20, n);
    let body2 = b2.subrange(20, n);
    assert(body1 =~= body2);
    if header_ok(b1) && walk(body1, 0) is Some {
        let sts = walk(body1, 0)->Some_0;
        lemma_walk_bounds(body1, 0);
        lemma_c03_upto(b1, b2, sts, sts.len() as int, c);
    }
}
proof fn lemma_walk_bounds(body: Seq<u8>, pos: int)
    requires walk(body, pos) is Some,
    ensures forall|i: int| 0 <= i < walk(body, pos)->Some_0.len() ==> tlv_ok(body, #[trigger] walk(body, pos)->Some_0[i]),
    decreases body.len() - pos,
{
    if pos < body.len() {
        lemma_walk_bounds(body, tlv_next(body, pos));
        let r = walk(body, tlv_next(body, pos))->Some_0;
        let w = walk(body, pos)->Some_0;
        assert(w == seq![pos] + r);
        assert forall|i: int| 0 <= i < w.len() implies tlv_ok(body, #[trigger] w[i]) by {
            if i > 0 { assert(w[i] == r[i - 1]); }
        }
    }
}
proof fn lemma_c03_upto(b1: Seq<u8>, b2: Seq<u8>, sts: Seq<int>, k: int, c: Option<DecoderContext>)
    requires 0 <= k <= sts.len(), !opt_validation(c),
        b1.len() >= 20 + be16(b1.subrange(2, 4)), b2.len() >= 20 + be16(b1.subrange(2, 4)),
        forall|i: int| 0 <= i < 20 + be16(b1.subrange(2, 4)) ==> b1[i] == b2[i],
        b1.subrange(2, 4) == b2.subrange(2, 4),
        forall|i: int| 0 <= i < sts.len() ==> tlv_ok(b1.subrange(20, 20 + be16(b1.subrange(2, 4))), #[trigger] sts[i]),
    ensures dec_upto(b1, sts, k, c) == dec_upto(b2, sts, k, c),
    decreases k,
{
    if k > 0 {
        lemma_c03_upto(b1, b2, sts, k - 1, c);
        let n = 20 + be16(b1.subrange(2, 4));
        assert(b1.subrange(20, n) =~= b2.subrange(20, n));
        let st = sts[k - 1];
        assert(tlv_ok(b1.subrange(20, n), st));
        assert(b1.subrange(0, 20 + st) =~= b2.subrange(0, 20 + st));
    }
}

// ---------------------------------------------------------------- the option builders (context.rs): each option sets exactly its own flag
//@item! stun_rs :: mod context > struct DecoderContextBuilder
// #[derive(Default)] of DecoderContext and of the builder, as expanded by rustc: no key, every option off
impl Default for DecoderContext {
//@item stun_rs :: mod context > impl ::core::default::Default for DecoderContext > fn default
//@tags C18 C19
//@sub "key: ::core::default::Default::default()" => "key: None"
//@sub "::core::default::Default::default()" => "false" all
//@spec
    ensures r.key is None, !r.validation, !r.unknown_data, !r.not_ignore,
//@end
}
impl Default for DecoderContextBuilder {
//@item stun_rs :: mod context > impl ::core::default::Default for DecoderContextBuilder > fn default
//@tags C18 C19
//@sub "::core::default::Default::default()" => "DecoderContext::default()"
//@spec
    ensures r.0.key is None, !r.0.validation, !r.0.unknown_data, !r.0.not_ignore,
//@end
}
impl DecoderContextBuilder {
//@item stun_rs :: mod context > impl DecoderContextBuilder > fn with_key
//@tags C18 C19 C04
//@rules R5?
//@spec
    ensures r.0.key == Some(key), r.0.validation == self.0.validation, r.0.unknown_data == self.0.unknown_data, r.0.not_ignore == self.0.not_ignore,
//@end
//@item stun_rs :: mod context > impl DecoderContextBuilder > fn with_validation
//@tags C18 C19
//@rules R5?
//@spec
    ensures r.0.validation, r.0.key == self.0.key, r.0.unknown_data == self.0.unknown_data, r.0.not_ignore == self.0.not_ignore,
//@end
//@item stun_rs :: mod context > impl DecoderContextBuilder > fn with_unknown_data
//@tags C18 C19
//@rules R5?
//@spec
    ensures r.0.unknown_data, r.0.key == self.0.key, r.0.validation == self.0.validation, r.0.not_ignore == self.0.not_ignore,
//@end
//@item stun_rs :: mod context > impl DecoderContextBuilder > fn not_ignore
//@tags C18 C19 C09
//@rules R5?
//@spec
    ensures r.0.not_ignore, r.0.key == self.0.key, r.0.validation == self.0.validation, r.0.unknown_data == self.0.unknown_data,
//@end
//@item stun_rs :: mod context > impl DecoderContextBuilder > fn build
//@tags C18 C19
//@spec
    ensures r == self.0,
//@end
}
//@item! stun_rs :: mod context > struct MessageDecoderBuilder
// #[derive(Default)] of the decoder and of its builder: no context (the decoder then applies the ordering rule and nothing else)
impl Default for MessageDecoder {
//@item stun_rs :: mod context > impl ::core::default::Default for MessageDecoder > fn default
//@tags C18 C09 C19
//@sub "ctx: ::core::default::Default::default()" => "ctx: None"
//@spec
    ensures r.ctx is None,
//@end
}
impl Default for MessageDecoderBuilder {
//@item stun_rs :: mod context > impl ::core::default::Default for MessageDecoderBuilder > fn default
//@tags C18 C09 C19
//@sub "::core::default::Default::default()" => "MessageDecoder::default()"
//@spec
    ensures r.0.ctx is None,
//@end
}
impl MessageDecoderBuilder {
//@item stun_rs :: mod context > impl MessageDecoderBuilder > fn with_context
//@tags C18 C19
//@rules R5?
//@spec
    ensures r.0.ctx == Some(ctx),
//@end
//@item stun_rs :: mod context > impl MessageDecoderBuilder > fn build
//@tags C18 C19
//@spec
    ensures r == self.0,
//@end
}
impl MessageDecoder {
//@item stun_rs :: mod context > impl MessageDecoder > fn get_context
//@tags C18 C19
//@spec
    ensures r is Some <==> self.ctx is Some, r is Some ==> *r->Some_0 == self.ctx->Some_0,
//@end
}
proof fn vx_sentinel() ensures false {}
} // verus!
fn main() {}
