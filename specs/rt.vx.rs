#![feature(allocator_api)]
#![allow(unused, non_snake_case, non_camel_case_types, dead_code)]
use vstd::prelude::*;
verus! {
// Unit rt: the composition theorem of C01 - decoding the encoder's image gives the message back.
// It is a pure proof unit over the two shared vocabularies: img_vocab.rs (what unit codec proves MessageEncoder::encode
// writes) and dec_vocab.rs (what unit dec proves MessageDecoder::decode computes). The attribute is abstract; the one
// hypothesis about it (axiom_attr_roundtrip) is the statement unit attrs proves over the real 39-variant enum.
//@include prelude/core.rs
//@include prelude/std_misc.rs
//@include inc/codec_common.rs
//@include inc/raw_header.rs
//@include inc/admission.rs
#[verifier::external_body]
pub struct HMACKey { _p: () }
//@item! stun_rs :: mod context > struct DecoderContext
//@item! stun_rs :: mod message > struct StunMessage
#[verifier::external_body]
pub struct StunAttribute { _p: () }
impl StunAttribute {
    pub uninterp spec fn spec_type(&self) -> u16;
    pub uninterp spec fn wire(&self, enc: Seq<u8>) -> Seq<u8>;
    pub uninterp spec fn encodable(&self, enc: Seq<u8>) -> bool;
    pub uninterp spec fn post_wire(&self, enc: Seq<u8>, val: Seq<u8>) -> Seq<u8>;
    pub uninterp spec fn post_ok(&self, enc: Seq<u8>, val: Seq<u8>) -> bool;
    pub uninterp spec fn verifiable(&self) -> bool;
}
//@include inc/post_n.rs
//@include inc/img_vocab.rs
//@include inc/dec_vocab.rs

// ---------------------------------------------------------------- the hypothesis about attributes
// within the documented limits of its kind, and of a kind whose value is not rewritten after encoding (everything
// but MESSAGE-INTEGRITY, MESSAGE-INTEGRITY-SHA256, FINGERPRINT and Unknown); defined and proved in unit attrs
pub uninterp spec fn rt_ok(a: StunAttribute) -> bool;
// the statement proved in unit attrs over the real 39-variant enum, with rt_ok / registered / dec_attr / wire / post_wire
// defined there per kind (declared here with the same text, without proof)
//@importlemma attrs :: lemma_attr_roundtrip as axiom_attr_roundtrip

// ---------------------------------------------------------------- framing: the image is a sequence of TLVs that walk() finds
pub open spec fn st(msg: StunMessage, k: int) -> int { img(msg, k).len() - 20 }
pub open spec fn all_rt_ok(msg: StunMessage) -> bool { forall|k: int| 0 <= k < msg.attributes@.len() ==> rt_ok(#[trigger] msg.attributes@[k]) }

proof fn lemma_set_len_idem(x: Seq<u8>, a: int, b: int)
    requires x.len() >= 4,
    ensures set_len(set_len(x, a), b) == set_len(x, b),
{
    assert(set_len(set_len(x, a), b) =~= set_len(x, b));
}
proof fn lemma_set_len_sub(x: Seq<u8>, n: int, l: int)
    requires 4 <= n <= x.len(),
    ensures set_len(x, l).subrange(0, n) == set_len(x.subrange(0, n), l),
{
    assert(set_len(x, l).subrange(0, n) =~= set_len(x.subrange(0, n), l));
}
// the length field of every intermediate image is its own length
proof fn lemma_len_field(msg: StunMessage, k: int)
    requires 0 <= k <= msg.attributes@.len(), enc_ok(msg, k),
    ensures img(msg, k) == set_len(img(msg, k), st(msg, k)), 0 <= st(msg, k) <= 65535, st(msg, k) % 4 == 0,
        be16(img(msg, k).subrange(2, 4)) == st(msg, k),
    decreases k,
{
    lemma_img_ge20(msg, k);
    if k == 0 {
        lemma_img0(msg);
        assert(img(msg, 0) =~= set_len(img(msg, 0), 0));
    } else {
        lemma_len_field(msg, k - 1);
        lemma_img_unfold(msg, k);
        lemma_img_grows(msg, k);
        lemma_img_ge20(msg, k - 1);
        let p = img(msg, k - 1);
        let a = msg.attributes@[k - 1];
        let v = a.wire(p);
        let l = p.len() - 20 + 4 + v.len() + pad4(v.len() as int);
        assert(st(msg, k) == l);
        assert(img(msg, k) =~= set_len(img(msg, k), l));
    }
}
// A: a longer image starts with the shorter one, except for the length field
proof fn lemma_prefix(msg: StunMessage, k: int, m: int)
    requires 0 <= k <= m <= msg.attributes@.len(), enc_ok(msg, m),
    ensures img(msg, m).len() >= img(msg, k).len(), img(msg, k).len() >= 20,
        img(msg, m).subrange(0, img(msg, k).len() as int) == set_len(img(msg, k), st(msg, m)),
    decreases m - k,
{
    lemma_img_ge20(msg, k);
    if m == k {
        lemma_len_field(msg, k);
        assert(img(msg, k).subrange(0, img(msg, k).len() as int) =~= img(msg, k));
    } else {
        lemma_prefix(msg, k, m - 1);
        lemma_img_unfold(msg, m);
        lemma_img_grows(msg, m);
        lemma_img_ge20(msg, m - 1);
        let p = img(msg, m - 1);
        let a = msg.attributes@[m - 1];
        let v = a.wire(p);
        let l = p.len() - 20 + 4 + v.len() + pad4(v.len() as int);
        let n = img(msg, k).len() as int;
        assert(st(msg, m) == l);
        assert(img(msg, m).subrange(0, n) =~= set_len(p, l).subrange(0, n));
        lemma_set_len_sub(p, n, l);
        lemma_set_len_idem(img(msg, k), st(msg, m - 1), l);
    }
}
// the value bytes the encoder leaves for attribute k (1-based), and the body of the final image
pub open spec fn val_k(msg: StunMessage, k: int) -> Seq<u8> {
    let p = img(msg, k - 1);
    let a = msg.attributes@[k - 1];
    let v = a.wire(p);
    post_n(a, set_len(p, p.len() - 20 + 4 + v.len() + pad4(v.len() as int)), v)
}
pub open spec fn body_of(b: Seq<u8>) -> Seq<u8> { b.subrange(20, 20 + be16(b.subrange(2, 4))) }
proof fn lemma_post_n_len(a: StunAttribute, enc: Seq<u8>, v: Seq<u8>)
    ensures post_n(a, enc, v).len() == v.len(),
{
}
// C: in the image of the whole message, attribute k sits at st(k-1) as type, length, value, zero padding
proof fn lemma_tlv_at(msg: StunMessage, k: int, n: int)
    requires 1 <= k <= n <= msg.attributes@.len(), enc_ok(msg, n),
    ensures ({
        let body = body_of(img(msg, n));
        let s = st(msg, k - 1);
        let a = msg.attributes@[k - 1];
        &&& body.len() == st(msg, n)
        &&& 0 <= s && s + 4 <= body.len()
        &&& tlv_type(body, s) == a.spec_type()
        &&& tlv_len(body, s) == a.wire(img(msg, k - 1)).len()
        &&& tlv_next(body, s) == st(msg, k)
        &&& tlv_ok(body, s)
        &&& body.subrange(s + 4, s + 4 + tlv_len(body, s)) == val_k(msg, k)
    }),
{
    let b = img(msg, n);
    lemma_len_field(msg, n);
    lemma_img_ge20(msg, n);
    lemma_prefix(msg, k, n);
    lemma_prefix(msg, k - 1, n);
    lemma_enc_ok_prefix(msg, k, n);
    lemma_img_unfold(msg, k);
    lemma_img_grows(msg, k);
    lemma_img_ge20(msg, k - 1);
    let p = img(msg, k - 1);
    let a = msg.attributes@[k - 1];
    let v = a.wire(p);
    let l = p.len() - 20 + 4 + v.len() + pad4(v.len() as int);
    let body = body_of(b);
    let s = st(msg, k - 1);
    let ik = img(msg, k);
    lemma_post_n_len(a, set_len(p, l), v);
    assert(body =~= b.subrange(20, b.len() as int));
    // bytes of the final image in [p.len(), ik.len()) are those of img(k) (the prefix differs only in bytes 2..4)
    assert forall|i: int| p.len() <= i < ik.len() implies b[i] == ik[i] by {
        assert(b.subrange(0, ik.len() as int)[i] == set_len(ik, st(msg, n))[i]);
    }
    assert(v.len() <= 65535);
    lemma_be16_seq(a.spec_type() as int);
    lemma_be16_seq(v.len() as int);
    assert(body.subrange(s, s + 2) =~= be16_seq(a.spec_type() as int));
    assert(body.subrange(s + 2, s + 4) =~= be16_seq(v.len() as int));
    assert(body.subrange(s + 4, s + 4 + v.len()) =~= val_k(msg, k));
}
proof fn lemma_be16_seq(v: int)
    requires 0 <= v < 65536,
    ensures be16(be16_seq(v)) == v,
{
}
proof fn lemma_enc_ok_prefix(msg: StunMessage, k: int, n: int)
    requires 0 <= k <= n, enc_ok(msg, n),
    ensures enc_ok(msg, k),
    decreases n - k,
{
    if k < n { lemma_enc_ok_prefix(msg, k, n - 1); }
}
pub open spec fn sts_from(msg: StunMessage, k: int, n: int) -> Seq<int> { Seq::new((n - k) as nat, |i: int| st(msg, k + i)) }
// D: walk() over the body of the image finds exactly the attribute starts
proof fn lemma_walk_img(msg: StunMessage, k: int, n: int)
    requires 0 <= k <= n <= msg.attributes@.len(), enc_ok(msg, n),
    ensures walk(body_of(img(msg, n)), st(msg, k)) == Some(sts_from(msg, k, n)),
    decreases n - k,
{
    let body = body_of(img(msg, n));
    lemma_len_field(msg, n);
    lemma_img_ge20(msg, n);
    assert(body =~= img(msg, n).subrange(20, img(msg, n).len() as int));
    lemma_img_ge20(msg, k);
    if k == n {
        assert(sts_from(msg, n, n) =~= Seq::<int>::empty());
    } else {
        lemma_tlv_at(msg, k + 1, n);
        lemma_walk_img(msg, k + 1, n);
        assert(seq![st(msg, k)] + sts_from(msg, k + 1, n) =~= sts_from(msg, k, n));
    }
}
proof fn lemma_header_ok_img(msg: StunMessage, k: int)
    requires 0 <= k <= msg.attributes@.len(), enc_ok(msg, k), msg.method.0 <= 0x0FFF,
    ensures header_ok(img(msg, k)),
{
    lemma_prefix(msg, 0, k);
    lemma_img0(msg);
    lemma_img_ge20(msg, k);
    let h = hdr_img(msg);
    let t = rfc_type(msg.method.0, spec_class_bits(msg.class));
    let m = msg.method.0;
    let c = spec_class_bits(msg.class);
    assert(c <= 3);
    assert(m <= 0x0FFFu16 && c <= 3u16 ==> rfc_type(m, c) <= 0x3FFFu16) by (bit_vector);
    assert(h[0] == (t / 256) as u8);
    assert(h[4] == 0x21 && h[5] == 0x12 && h[6] == 0xA4 && h[7] == 0x42) by {
        assert(be32_seq(0x2112A442) =~= seq![0x21u8, 0x12u8, 0xA4u8, 0x42u8]);
    }
    let b = img(msg, k);
    assert(b.subrange(0, 20) =~= set_len(h, st(msg, k)));
    assert(b[0] == b.subrange(0, 20)[0] && b[4] == b.subrange(0, 20)[4] && b[5] == b.subrange(0, 20)[5]
        && b[6] == b.subrange(0, 20)[6] && b[7] == b.subrange(0, 20)[7]);
}
// E: the decoder builds attribute k back from its TLV
proof fn lemma_attr_at_img(msg: StunMessage, k: int, n: int, ud: bool)
    requires 1 <= k <= n <= msg.attributes@.len(), enc_ok(msg, n), all_rt_ok(msg), msg.method.0 <= 0x0FFF,
    ensures attr_at(img(msg, n), st(msg, k - 1), ud) == Some(msg.attributes@[k - 1]),
{
    let b = img(msg, n);
    let p = img(msg, k - 1);
    let a = msg.attributes@[k - 1];
    let v = a.wire(p);
    let l = p.len() - 20 + 4 + v.len() + pad4(v.len() as int);
    lemma_tlv_at(msg, k, n);
    lemma_prefix(msg, k - 1, n);
    lemma_enc_ok_prefix(msg, k - 1, n);
    lemma_enc_ok_prefix(msg, k, n);
    lemma_header_ok_img(msg, k - 1);
    lemma_img_ge20(msg, k - 1);
    assert(rt_ok(a));
    assert(a.encodable(p));
    axiom_attr_roundtrip(a, p, l, st(msg, n));
    assert(b.subrange(0, 20 + st(msg, k - 1)) == set_len(p, st(msg, n)));
    assert(val_k(msg, k) == v);
}
// F: with every wire attribute kept (not_ignore) and no validation, the decoder's list after k TLVs is the first k attributes
proof fn lemma_dec_upto_img(msg: StunMessage, k: int, n: int, c: DecoderContext)
    requires 0 <= k <= n, n == msg.attributes@.len(), enc_ok(msg, n), all_rt_ok(msg), msg.method.0 <= 0x0FFF,
        c.not_ignore, !c.validation,
    ensures dec_upto(img(msg, n), sts_from(msg, 0, n), k, Some(c)) == Some(msg.attributes@.subrange(0, k)),
    decreases k,
{
    if k == 0 {
        assert(msg.attributes@.subrange(0, 0) =~= Seq::<StunAttribute>::empty());
    } else {
        lemma_dec_upto_img(msg, k - 1, n, c);
        lemma_attr_at_img(msg, k, n, c.unknown_data);
        assert(sts_from(msg, 0, n)[k - 1] == st(msg, k - 1));
        assert(msg.attributes@.subrange(0, k - 1).push(msg.attributes@[k - 1]) =~= msg.attributes@.subrange(0, k));
    }
}
// ---------------------------------------------------------------- C01: decoding the image of a message gives the message back
// props: C01
pub proof fn theorem_c01_roundtrip(msg: StunMessage, c: DecoderContext)
    requires
        msg.method.0 <= 0x0FFF,                                   // a 12-bit method
        enc_ok(msg, msg.attributes@.len() as int),                // the message encodes (every value within its limits, total size fits 16 bits)
        all_rt_ok(msg),                                           // attributes of the kinds that are not rewritten after encoding
        c.not_ignore, !c.validation,
    ensures ({
        let b = img(msg, msg.attributes@.len() as int);
        // sizes: the image is 20 + length field bytes long, a multiple of 4
        &&& b.len() == 20 + be16(b.subrange(2, 4)) && b.len() % 4 == 0
        // the decoder accepts it and returns the same attributes in the same order
        &&& decoded(b, Some(c)) == Some(msg.attributes@)
        // and the same method, class and transaction id
        &&& header_ok(b)
        &&& rfc_method_of((be16(b) % 16384) as u16) == msg.method.0
        &&& rfc_class_of((be16(b) % 16384) as u16) == spec_class_bits(msg.class)
        &&& b.subrange(8, 20) == msg.transaction_id.0@
    }),
{
    let n = msg.attributes@.len() as int;
    let b = img(msg, n);
    lemma_len_field(msg, n);
    lemma_img_ge20(msg, n);
    lemma_header_ok_img(msg, n);
    lemma_walk_img(msg, 0, n);
    lemma_img0(msg);
    assert(st(msg, 0) == 0);
    lemma_dec_upto_img(msg, n, n, c);
    assert(msg.attributes@.subrange(0, n) =~= msg.attributes@);
    assert(sts_from(msg, 0, n).len() == n);
    // header fields
    lemma_prefix(msg, 0, n);
    let h = hdr_img(msg);
    let m = msg.method.0;
    let cl = spec_class_bits(msg.class);
    let t = rfc_type(m, cl);
    assert(cl <= 3);
    assert(m <= 0x0FFFu16 && cl <= 3u16 ==> rfc_type(m, cl) <= 0x3FFFu16) by (bit_vector);
    lemma_rfc_type_roundtrip(m, cl);
    assert(t & 0x3FFFu16 == t) by (bit_vector) requires t <= 0x3FFFu16;
    assert(b.subrange(0, 20) =~= set_len(h, st(msg, n)));
    assert(b[0] == b.subrange(0, 20)[0] && b[1] == b.subrange(0, 20)[1]);
    assert(h[0] == (t / 256) as u8 && h[1] == (t % 256) as u8);
    assert(be16(b) == t);
    assert(b.subrange(8, 20) =~= msg.transaction_id.0@) by {
        assert forall|i: int| 8 <= i < 20 implies b[i] == h[i] by { assert(b[i] == b.subrange(0, 20)[i]); }
        assert(h.subrange(8, 20) =~= msg.transaction_id.0@);
    }
}
// ---------------------------------------------------------------- C04 / C10: the text a receiver recomputes a MAC / CRC over is the
// prefix the sender's post_encode saw (header length already covering the attribute)
proof fn lemma_find_tlv_img(msg: StunMessage, j: int, k: int, n: int, t: int)
    requires 0 <= j < k <= n <= msg.attributes@.len(), enc_ok(msg, n),
        msg.attributes@[k - 1].spec_type() == t,
        forall|i: int| j <= i < k - 1 ==> (#[trigger] msg.attributes@[i]).spec_type() != t,
    ensures find_tlv(body_of(img(msg, n)), st(msg, j), t) == Some((st(msg, k - 1), st(msg, k))),
    decreases k - j,
{
    lemma_tlv_at(msg, j + 1, n);
    lemma_img_ge20(msg, j);
    if j < k - 1 {
        lemma_find_tlv_img(msg, j + 1, k, n, t);
        assert(msg.attributes@[j].spec_type() != t);
    }
}
// props: C04 C10
pub proof fn theorem_input_text_is_senders_prefix(msg: StunMessage, k: int, n: int)
    requires 1 <= k <= n, n == msg.attributes@.len(), enc_ok(msg, n), msg.method.0 <= 0x0FFF,
        // attribute k is the first of its type
        forall|i: int| 0 <= i < k - 1 ==> (#[trigger] msg.attributes@[i]).spec_type() != msg.attributes@[k - 1].spec_type(),
    ensures ({
        let a = msg.attributes@[k - 1];
        let p = img(msg, k - 1);
        let v = a.wire(p);
        // what post_encode of attribute k was given as the encoded message (see tlv_step)
        let seen = set_len(p, p.len() - 20 + 4 + v.len() + pad4(v.len() as int));
        input_text(img(msg, n), a.spec_type() as int) == Some(seen)
    }),
{
    let b = img(msg, n);
    let a = msg.attributes@[k - 1];
    let p = img(msg, k - 1);
    lemma_len_field(msg, n);
    lemma_img_ge20(msg, n);
    lemma_header_ok_img(msg, n);
    lemma_img0(msg);
    lemma_find_tlv_img(msg, 0, k, n, a.spec_type() as int);
    lemma_prefix(msg, k - 1, n);
    lemma_img_grows(msg, k);
    lemma_img_ge20(msg, k - 1);
    lemma_set_len_idem(p, st(msg, n), st(msg, k));
}

// ---------------------------------------------------------------- only unregistered type codes come out as `Unknown`
// (C07/C08/C17: the precondition `decoder_made()` under which the credential mechanisms of unit cred are proved; the client
// unit states it as a clause of its abstract decoder contract). Hypotheses: the two per-kind facts proved in unit attrs.
pub uninterp spec fn is_unknown(a: StunAttribute) -> bool;
//@importlemma attrs :: lemma_dec_attr_kind as axiom_dec_attr_kind
//@importlemma attrs :: lemma_unknown_attr as axiom_unknown_attr
pub open spec fn unknown_unregistered(s: Seq<StunAttribute>) -> bool {
    forall|k: int| 0 <= k < s.len() ==> (is_unknown(#[trigger] s[k]) ==> !registered(s[k].spec_type()))
}
proof fn lemma_dec_upto_unknown(b: Seq<u8>, sts: Seq<int>, k: int, c: Option<DecoderContext>)
    requires 0 <= k <= sts.len(),
    ensures dec_upto(b, sts, k, c) is Some ==> unknown_unregistered(dec_upto(b, sts, k, c)->Some_0),
    decreases k,
{
    if k > 0 {
        lemma_dec_upto_unknown(b, sts, k - 1, c);
        if dec_upto(b, sts, k, c) is Some {
            let body = b.subrange(20, 20 + be16(b.subrange(2, 4)));
            let st = sts[k - 1];
            let t = tlv_type(body, st) as u16;
            let v = body.subrange(st + 4, st + 4 + tlv_len(body, st));
            let acc = dec_upto(b, sts, k - 1, c)->Some_0;
            let a = attr_at(b, st, opt_unknown_data(c))->Some_0;
            axiom_dec_attr_kind(t, v, b.subrange(0, 20 + st));
            axiom_unknown_attr(t, if opt_unknown_data(c) { Some(v) } else { None });
            assert(is_unknown(a) ==> !registered(a.spec_type()));
            let r = dec_upto(b, sts, k, c)->Some_0;
            assert(r == acc || r == acc.push(a));
            assert forall|j: int| 0 <= j < r.len() implies (is_unknown(#[trigger] r[j]) ==> !registered(r[j].spec_type())) by {
                if r == acc.push(a) && j == acc.len() { assert(r[j] == a); } else { assert(r[j] == acc[j]); }
            }
        }
    }
}
// props: C07 C08 C17
pub proof fn theorem_unknown_unregistered(b: Seq<u8>, c: Option<DecoderContext>)
    ensures decoded(b, c) is Some ==> unknown_unregistered(decoded(b, c)->Some_0),
{
    if header_ok(b) && b.len() >= 20 + be16(b.subrange(2, 4)) {
        match walk(b.subrange(20, 20 + be16(b.subrange(2, 4))), 0) {
            Some(sts) => { lemma_dec_upto_unknown(b, sts, sts.len() as int, c); },
            None => {},
        }
    }
}
proof fn vx_sentinel() ensures false {}
} // verus!
fn main() {}
