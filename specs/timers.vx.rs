#![feature(allocator_api)]
#![allow(unused, non_snake_case, non_camel_case_types, dead_code)]
use vstd::prelude::*;
use core::cmp::Ordering;
use vstd::multiset::Multiset;
verus! {
//@include prelude/time.rs

//@include inc/txid.rs

//@item! stun_agent :: mod timeout > struct TimeoutItem
impl TimeoutItem {
    pub open spec fn expiry(&self) -> int { self.instant.ns@ + self.timeout.ns@ }
}
impl vstd::std_specs::cmp::PartialEqSpecImpl for TimeoutItem {
    open spec fn obeys_eq_spec() -> bool { false }
    open spec fn eq_spec(&self, other: &TimeoutItem) -> bool { arbitrary() }
}
impl PartialEq for TimeoutItem {
//@item! stun_agent :: mod timeout > impl PartialEq for TimeoutItem > fn eq
}
impl Eq for TimeoutItem {}
impl vstd::std_specs::cmp::PartialOrdSpecImpl for TimeoutItem {
    open spec fn obeys_partial_cmp_spec() -> bool { false }
    open spec fn partial_cmp_spec(&self, other: &TimeoutItem) -> Option<Ordering> { arbitrary() }
}
impl PartialOrd for TimeoutItem {
//@item! stun_agent :: mod timeout > impl PartialOrd for TimeoutItem > fn partial_cmp
}
impl vstd::std_specs::cmp::OrdSpecImpl for TimeoutItem {
    open spec fn obeys_cmp_spec() -> bool { false }
    open spec fn cmp_spec(&self, other: &TimeoutItem) -> Ordering { arbitrary() }
}
impl Ord for TimeoutItem {
//@item stun_agent :: mod timeout > impl Ord for TimeoutItem > fn cmp
//@tags C06 C11
//@spec
    ensures r == spec_ord(self.expiry(), other.expiry()),
//@end
}


// ---- std::collections::BinaryHeap<std::cmp::Reverse<TimeoutItem>> (trusted shim).
// view = the heap's internal vector; element 0 is the greatest w.r.t. Ord for Reverse<TimeoutItem>, i.e.
// the *least* w.r.t. the extracted `Ord for TimeoutItem` above (whose contract ties it to expiry());
// push/pop/retain are specified up to permutation of that vector.
pub struct Reverse<T>(pub T);
#[verifier::external_body]
#[verifier::reject_recursive_types(T)]
pub struct BinaryHeap<T> { _p: core::marker::PhantomData<T> }
pub open spec fn heap_ok(s: Seq<TimeoutItem>) -> bool {
    forall|j: int| 0 <= j < s.len() ==> s[0].expiry() <= #[trigger] s[j].expiry()
}
impl BinaryHeap<Reverse<TimeoutItem>> {
    pub uninterp spec fn view(&self) -> Seq<TimeoutItem>;
    #[verifier::external_body]
    pub fn push(&mut self, x: Reverse<TimeoutItem>)
        requires heap_ok(old(self)@),
        ensures heap_ok(final(self)@), final(self)@.to_multiset() == old(self)@.to_multiset().insert(x.0),
            final(self)@.len() == old(self)@.len() + 1,
    { unimplemented!() }
    #[verifier::external_body]
    pub fn peek(&self) -> (r: Option<&Reverse<TimeoutItem>>)
        ensures r is None <==> self@.len() == 0,
            r is Some ==> r->Some_0.0 == self@[0],
    { unimplemented!() }
    #[verifier::external_body]
    pub fn pop(&mut self) -> (r: Option<Reverse<TimeoutItem>>)
        requires heap_ok(old(self)@),
        ensures heap_ok(final(self)@),
            r is None <==> old(self)@.len() == 0,
            r is None ==> final(self)@ == old(self)@,
            r is Some ==> r->Some_0.0 == old(self)@[0]
                && old(self)@.to_multiset() == final(self)@.to_multiset().insert(old(self)@[0])
                && final(self)@.len() + 1 == old(self)@.len(),
    { unimplemented!() }
    #[verifier::external_body]
    pub fn retain<F: Fn(&Reverse<TimeoutItem>) -> bool>(&mut self, f: F)
        requires heap_ok(old(self)@),
            forall|x: Reverse<TimeoutItem>| call_requires(f, (&x,)),
        ensures heap_ok(final(self)@),
            // f is called once on every element and returns some b; the element is kept iff b
            forall|x: TimeoutItem| #[trigger] final(self)@.to_multiset().count(x) <= old(self)@.to_multiset().count(x),
            forall|x: TimeoutItem| #[trigger] old(self)@.to_multiset().count(x) > 0 ==>
                (call_ensures(f, (&Reverse(x),), true) && final(self)@.to_multiset().count(x) == old(self)@.to_multiset().count(x))
                || (call_ensures(f, (&Reverse(x),), false) && final(self)@.to_multiset().count(x) == 0),
            final(self)@.len() <= old(self)@.len(),
    { unimplemented!() }
}
impl Default for BinaryHeap<Reverse<TimeoutItem>> {
    #[verifier::external_body]
    fn default() -> (r: Self) ensures r@ == Seq::<TimeoutItem>::empty() { unimplemented!() }
}

proof fn lemma_empty_ms(s: Seq<TimeoutItem>)
    ensures s.len() == 0 ==> forall|y: TimeoutItem| s.to_multiset().count(y) == 0,
{
    s.to_multiset_ensures();
    if s.len() == 0 {
        assert forall|y: TimeoutItem| s.to_multiset().count(y) == 0 by {
            if s.to_multiset().count(y) > 0 { assert(s.contains(y)); }
        }
    }
}
// what StunMessageTimeout::check(now) does to the pending timers: `removed` is what it popped, in order
pub open spec fn check_post(old_ms: Multiset<TimeoutItem>, new_ms: Multiset<TimeoutItem>, removed: Seq<TimeoutItem>,
    ids: Seq<TransactionId>, now: int) -> bool {
    &&& old_ms == new_ms.add(removed.to_multiset())
    &&& removed.len() == ids.len()
    &&& (forall|i: int| 0 <= i < removed.len() ==> ids[i] == #[trigger] removed[i].transaction_id && removed[i].expiry() <= now)
    &&& (forall|y: TimeoutItem| new_ms.count(y) > 0 ==> y.expiry() > now)
}
//@item! stun_agent :: mod timeout > struct StunMessageTimeout
impl StunMessageTimeout {
    pub open spec fn wf(&self) -> bool { heap_ok(self.timeouts@) }
    // the pending timers, as a multiset of (instant, timeout, id)
    pub open spec fn ms(&self) -> Multiset<TimeoutItem> { self.timeouts@.to_multiset() }
    // the entry the heap presents first (a pending timer of least expiry, see next_timeout)
    pub open spec fn top(&self) -> TimeoutItem { self.timeouts@[0] }
    pub open spec fn has_id(&self, id: TransactionId) -> bool {
        exists|x: TimeoutItem| self.ms().count(x) > 0 && x.transaction_id == id
    }
//@item stun_agent :: mod timeout > impl StunMessageTimeout > fn add
//@tags C06 C11 C05 C12
//@spec
    requires old(self).wf(),
    ensures final(self).wf(),
        final(self).ms() == old(self).ms().insert(TimeoutItem { instant, timeout, transaction_id }),
//@end
//@item stun_agent :: mod timeout > impl StunMessageTimeout > fn remove
//@tags C06 C11 C05 C12
//@closure 1
|item: &Reverse<TimeoutItem>| -> (b: bool)
    ensures b == (item.0.transaction_id != *transaction_id),
//@spec
    requires old(self).wf(),
    ensures final(self).wf(),
        forall|x: TimeoutItem| #[trigger] final(self).ms().count(x)
            == (if x.transaction_id != *transaction_id { old(self).ms().count(x) } else { 0 }),
//@end
//@item stun_agent :: mod timeout > impl StunMessageTimeout > fn next_timeout
//@tags C11 C06
//@before "if let Some(item) = self.timeouts.peek()"
    proof {
        self.timeouts@.to_multiset_ensures();
        if self.timeouts@.len() > 0 {
            assert(self.timeouts@.contains(self.timeouts@[0]));
            assert forall|y: TimeoutItem| self.ms().count(y) > 0 implies self.timeouts@[0].expiry() <= y.expiry() by {
                assert(self.timeouts@.contains(y));
                let j = choose|j: int| 0 <= j < self.timeouts@.len() && self.timeouts@[j] == y;
                assert(self.timeouts@[0].expiry() <= self.timeouts@[j].expiry());
            }
        }
    }
//@spec
    requires old(self).wf(),
    ensures *final(self) == *old(self),
        r is None <==> old(self).ms().len() == 0,
        r is Some ==> {
            let x = old(self).top();
            &&& old(self).ms().count(x) > 0
            &&& x.transaction_id == r->Some_0.0
            &&& (forall|y: TimeoutItem| old(self).ms().count(y) > 0 ==> x.expiry() <= y.expiry())
            &&& r->Some_0.1.ns@ == (if x.expiry() > instant.ns@ { x.expiry() - instant.ns@ } else { 0 })
        },
//@end
//@item stun_agent :: mod timeout > impl StunMessageTimeout > fn check
//@tags C06 C11 C05 C12
//@spec
    requires old(self).wf(),
    ensures final(self).wf(),
        exists|removed: Seq<TimeoutItem>| check_post(old(self).ms(), final(self).ms(), removed, r@, instant.ns@),
//@before "while let Some(item)"
    let ghost mut removed: Seq<TimeoutItem> = Seq::empty();
    proof {
        broadcast use vstd::seq_lib::group_to_multiset_ensures;
        assert(removed.to_multiset().len() == 0);
        assert(removed.to_multiset() =~= Multiset::<TimeoutItem>::empty());
        assert(old(self).ms() =~= self.ms().add(removed.to_multiset()));
        lemma_empty_ms(self.timeouts@);
    }
//@loop 1
    invariant
        self.wf(),
        self.timeouts@.len() == 0 ==> forall|y: TimeoutItem| self.ms().count(y) == 0,
        old(self).ms() == self.ms().add(removed.to_multiset()),
        removed.len() == expired@.len(),
        forall|i: int| 0 <= i < removed.len() ==> expired@[i] == #[trigger] removed[i].transaction_id && removed[i].expiry() <= instant.ns@,
    ensures
        forall|y: TimeoutItem| self.ms().count(y) > 0 ==> y.expiry() > instant.ns@,
    decreases self.timeouts@.len(),
//@before "if item.0.instant + item.0.timeout <= instant"
    let ghost top = self.timeouts@[0];
    let ghost ms0 = self.ms();
    proof {
        self.timeouts@.to_multiset_ensures();
        assert(item.0 == top);
        if !(top.expiry() <= instant.ns@) {
            assert forall|y: TimeoutItem| self.ms().count(y) > 0 implies y.expiry() > instant.ns@ by {
                assert(self.timeouts@.contains(y));
                let j = choose|j: int| 0 <= j < self.timeouts@.len() && self.timeouts@[j] == y;
                assert(self.timeouts@[0].expiry() <= self.timeouts@[j].expiry());
            }
        }
    }
//@after "self.timeouts.pop();"
    proof {
        removed.to_multiset_ensures();
        assert(removed.push(top).to_multiset() =~= removed.to_multiset().insert(top));
        assert(ms0 =~= self.ms().insert(top));
        assert(old(self).ms() =~= self.ms().add(removed.push(top).to_multiset()));
        removed = removed.push(top);
        lemma_empty_ms(self.timeouts@);
    }
//@tail
    proof {
        self.timeouts@.to_multiset_ensures();
        assert(check_post(old(self).ms(), self.ms(), removed, expired@, instant.ns@));
    }
//@end
}
proof fn vx_sentinel() ensures false {}
} // verus!
fn main() {}
