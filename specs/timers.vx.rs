#![feature(allocator_api)]
#![allow(unused, non_snake_case, non_camel_case_types, dead_code)]
use vstd::prelude::*;
use core::cmp::Ordering;
use vstd::multiset::Multiset;
verus! {
//@include prelude/time.rs
//@include prelude/std_misc.rs

//@include inc/txid.rs

//@include inc/timers_vocab.rs
impl vstd::std_specs::cmp::PartialEqSpecImpl for TimeoutItem {
    open spec fn obeys_eq_spec() -> bool { false }
    open spec fn eq_spec(&self, other: &TimeoutItem) -> bool { arbitrary() }
}
impl PartialEq for TimeoutItem {
//@item! stun_agent :: mod timeout > impl PartialEq for TimeoutItem > fn eq
}
impl Eq for TimeoutItem {}
impl vstd::std_specs::cmp::PartialOrdSpecImpl for TimeoutItem {
    open spec fn obeys_partial_cmp_spec() -> bool { false }
    open spec fn partial_cmp_spec(&self, other: &TimeoutItem) -> Option<Ordering> { arbitrary() }
}
impl PartialOrd for TimeoutItem {
//@item! stun_agent :: mod timeout > impl PartialOrd for TimeoutItem > fn partial_cmp
}
impl vstd::std_specs::cmp::OrdSpecImpl for TimeoutItem {
    open spec fn obeys_cmp_spec() -> bool { false }
    open spec fn cmp_spec(&self, other: &TimeoutItem) -> Ordering { arbitrary() }
}
impl Ord for TimeoutItem {
//@item stun_agent :: mod timeout > impl Ord for TimeoutItem > fn cmp
//@tags C05 C06 C11 C12 C15
//@spec
    ensures r == spec_ord(self.expiry(), other.expiry()),
//@end
}



proof fn lemma_empty_ms(s: Seq<TimeoutItem>)
    ensures s.len() == 0 ==> forall|y: TimeoutItem| s.to_multiset().count(y) == 0,
{
    s.to_multiset_ensures();
    if s.len() == 0 {
        assert forall|y: TimeoutItem| s.to_multiset().count(y) == 0 by {
            if s.to_multiset().count(y) > 0 { assert(s.contains(y)); }
        }
    }
}
impl StunMessageTimeout {
//@item stun_agent :: mod timeout > impl StunMessageTimeout > fn add
//@tags C05 C06 C11 C12 C15
//@spec
    requires old(self).wf(),
    ensures final(self).wf(),
        final(self).ms() == old(self).ms().insert(TimeoutItem { instant, timeout, transaction_id }),
//@end
//@item stun_agent :: mod timeout > impl StunMessageTimeout > fn remove
//@tags C05 C06 C11 C12 C15
//@closure 1
|item: &Reverse<TimeoutItem>| -> (b: bool)
    ensures b == (item.0.transaction_id != *transaction_id),
//@spec
    requires old(self).wf(),
    ensures final(self).wf(),
        forall|x: TimeoutItem| #[trigger] final(self).ms().count(x)
            == (if x.transaction_id != *transaction_id { old(self).ms().count(x) } else { 0 }),
//@end
//@item stun_agent :: mod timeout > impl StunMessageTimeout > fn next_timeout
//@tags C05 C06 C11 C12 C15
//@head
    proof {
        self.timeouts@.to_multiset_ensures();
        if self.timeouts@.len() > 0 {
            assert(self.timeouts@.contains(self.timeouts@[0]));
            assert forall|y: TimeoutItem| self.ms().count(y) > 0 implies self.timeouts@[0].expiry() <= y.expiry() by {
                assert(self.timeouts@.contains(y));
                let j = choose|j: int| 0 <= j < self.timeouts@.len() && self.timeouts@[j] == y;
                assert(self.timeouts@[0].expiry() <= self.timeouts@[j].expiry());
            }
        }
    }
//@spec
    requires old(self).wf(),
    ensures *final(self) == *old(self),
        r is None <==> old(self).ms().len() == 0,
        r is Some ==> {
            let x = old(self).top();
            &&& old(self).ms().count(x) > 0
            &&& x.transaction_id == r->Some_0.0
            &&& (forall|y: TimeoutItem| old(self).ms().count(y) > 0 ==> x.expiry() <= y.expiry())
            &&& r->Some_0.1.ns@ == (if x.expiry() > instant.ns@ { x.expiry() - instant.ns@ } else { 0 })
        },
//@end
//@item stun_agent :: mod timeout > impl StunMessageTimeout > fn check
//@tags C05 C06 C11 C12 C15
//@prefix
    #[verifier::spinoff_prover]
//@spec
    requires old(self).wf(),
    ensures final(self).wf(),
        exists|removed: Seq<TimeoutItem>| check_post(old(self).ms(), final(self).ms(), removed, r@, instant.ns@),
//@before "while let"
    let ghost mut removed: Seq<TimeoutItem> = Seq::empty();
    proof {
        broadcast use vstd::seq_lib::group_to_multiset_ensures;
        assert(removed.to_multiset().len() == 0);
        assert(removed.to_multiset() =~= Multiset::<TimeoutItem>::empty());
        assert(old(self).ms() =~= self.ms().add(removed.to_multiset()));
        lemma_empty_ms(self.timeouts@);
    }
//@loop 1
    invariant
        self.wf(),
        self.timeouts@.len() == 0 ==> forall|y: TimeoutItem| self.ms().count(y) == 0,
        old(self).ms() == self.ms().add(removed.to_multiset()),
        removed.len() == expired@.len(),
        forall|i: int| 0 <= i < removed.len() ==> expired@[i] == #[trigger] removed[i].transaction_id && removed[i].expiry() <= instant.ns@,
    ensures
        forall|y: TimeoutItem| self.ms().count(y) > 0 ==> y.expiry() > instant.ns@,
    decreases self.timeouts@.len(),
//@loopstart 1
    let ghost top = self.timeouts@[0];
    let ghost ms0 = self.ms();
    proof {
        self.timeouts@.to_multiset_ensures();
        assert(item.0 == top);
        if !(top.expiry() <= instant.ns@) {
            assert forall|y: TimeoutItem| self.ms().count(y) > 0 implies y.expiry() > instant.ns@ by {
                assert(self.timeouts@.contains(y));
                let j = choose|j: int| 0 <= j < self.timeouts@.len() && self.timeouts@[j] == y;
                assert(self.timeouts@[0].expiry() <= self.timeouts@[j].expiry());
            }
        }
    }
//@after "self.timeouts.pop();"
    proof {
        removed.to_multiset_ensures();
        assert(removed.push(top).to_multiset() =~= removed.to_multiset().insert(top));
        assert(ms0 =~= self.ms().insert(top));
        assert(old(self).ms() =~= self.ms().add(removed.push(top).to_multiset()));
        removed = removed.push(top);
        lemma_empty_ms(self.timeouts@);
    }
//@tail
    proof {
        self.timeouts@.to_multiset_ensures();
        assert(check_post(old(self).ms(), self.ms(), removed, expired@, instant.ns@));
    }
//@end
}

proof fn lemma_lg_pow2(k: int)
    requires k >= 0,
    ensures lg(pow2i(k)) == k, pow2i(k) >= 1, pow2i(k + 1) == 2 * pow2i(k),
    decreases k,
{
    if k > 0 {
        lemma_lg_pow2(k - 1);
        assert(pow2i(k) / 2 == pow2i(k - 1));
    }
}
proof fn lemma_pow2_bound(k: int)
    requires 0 <= k <= 31,
    ensures pow2i(k) <= 0x8000_0000,
    decreases 31 - k,
{
    if k < 31 { lemma_pow2_bound(k + 1); } else { assert(pow2i(31) == 0x8000_0000) by (compute); }
}
impl RtoCalculator {
//@item stun_agent :: mod timeout > impl RtoCalculator > fn new
//@tags C05 C06 C11 C12 C15
//@spec
    requires rc <= 31, rtt.ns@ >= 0,
    ensures r.wf(), r.j() == 0, r.cfg_rc() == rc, r.rtt == rtt, r.last_rm == last_rm, r.rc == rc, r.rm == 1,
//@before "Self { rtt, rm: 1, rc, last_rm }"
    proof { assert(lg(1) == 0); assert(pow2i(0) == 1); }
//@end
//@item stun_agent :: mod timeout > impl RtoCalculator > fn next_rto
//@tags C05 C06 C11 C12 C15
//@spec
    requires old(self).wf(),
    ensures final(self).wf(),
        final(self).rtt == old(self).rtt, final(self).last_rm == old(self).last_rm,
        final(self).cfg_rc() == old(self).cfg_rc(),
        old(self).rc == 0 ==> r is None && *final(self) == *old(self),
        old(self).rc > 0 ==> r is Some && final(self).j() == old(self).j() + 1 && final(self).rc == old(self).rc - 1
            && r->Some_0.ns@ == ivl(old(self).rtt.ns@ as int, old(self).last_rm as int, old(self).cfg_rc(), old(self).j()),
//@head
    proof {
        lemma_lg_pow2(self.j());
        lemma_pow2_bound(self.j());
        if self.rc > 0 { lemma_pow2_bound(self.j() + 1); lemma_lg_pow2(self.j() + 1); }
    }
//@end
}

impl RtoManager {
//@item stun_agent :: mod timeout > impl RtoManager > fn new
//@tags C05 C06 C11 C12 C15
//@spec
    requires rc <= 31, rtt.ns@ >= 0,
    ensures r.wf(), r.latest is None, r.j() == 0, r.rc() == rc, r.rtt() == rtt.ns@, r.rm() == rm as int,
//@end
//@item stun_agent :: mod timeout > impl RtoManager > fn next_rto
//@tags C05 C06 C11 C12 C15
//@spec
    requires old(self).wf(),
    ensures final(self).wf(),
        final(self).rtt() == old(self).rtt(), final(self).rm() == old(self).rm(), final(self).rc() == old(self).rc(),
        // first transmission: the first interval starts now
        (old(self).latest is None && old(self).calculator.rc > 0) ==> r is Some && final(self).latest == Some(instant)
            && final(self).j() == old(self).j() + 1
            && r->Some_0.ns@ == ivl(old(self).rtt(), old(self).rm(), old(self).rc(), old(self).j())
            && final(self).last_rto == r->Some_0,
        (old(self).latest is None && old(self).calculator.rc == 0) ==> r is None && final(self).latest is None,
        // timer call while an interval is in progress
        old(self).latest is Some ==> {
            let t0 = old(self).origin();
            let d = old(self).deadline();
            // early: same slot, same deadline
            &&& (instant.ns@ < d ==> r is Some && final(self).j() == old(self).j() && final(self).deadline() == d
                    && final(self).latest == Some(instant) && final(self).last_rto == r->Some_0)
            // on time or late: the next slot whose time is still ahead; every slot before it has passed;
            // the origin (hence every later deadline) is not shifted
            &&& (instant.ns@ >= d && r is Some ==> final(self).latest == Some(instant) && final(self).last_rto == r->Some_0
                    && final(self).origin() == t0
                    && old(self).j() < final(self).j() <= old(self).rc()
                    && final(self).deadline() > instant.ns@
                    && final(self).deadline() == t0 + sched(old(self).rtt(), old(self).rm(), old(self).rc(), final(self).j())
                    && (forall|k: int| old(self).j() <= k < final(self).j() ==>
                        t0 + #[trigger] sched(old(self).rtt(), old(self).rm(), old(self).rc(), k) <= instant.ns@))
            // exhausted: exactly when the last deadline t0 + S(Rc) has passed
            &&& (instant.ns@ >= d && r is None ==> final(self).latest is None && final(self).calculator.rc == 0
                    && t0 + sched(old(self).rtt(), old(self).rm(), old(self).rc(), old(self).rc()) <= instant.ns@)
            &&& (instant.ns@ >= d && t0 + sched(old(self).rtt(), old(self).rm(), old(self).rc(), old(self).rc()) > instant.ns@ ==> r is Some)
        },
//@before "let mut next_timeout"
    let ghost t0 = self.origin();
    let ghost j0 = self.j();
    let ghost rtt = self.rtt();
    let ghost rm = self.rm();
    let ghost rc = self.rc();
//@loop 1
    invariant
        self.calculator.wf(),
        self.rtt() == rtt, self.rm() == rm, self.rc() == rc,
        self.last_rto.ns@ >= 0,
        j0 >= 1,
        j0 <= self.j() <= rc,
        next_timeout.ns@ == t0 + sched(rtt, rm, rc, self.j()),
        next_timeout.ns@ <= instant.ns@,
        forall|k: int| j0 <= k <= self.j() ==> t0 + #[trigger] sched(rtt, rm, rc, k) <= instant.ns@,
        self.latest == old(self).latest,
        t0 == old(self).origin(), j0 == old(self).j(), rtt == old(self).rtt(), rm == old(self).rm(), rc == old(self).rc(),
        old(self).latest is Some, instant.ns@ >= old(self).deadline(),
    ensures
        self.calculator.rc == 0,
        self.j() == rc,
    decreases self.calculator.rc,
//@end
}

// ---- C06: the schedule in closed form, and the documented defaults
// props: C06
proof fn lemma_sched_closed(rtt: int, rm: int, rc: int, j: int)
    requires 0 <= j, j <= rc - 1,
    ensures sched(rtt, rm, rc, j) == (pow2i(j) - 1) * rtt,
    decreases j,
{
    if j > 0 {
        lemma_sched_closed(rtt, rm, rc, j - 1);
        let a = pow2i(j - 1);
        assert(pow2i(j) == 2 * a);
        assert(ivl(rtt, rm, rc, j - 1) == rtt * a);
        assert(sched(rtt, rm, rc, j) == sched(rtt, rm, rc, j - 1) + ivl(rtt, rm, rc, j - 1));
        assert((a - 1) * rtt + rtt * a == (2 * a - 1) * rtt) by (nonlinear_arith);
    } else {
        assert(pow2i(0) == 1);
        assert(sched(rtt, rm, rc, 0) == 0);
        assert((1 - 1) * rtt == 0);
    }
}
// props: C06
proof fn lemma_sched_deadline(rtt: int, rm: int, rc: int)
    requires rc >= 1,
    ensures sched(rtt, rm, rc, rc) == (pow2i(rc - 1) - 1 + rm) * rtt,
{
    lemma_sched_closed(rtt, rm, rc, rc - 1);
    assert((pow2i(rc - 1) - 1) * rtt + rtt * rm == (pow2i(rc - 1) - 1 + rm) * rtt) by (nonlinear_arith);
}
// props: C06
proof fn lemma_sched_defaults()
    ensures
        sched(500, 16, 7, 0) == 0, sched(500, 16, 7, 1) == 500, sched(500, 16, 7, 2) == 1500,
        sched(500, 16, 7, 3) == 3500, sched(500, 16, 7, 4) == 7500, sched(500, 16, 7, 5) == 15500,
        sched(500, 16, 7, 6) == 31500, sched(500, 16, 7, 7) == 39500,
{
    lemma_sched_deadline(500, 16, 7);
    lemma_sched_closed(500, 16, 7, 6); lemma_sched_closed(500, 16, 7, 5); lemma_sched_closed(500, 16, 7, 4);
    lemma_sched_closed(500, 16, 7, 3); lemma_sched_closed(500, 16, 7, 2); lemma_sched_closed(500, 16, 7, 1);
    lemma_sched_closed(500, 16, 7, 0);
    assert(pow2i(6) == 64 && pow2i(5) == 32 && pow2i(4) == 16 && pow2i(3) == 8 && pow2i(2) == 4 && pow2i(1) == 2 && pow2i(0) == 1) by (compute);
}
// reliable transport: RtoManager::new(timeout, 1, 1) -- one transmission, failure exactly at t0 + timeout
// props: C06
proof fn lemma_sched_reliable(t: int)
    ensures sched(t, 1, 1, 1) == t,
{
    assert(sched(t, 1, 1, 1) == sched(t, 1, 1, 0) + ivl(t, 1, 1, 0));
    assert(t * 1 == t);
}
//@consts stun_agent :: mod timeout
// props: C06
proof fn lemma_default_constants()
    ensures DEFAULT_RC == 7, DEFAULT_RM == 16,
{
}

impl RttCalcuator {
//@item stun_agent :: mod rtt > impl RttCalcuator > fn new
//@tags C05 C06 C11 C12 C15
//@spec
    ensures r.rto == rto, r.configured_rto == rto, r.granularity == granularity, r.srtt.ns@ == 0, r.rttvar.ns@ == 0,
//@end
//@item stun_agent :: mod rtt > impl RttCalcuator > fn reset
//@tags C05 C06 C11 C12 C15
//@spec
    ensures final(self).rto == old(self).configured_rto, final(self).configured_rto == old(self).configured_rto,
        final(self).granularity == old(self).granularity, final(self).srtt.ns@ == 0, final(self).rttvar.ns@ == 0,
//@end
//@item stun_agent :: mod rtt > impl RttCalcuator > fn rto
//@tags C05 C06 C11 C12 C15
//@spec
    ensures r == self.rto,
//@end
//@item stun_agent :: mod rtt > impl RttCalcuator > fn update
//@tags C05 C06 C11 C12 C15
//@rules R9
//@spec
    ensures
        final(self).granularity == old(self).granularity, final(self).configured_rto == old(self).configured_rto,
        old(self).srtt.ns@ == 0 ==> {
            let f = rfc6298_first(r.ns@ as int, old(self).granularity.ns@ as int);
            final(self).srtt.ns@ == f.0 && final(self).rttvar.ns@ == f.1 && final(self).rto.ns@ == f.2
        },
        old(self).srtt.ns@ != 0 ==> {
            let var = dur_mul_f32(old(self).rttvar, vxs_f32_1_0_sub_BETA()).ns@
                + dur_mul_f32(dur(if old(self).srtt.ns@ >= r.ns@ { old(self).srtt.ns@ - r.ns@ } else { r.ns@ - old(self).srtt.ns@ }), vxs_f32_BETA()).ns@;
            let srtt = dur_mul_f32(old(self).srtt, vxs_f32_1_0_sub_ALPHA()).ns@ + dur_mul_f32(r, vxs_f32_ALPHA()).ns@;
            let kvar = dur_mul_f32(dur(var as int), vxs_f32_K_as_f32());
            &&& final(self).rttvar.ns@ == var
            &&& final(self).srtt.ns@ == srtt
            &&& final(self).rto.ns@ == srtt + (if kvar.ns@ >= old(self).granularity.ns@ { kvar.ns@ } else { old(self).granularity.ns@ })
        },
//@end
}
// the constants the symbolic factors stand for (checked on the literal text of rtt.rs)
// props: C15
proof fn lemma_rtt_constants()
    ensures ALPHA == 0.125f32, BETA == 0.25f32, K == 4,
{
}

// ---------------------------------------------------------------- initial values (#[derive(Default)] / impl Default)
impl Default for StunMessageTimeout {
//@item stun_agent :: mod timeout > impl ::core::default::Default for StunMessageTimeout > fn default
//@tags C05 C06 C11 C12 C15
//@spec
    // no timer pending
    ensures r.wf(), r.ms().len() == 0,
//@head
    proof { assert(Seq::<TimeoutItem>::empty().to_multiset().len() == 0) by { Seq::<TimeoutItem>::empty().to_multiset_ensures(); } }
//@end
}
impl Default for RtoCalculator {
//@item stun_agent :: mod timeout > impl Default for RtoCalculator > fn default
//@tags C05 C06 C11 C12 C15
//@spec
    ensures r.rtt.ns@ == 500_000_000, r.rm == 1, r.rc == 7, r.last_rm == 16,
//@end
}
proof fn vx_sentinel() ensures false {}
} // verus!
fn main() {}
